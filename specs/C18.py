"""C18 — Every accepted interest curve is usable, bounded and non-decreasing."""
import z3
from mirsym.harness import *

ASSUMPTIONS = ['seven-point configs are constrained by the reference validity predicate VALID7 (an independent transcription of the property: padding only at the end, '
               'used utils strictly ascending, used rates non-decreasing, zero <= every used rate <= hundred); that validate_seven_point accepts only VALID7 configs is obligation C18.v (Kani)',
               'fee rates in [0, 2^20], fixed fees in [0, 2^20] (non-negative fees, as the property states)']
U32_MAX = 2**32 - 1
IRC = 'InterestRateCalc'


def t_lerp(world):
    eng = world.engine()
    f = world.fn(r'interest_rate\.rs[^>]*>::lerp$')
    ob = Ob('C18.a.lerp', 'lerp: in-range target on a non-decreasing segment => Some(y), start_y <= y <= end_y, exact at both ends, monotone in the target',
            [f.name], 'loop-free; x in [0,1], y in [0,10] (the ranges produced by util_from_u32 / rate_from_u32), all bit patterns')
    names = ['sx', 'sy', 'ex', 'ey', 't']
    args = [eng.ex.fresh(I80, n) for n in names]
    res = eng.run_fn(f, args); ob.paths = len(res)
    sx, sy, ex, ey, t = [a.e for a in args]
    dom = [sx >= 0, ex <= W, sx < ex, sx <= t, t <= ex, sy >= 0, sy <= ey, ey <= 10 * W]
    anysome = False
    for r in returned(res):
        some = z3.simplify(disc_is(r['ret'], 1))
        w = ob.witness(eng, r, dom)
        if w is False: continue
        ob.prove(eng, r, dom, some, 'valid segment and in-range target never yield None')
        y = r['ret'].payload.get(1, {}).get(0)
        if y is None: continue
        ob.prove(eng, r, dom + [some], z3.And(sy <= y.e, y.e <= ey), 'start_y <= y <= end_y')
        ob.prove(eng, r, dom + [some, t == sx], y.e == sy, 'y(start_x) == start_y')
        ob.prove(eng, r, dom + [some, t == ex], y.e == ey, 'y(end_x) == end_y')
        ob.no_panic(eng, r, dom)
    ob.need_witness()
    # monotone in t
    eng2 = world.engine()
    args2 = [eng2.ex.fresh(I80, n + '2') for n in names]
    res2 = eng2.run_fn(f, args2)
    for r1 in returned(res):
        for r2 in returned(res2):
            y1 = r1['ret'].payload.get(1, {}).get(0); y2 = r2['ret'].payload.get(1, {}).get(0)
            if y1 is None or y2 is None: continue
            s = z3.Solver(); s.set('timeout', 60000)
            for a in eng.ex.assumptions + eng2.ex.assumptions: s.add(a)
            for c in r1['pc'] + r2['pc']: s.add(c)
            s.add(*dom); s.add(disc_is(r1['ret'], 1), disc_is(r2['ret'], 1))
            s.add(args2[0].e == sx, args2[1].e == sy, args2[2].e == ex, args2[3].e == ey, args2[4].e >= t, args2[4].e <= ex)
            s.add(z3.Not(y2.e >= y1.e))
            t0 = time.time(); rr = s.check(); ob.solver_s += time.time() - t0; ob.queries += 1
            if rr == z3.unsat: ob.unsat += 1
            elif rr == z3.sat: ob.sat += 1; ob.cex.append({'ob': ob.oid, 'label': 'monotone in target', 'role': 'lerp-monotone', 'model': model_dict(s.model()), 'replay': None})
            else: ob.unknown += 1; ob.notes.append('UNKNOWN lerp monotone')
    return [ob]


def t_conv(world):
    obs = []
    for fname, top in (('rate_from_u32', 10 * W), ('util_from_u32', W)):
        eng = world.engine(); f = world.fn(r'interest_rate\.rs[^>]*>::%s$' % fname)
        a = eng.ex.fresh('u32', 'v'); res = eng.run_fn(f, [a])
        eng2 = world.engine(); a2 = eng2.ex.fresh('u32', 'v2'); res2 = eng2.run_fn(f, [a2])
        ob = Ob(f'C18.a.{fname}', f'{fname}: 0 -> 0, non-negative, <= {top // W}.0, monotone (util: strictly)', [f.name], 'loop-free; all u32'); ob.paths = len(res)
        for r in returned(res):
            if ob.witness(eng, r, []) is False: continue
            y = r['ret'].e
            ob.prove(eng, r, [], z3.And(y >= 0, y <= top), 'range')
            ob.prove(eng, r, [a.e == 0], y == 0, 'f(0) == 0')
            ob.prove(eng, r, [a.e == U32_MAX], z3.And(y <= top, y >= top - 16), 'f(u32::MAX) is the top of the range (within 16 ulps)')
            if fname == 'util_from_u32':
                ob.prove(eng, r, [a.e == U32_MAX], y == W, 'util(u32::MAX) == 1.0 exactly')
                ob.prove(eng, r, [a.e > 0], y > 0, 'util(v) > 0 for v > 0')
            for r2 in returned(res2):
                s = z3.Solver(); s.set('timeout', 30000)
                for x in eng.ex.assumptions + eng2.ex.assumptions: s.add(x)
                for c in r['pc'] + r2['pc']: s.add(c)
                s.add(a2.e >= a.e, z3.Not(z3.And(r2['ret'].e >= y, z3.Implies(z3.And(z3.BoolVal(fname == 'util_from_u32'), a2.e > a.e), r2['ret'].e > y))))
                ob.queries += 1; rr = s.check()
                if rr == z3.unsat: ob.unsat += 1
                elif rr == z3.sat: ob.sat += 1; ob.cex.append({'ob': ob.oid, 'label': 'monotone', 'role': 'conv-monotone', 'model': model_dict(s.model()), 'replay': None})
                else: ob.unknown += 1
        ob.need_witness(); obs.append(ob)
    return obs


def valid7(calc_name, sname=None):
    """reference validity predicate over the calc's (or config's) symbolic fields; returns (hyps, utils, rates, zero, hundred)"""
    sname = sname or IRC
    pi = STRUCTS[sname].index('points'); zi = STRUCTS[sname].index('zero_util_rate'); hi = STRUCTS[sname].index('hundred_util_rate')
    u = [z3.Int(f'{calc_name}.{pi}[{k}].0') for k in range(5)]
    r = [z3.Int(f'{calc_name}.{pi}[{k}].1') for k in range(5)]
    z = z3.Int(f'{calc_name}.{zi}'); h = z3.Int(f'{calc_name}.{hi}')
    H = [z <= h, z >= 0, h <= U32_MAX]
    for k in range(5):
        H += [u[k] >= 0, u[k] <= U32_MAX, r[k] >= 0, r[k] <= U32_MAX]
        H.append(z3.Implies(u[k] == 0, r[k] == 0))
        H.append(z3.Implies(u[k] != 0, z3.And(z <= r[k], r[k] <= h)))
        if k > 0:
            H.append(z3.Implies(u[k] != 0, z3.And(u[k - 1] != 0, u[k - 1] < u[k], r[k - 1] <= r[k])))
    return H, u, r, z, h


def conv_rate(v):   # mirror of rate_from_u32: trunc(v*2^48/u32::MAX) wrapped-multiplied by 10
    return ((v * W) / U32_MAX) * 10


def conv_util(v):
    return (v * W) / U32_MAX


LERP_DOM = lambda sx, sy, ex, ey, t: z3.And(sx >= 0, ex <= W, sx < ex, sx <= t, t <= ex, sy >= 0, sy <= ey, ey <= 10 * W)


def lerp_summary(eng, st, callee, args):
    """lerp replaced by the contract proved for it from its own MIR in C18.a.lerp (assume/guarantee)"""
    sx, sy, ex, ey, t = [a.e for a in args]
    y = z3.Int(eng.ex.fresh_name('lerp_y')); d = z3.Int(eng.ex.fresh_name('lerp_d'))
    eng.ex.assumptions.append(z3.And(d >= 0, d <= 1, y >= I128_MIN, y <= I128_MAX))
    st.pc.append(z3.Implies(LERP_DOM(sx, sy, ex, ey, t), z3.And(d == 1, sy <= y, y <= ey, z3.Implies(t == sx, y == sy), z3.Implies(t == ex, y == ey))))
    st.events.append(('lerp', (sx, sy, ex, ey, t), y, d))
    return EnumV('Option', d, {1: {0: IntV(y, I80)}})


RATE = z3.Function('rate_from_u32', z3.IntSort(), z3.IntSort())
UTIL = z3.Function('util_from_u32', z3.IntSort(), z3.IntSort())


def conv_axioms(u, rt, z, h):
    """instances of the contracts proved in C18.a.rate_from_u32 / C18.a.util_from_u32 for the terms that occur"""
    A = []
    rs = [z, h] + list(rt); us = list(u) + [z3.IntVal(0), z3.IntVal(U32_MAX)]
    for a in rs:
        A += [RATE(a) >= 0, RATE(a) <= 10 * W, z3.Implies(a == 0, RATE(a) == 0)]
        for b in rs:
            if a is not b: A.append(z3.Implies(a <= b, RATE(a) <= RATE(b)))
    for a in us:
        A += [UTIL(a) >= 0, UTIL(a) <= W, z3.Implies(a == 0, UTIL(a) == 0), z3.Implies(a > 0, UTIL(a) > 0), z3.Implies(a == U32_MAX, UTIL(a) == W)]
        for b in us:
            if a is not b: A += [z3.Implies(a < b, UTIL(a) < UTIL(b)), z3.Implies(a == b, UTIL(a) == UTIL(b))]
    return A


def curve_run(world, urname):
    eng = world.engine()
    eng.summaries = [(re.compile(r'InterestRateCalc::lerp$'), lerp_summary),
                     (re.compile(r'InterestRateCalc::rate_from_u32$'), lambda e, st, c, a: IntV(RATE(a[0].e), I80)),
                     (re.compile(r'InterestRateCalc::util_from_u32$'), lambda e, st, c, a: IntV(UTIL(a[0].e), I80))]
    f = world.fn(r'interest_rate_multipoint_curve$')
    calc = eng.ex.fresh(f.params[0][1], 'calc'); ur = eng.ex.fresh(I80, urname)
    res = eng.run_fn(f, [calc, ur])
    return eng, f, ur, res


def t_curve(world):
    eng, f, ur, res = curve_run(world, 'ur')
    ob = Ob('C18.b', 'seven-point curve on every VALID7 config and every utilization (clamped to [0,1]): defined, within [zero,hundred], equals each point',
            [f.name], '5 points unrolled through the filter/next iterator models (closure executed from its MIR); lerp summarised by its proved contract; all u32 points; ur any I80F48')
    ob.paths = len(res)
    H, u, rt, z, h = valid7('calc*')
    H = H + conv_axioms(u, rt, z, h)
    zr, hr = RATE(z), RATE(h)
    conv_rate = RATE; conv_util = UTIL
    for r in returned(res):
        some = z3.simplify(disc_is(r['ret'], 1))
        w = ob.witness(eng, r, H)
        if w is False: continue
        ob.prove(eng, r, H, some, 'VALID7 => curve defined (Some) for every utilization')
        y = r['ret'].payload.get(1, {}).get(0)
        if y is None: continue
        ob.prove(eng, r, H + [some], z3.And(zr <= y.e, y.e <= hr), 'zero_rate <= r <= hundred_rate')
        for k in range(5):
            ob.prove(eng, r, H + [some, u[k] != 0, ur.e == conv_util(u[k])], y.e == conv_rate(rt[k]), f'r(point[{k}].util) == point[{k}].rate')
        ob.prove(eng, r, H + [some, ur.e <= 0], y.e == zr, 'ur <= 0 (clamped) gives the zero-utilization rate')
        ob.prove(eng, r, H + [some, ur.e >= W] + [x < U32_MAX for x in u], y.e == hr, 'ur >= 1 (clamped) gives the full-utilization rate (no point placed at exactly 100%)')
        ob.no_panic(eng, r, H)
    ob.need_witness()
    return [ob]


def t_curve_monotone(world):
    eng, f, ur, res = curve_run(world, 'ur')
    eng2, f2, ur2, res2 = curve_run(world, 'ur2')      # same calc symbols, second utilization
    res = [r for r in returned(res) if r['ret'].payload.get(1, {}).get(0) is not None]
    res2 = [r for r in returned(res2) if r['ret'].payload.get(1, {}).get(0) is not None]
    ob = Ob('C18.b.mono', 'seven-point curve is non-decreasing in utilization: ur1 <= ur2 => r(ur1) <= r(ur2), on every VALID7 config',
            [f.name], 'all pairs of paths of two executions over the same symbolic config; lerp = proved contract incl. monotonicity in the target (instantiated per call pair)')
    ob.paths = len(res) + len(res2)
    H, u, rt, z, h = valid7('calc*')
    H = H + conv_axioms(u, rt, z, h)
    base = z3.Solver(); base.set('timeout', 60000)
    for a in eng.ex.assumptions + eng2.ex.assumptions: base.add(a)
    for x in H: base.add(x)
    base.add(ur2.e >= ur.e)
    for r1 in res:
        base.push()
        for c in r1['pc']: base.add(c)
        base.add(disc_is(r1['ret'], 1))
        if base.check() == z3.unsat:
            base.pop(); continue
        y1 = r1['ret'].payload[1][0].e
        l1 = [e for e in r1['events'] if e[0] == 'lerp']
        for r2 in res2:
            base.push()
            for c in r2['pc']: base.add(c)
            base.add(disc_is(r2['ret'], 1))
            for e1 in l1:
                for e2 in [e for e in r2['events'] if e[0] == 'lerp']:
                    a1, a2 = e1[1], e2[1]
                    base.add(z3.Implies(z3.And(a1[0] == a2[0], a1[1] == a2[1], a1[2] == a2[2], a1[3] == a2[3], a1[4] <= a2[4], LERP_DOM(*a1), LERP_DOM(*a2)), e1[2] <= e2[2]))
            t0 = time.time(); w = base.check(); ob.queries += 1
            if w != z3.unsat:
                if w == z3.sat: ob.witness_sat += 1
                base.add(z3.Not(r2['ret'].payload[1][0].e >= y1))
                rr = base.check(); ob.queries += 1
                if rr == z3.unsat: ob.unsat += 1
                elif rr == z3.sat:
                    ob.sat += 1
                    if len(ob.cex) < 3: ob.cex.append({'ob': ob.oid, 'label': 'monotone in utilization', 'role': 'curve-monotone', 'model': model_dict(base.model()), 'replay': None})
                else: ob.unknown += 1; ob.notes.append('UNKNOWN pair')
            ob.solver_s += time.time() - t0
            base.pop()
        base.pop()
    ob.need_witness()
    return [ob]


def tasks(tier):
    return [('lerp', t_lerp), ('conv', t_conv), ('curve', t_curve), ('curve_monotone', t_curve_monotone)]


# ---------------------------------------------------------------- legacy curve and calc_interest_rate
def t_legacy(world):
    f = world.fn(r'interest_rate\.rs[^>]*>::interest_rate_curve$')
    def run(urn):
        eng = world.engine(); calc = eng.ex.fresh(f.params[0][1], 'calc'); ur = eng.ex.fresh(I80, urn)
        return eng, ur, eng.run_fn(f, [calc, ur])
    eng, ur, res = run('ur'); eng2, ur2, res2 = run('ur2')
    ob = Ob('C18.c', 'legacy 3-point curve on every config accepted by validate_legacy, ur in [0,1]: defined, 0 <= r <= max, r(optimal)=plateau, r(1)=max, non-decreasing',
            [f.name], 'loop-free; optimal in (0,1), 0 < plateau < max <= 1000.0; ur in [0,1]'); ob.paths = len(res)
    gi = lambda n: z3.Int('calc*.%d' % STRUCTS[IRC].index(n))
    opt, plat, mx = gi('optimal_utilization_rate'), gi('plateau_interest_rate'), gi('max_interest_rate')
    H = [opt > 0, opt < W, plat > 0, mx > 0, plat < mx, mx <= 1000 * W, ur.e >= 0, ur.e <= W]
    for r in returned(res):
        some = z3.simplify(disc_is(r['ret'], 1))
        if ob.witness(eng, r, H) is False: continue
        ob.prove(eng, r, H, some, 'defined for every ur in [0,1]')
        y = r['ret'].payload.get(1, {}).get(0)
        if y is None: continue
        ob.prove(eng, r, H + [some], z3.And(y.e >= 0, y.e <= mx), '0 <= r <= max rate')
        ob.prove(eng, r, H + [some, ur.e == opt], y.e == plat, 'r(optimal) == plateau')
        ob.prove(eng, r, H + [some, ur.e == W], y.e == mx, 'r(100%) == max')
        ob.prove(eng, r, H + [some, ur.e == 0], y.e == 0, 'r(0) == 0')
        ob.no_panic(eng, r, H)
        for r2 in returned(res2):
            y2 = r2['ret'].payload.get(1, {}).get(0)
            if y2 is None: continue
            s = z3.Solver(); s.set('timeout', 60000)
            for a in eng.ex.assumptions + eng2.ex.assumptions: s.add(a)
            for c in r['pc'] + r2['pc']: s.add(c)
            s.add(*H); s.add(some, disc_is(r2['ret'], 1), ur2.e >= ur.e, ur2.e <= W, z3.Not(y2.e >= y.e - 2))
            t0 = time.time(); rr = s.check(); ob.queries += 1; ob.solver_s += time.time() - t0
            if rr == z3.unsat: ob.unsat += 1
            elif rr == z3.sat: ob.sat += 1; ob.cex.append({'ob': ob.oid, 'label': 'legacy monotone (2 ulps)', 'role': 'legacy-monotone', 'model': model_dict(s.model()), 'replay': None})
            else: ob.unknown += 1; ob.notes.append('UNKNOWN legacy monotone')
    ob.need_witness()
    return [ob]


def t_calc_rate(world):
    eng = world.engine()
    def curve_sum(e, st, c, a):
        b = z3.Int('base'); e.ex.assumptions.append(z3.And(b >= 0, b <= 10 * W))
        st.events.append(('curve', c))
        return EnumV('Option', 1, {1: {0: IntV(b, I80)}})
    eng.summaries = [(re.compile(r'interest_rate_multipoint_curve$|::interest_rate_curve$'), curve_sum)]
    f = world.fn(r'interest_rate\.rs[^>]*>::calc_interest_rate$')
    calc = eng.ex.fresh(f.params[0][1], 'calc'); ur = eng.ex.fresh(I80, 'ur')
    res = eng.run_fn(f, [calc, ur])
    ob = Ob('C18.d', 'calc_interest_rate with an accepted curve (base in [0,10], the contract of C18.b/c), fees >= 0: Some, no assert reachable, borrow >= base, ur <= 1 => lend <= base',
            [f.name], 'loop-free; fee rates and fixed fees in [0, 2^20]; utilization in [0, 2^20]'); ob.paths = len(res)
    gi = lambda n: z3.Int('calc*.%d' % STRUCTS[IRC].index(n))
    fees = [gi(n) for n in ('insurance_fixed_fee', 'insurance_rate_fee', 'protocol_fixed_fee', 'protocol_rate_fee', 'program_fee_fixed', 'program_fee_rate')]
    ct = gi('curve_type')
    B = (1 << 20) * W
    H = [z3.And(x >= 0, x <= B) for x in fees] + [ur.e >= 0, ur.e <= B, z3.Or(ct == 0, ct == 1)]
    base = z3.Int('base')
    n_some = 0
    for r in res:
        if r['status'] != 'return':
            # a panicking / diverging path must be unreachable inside the domain
            s = z3.Solver(); s.set('timeout', 30000)
            for a in eng.ex.assumptions: s.add(a)
            for c in r['pc']: s.add(c)
            s.add(*H); rr = s.check(); ob.queries += 1
            if rr == z3.unsat: ob.unsat += 1
            elif rr == z3.sat: ob.sat += 1; ob.cex.append({'ob': ob.oid, 'label': 'panic path reachable: ' + r['status'][:60], 'role': 'calc-rate-panic', 'model': model_dict(s.model()), 'replay': None})
            else: ob.unknown += 1
            continue
        some = z3.simplify(disc_is(r['ret'], 1))
        if ob.witness(eng, r, H) is False: continue
        ob.prove(eng, r, H, some, 'Some for every accepted curve / fees / utilization')
        v = r['ret'].payload.get(1, {}).get(0)
        if v is None: continue
        names = STRUCTS['ComputedInterestRates']
        g = lambda n: ev(eng.get_path(v, (('f', names.index(n), I80),)) if names.index(n) in v.fields else v.fields[n])
        lend, bor = g('lending_rate_apr'), g('borrowing_rate_apr')
        ob.prove(eng, r, H + [some], bor >= base, 'borrow rate >= base rate')
        ob.prove(eng, r, H + [some, ur.e <= W], lend <= base, 'ur <= 1 => lending rate <= base rate')
        ob.prove(eng, r, H + [some], z3.And(g('group_fee_apr') >= 0, g('insurance_fee_apr') >= 0, g('protocol_fee_apr') >= 0, lend >= 0), 'fee aprs and lending rate non-negative')
        ob.prove(eng, r, H + [some], bor >= base + g('group_fee_apr') + g('insurance_fee_apr') + g('protocol_fee_apr') - 3, 'borrowers are charged at least base + the three fee aprs (3 ulps)')
        ob.no_panic(eng, r, H)
    ob.need_witness()
    return [ob]


_t0 = tasks
def tasks(tier):
    return _t0(tier) + [('legacy', t_legacy), ('calc_rate', t_calc_rate)]



# ---------------------------------------------------------------- C18.v: the validator accepts only curves of the domain the curve obligations assume
def t_validator(world):
    eng = world.engine(max_paths=200000)
    f = world.fn(r'interest_rate\.rs[^>]*>::validate_seven_point$')
    cfg = eng.ex.fresh(f.params[0][1], 'irc'); res = eng.run_fn(f, [cfg])
    ob = Ob('C18.v', 'validate_seven_point accepts only curves in the domain assumed by C18.b/c: padding (0,0) only at the end, kink utils strictly increasing, kink rates non-decreasing, EVERY kink rate within [zero-util rate, hundred-util rate], zero <= hundred; and create_interest_rate_calculator copies points and end rates verbatim',
            [f.name], '5 points unrolled (Vec model: concrete length per path); all u32 values'); ob.paths = len(res)
    H, u, r_, z, h = valid7('irc*', 'InterestRateConfig')
    n_ok = 0
    for r, okc in ok_paths(res):
        if ob.witness(eng, r, [okc]) is False: continue
        n_ok += 1
        for k, hk in enumerate(H):
            ob.prove(eng, r, [okc], hk, f'accepted => domain conjunct {k}: {str(hk)[:90]}', role='validator-domain')
    ob.notes.append(f'{n_ok} accepting paths (0..5 used points)')
    ob.need_witness()
    # the calculator sees exactly the validated numbers
    eng2 = world.engine(opaque=[r'get_group_bank_config$'])
    f2 = world.fn(r'interest_rate\.rs[^>]*>::create_interest_rate_calculator$')
    a2 = [eng2.ex.fresh(ty, n) for n, (_, ty) in zip(['irc', 'grp'], f2.params)]
    res2 = eng2.run_fn(f2, a2)
    ob2 = Ob('C18.v.calc', 'create_interest_rate_calculator copies zero/hundred rates, the five points and the curve type verbatim from the validated config', [f2.name], 'loop-free'); ob2.paths = len(res2)
    CI = STRUCTS[IRC]; GI = STRUCTS['InterestRateConfig']
    for r in returned(res2):
        if ob2.witness(eng2, r, []) is False: continue
        calc = r['ret']
        eqs = []
        for fld in ('zero_util_rate', 'hundred_util_rate', 'curve_type'):
            eqs.append(ev(fget(eng2, calc, IRC, fld)) == fsym('irc*', 'InterestRateConfig', fld))
        pts = eng2.get_path(calc, (('f', CI.index('points'), '[RatePoint; 5]'),))
        for k in range(5):
            for j in (0, 1):
                eqs.append(ev(eng2.get_path(pts, (('i', k), ('f', j, 'u32')))) == z3.Int(f'irc*.{GI.index("points")}[{k}].{j}'))
        ob2.prove(eng2, r, [], z3.And(eqs), 'verbatim copy')
    ob2.need_witness()
    return [ob, ob2]


_t1v = tasks
def tasks(tier):
    return _t1v(tier) + [('validator', t_validator)]


# ---------------------------------------------------------------- "every ACCEPTED configuration has a well-defined curve": the acceptance gate itself. Shared with C13.a / C13.d: BankConfig::validate
# consults the curve validator on every accepting path, and every bank initialiser passes the bank it wrote through BankConfig::validate (seed C18-5 moved the curve
# validation out of BankConfig::validate into Bank::configure, so new banks, migrate_curve and propagate_staked_settings accepted any curve)
_t18w = tasks
def tasks(tier):
    import specs.C13 as C13
    return _t18w(tier) + [('config_validate', renamed(C13.t_validate, 'C13.a', 'C18.w'))] + \
        [(f'add_bank:{n}', renamed(C13.mk_add_bank(n), 'C13.d.', 'C18.w.')) for n in C13.ADD_BANK]
WORLD = ('marginfi', 'typecrate', 'drift')
