"""C03 — No free value: no operation or round trip pays out more than it debits."""
from mirsym.harness import *
from specs.wrappers import *
WORLD = ('marginfi', 'typecrate', 'drift')
ASSUMPTIONS = ['share values > 0 (C06/C07 show asset share value >= 0, liability share value monotone from 1)',
               'rounding allowance for payouts: (asset share value + liability share value)/2^48 + 4 ulps of I80F48']
REPLAYERS = {'wrapper': replay_wrapper}


def tasks(tier):
    n = 40 if tier == 'quick' else 1000
    return [(f'{op}', wrapper_task(op, 'C03', n)) for op in OPS if goals_for(op, OpPre, ('C03',))]
