"""C03 — No free value: no operation or round trip pays out more than it debits."""
from mirsym.harness import *
from specs.wrappers import *
WORLD = ('marginfi', 'typecrate', 'drift')
ASSUMPTIONS = ['share values > 0 (C06/C07 show asset share value >= 0, liability share value monotone from 1)',
               'rounding allowance for payouts: (asset share value + liability share value)/2^48 + 4 ulps of I80F48']
REPLAYERS = {'wrapper': replay_wrapper}


def tasks(tier):
    n = 40 if tier == 'quick' else 1000
    return [(f'{op}', wrapper_task(op, 'C03', n)) for op in OPS if goals_for(op, OpPre, ('C03',))]


# ---------------------------------------------------------------- C03.f: the Token-2022 transfer-fee gross-up (deposit / repay pull `pre` so that the vault receives at least what is credited)
def t_pre_fee(world):
    import z3
    eng = world.engine(merge=False)
    f = world.fn(r'(^|::)calculate_pre_fee_amount$')
    tf = eng.ex.fresh(f.params[0][1], 'tf'); post = eng.ex.fresh('u64', 'post')
    res = eng.run_fn(f, [tf, post])
    ob = Ob('C03.f', 'calculate_pre_fee_amount: Some(pre) => pre - fee(pre) >= post (the vault receives at least the amount credited to the user), pre >= post, pre fits u64 (None instead of a wrapped value); '
            'fee(x) = min(ceil(x*bps/10^4), maximum_fee) is the Token-2022 fee rule (trusted SPL semantics)',
            [f.name] + [x.name for x in world.fns(r'(^|::)ceil_div$')], 'loop-free; every path; all u64 amounts and maximum fees, all fee rates 0..=10000 bps (symbolic)'); ob.paths = len(res)
    names = set()
    for r in res: names |= set(free_consts(z3.And(r['pc'] + [post.e >= 0])))
    mx = [n for n in names if 'PodU64_from' in n]; bp = [n for n in names if 'PodU16_from' in n]
    if len(mx) != 1 or len(bp) != 1: ob.fail(f'transfer-fee fields not identified: {mx} {bp}'); return [ob]
    MX, BPS, POST = z3.Int(mx[0]), z3.Int(bp[0]), post.e
    dom = [BPS >= 0, BPS <= 10000, MX >= 0, MX <= U64_MAX]
    cdiv = lambda a, b: (a + b - 1) / b
    fee = lambda x: z3.If(z3.Or(BPS == 0, x == 0), 0, z3.If(cdiv(x * BPS, 10000) <= MX, cdiv(x * BPS, 10000), MX))
    for r, somec in ok_paths(res, 1):
        h = dom + [somec]
        if ob.witness(eng, r, h) is False: continue
        pre = r['ret'].payload[1][0].e
        ob.prove(eng, r, h, pre - fee(pre) >= POST, 'pre - fee(pre) >= post: tokens arriving in the vault cover the amount booked', role='gross-up', replay='pre_fee', timeout=120000)
        ob.prove(eng, r, h, z3.And(pre >= POST, pre <= U64_MAX), 'pre >= post and fits u64', role='gross-up-range', replay='pre_fee')
        ob.prove(eng, r, h + [BPS < 10000, POST > 0], z3.Or(pre == 0, (pre - 1) - fee(pre - 1) <= POST), 'pre is within one unit of the least sufficient amount (no systematic overcharge)', role='gross-up-minimal', replay='pre_fee', timeout=120000)
    ob.need_witness()
    return [ob]


def replay_pre_fee(model, spec=None):
    mxn = [k for k in model if 'PodU64_from' in k]; bpn = [k for k in model if 'PodU16_from' in k]
    mx = int(model.get(mxn[0], 0)) if mxn else 0; bps = int(model.get(bpn[0], 0)) if bpn else 0; post = int(model.get('post', 0))
    req = {'fn': 'pre_fee_amount', 'bps': str(bps), 'max_fee': str(mx), 'post': str(post)}
    out = native([req])[0]
    if out.get('pre') is None: return False, {'request': req, 'native': out, 'verdict': 'native returns None: not reproduced'}
    pre = int(out['pre'])
    fee = int(out['spl_fee_of_pre']) if out.get('spl_fee_of_pre') is not None else (0 if (bps == 0 or pre == 0) else min((pre * bps + 9999) // 10000, mx))     # the real spl-token-2022 TransferFee::calculate_fee
    viol = pre - fee < post or pre < post
    return viol, {'request': req, 'native': out, 'fee_of_pre': fee, 'vault_receives': pre - fee, 'verdict': 'the vault receives less than the amount booked' if viol else 'not reproduced'}


REPLAYERS['pre_fee'] = replay_pre_fee
_t_c03 = tasks
def tasks(tier):
    return _t_c03(tier) + [('pre_fee', t_pre_fee)]
