"""C13 — Accepted configurations are coherent and always leave a liquidation buffer."""
import z3
from mirsym.harness import *

ASSUMPTIONS = ['e-mode leverage caps are compared on the code-level leverage l = 1/(1 - trunc(cw/lw)) (fixed-point, rounded down by < l^2 * 2^-48)',
               'uniqueness of e-mode tags relies on check_dupes (adjacent duplicates on sorted entries) - decided by the Kani harness C13.k']
RT = ENUMS['RiskTier']


def t_validate(world):
    eng = world.engine(merge=True, opaque=[r'InterestRateConfigImpl>::validate$|interest_rate::<impl[^>]*>::validate$'])
    f = world.fn(r'bank_config\.rs[^>]*>::validate$')
    cfg = eng.ex.fresh(f.params[0][1], 'cfg')
    res = eng.run_fn(f, [cfg])
    ob = Ob('C13.a', 'BankConfig::validate accepts only coherent weights / risk tier / oracle age, and consults the curve validator',
            [f.name], 'loop-free; all i128 weight bit patterns'); ob.paths = len(res)
    g = lambda n: fsym('cfg*', 'BankConfig', n)
    awi, awm, lwi, lwm = g('asset_weight_init'), g('asset_weight_maint'), g('liability_weight_init'), g('liability_weight_maint')
    for r, okc in ok_paths(res):
        if ob.witness(eng, r, [okc]) is False: continue
        ob.prove(eng, r, [okc], z3.And(awi >= 0, awi <= W), '0 <= initial asset weight <= 1')
        ob.prove(eng, r, [okc], z3.And(awi <= awm, awm <= 2 * W), 'initial <= maintenance asset weight <= 2')
        ob.prove(eng, r, [okc], z3.And(lwm >= W, lwm <= lwi), '1 <= maintenance liability weight <= initial liability weight')
        ob.prove(eng, r, [okc, g('risk_tier') == RT['Isolated']], z3.And(awi == 0, awm == 0), 'isolated banks carry zero asset weights')
        ob.prove(eng, r, [okc], g('oracle_max_age') >= 10, 'oracle max age >= ORACLE_MIN_AGE (10 s)')
        cs = calls(r, r'validate$')
        if not cs: ob.structural('Ok path without a call to the interest-rate config validator', 'no-curve-validator')
        else:
            rv = None
            # the curve validator's result must be Ok on every accepted path
            for e in flat_events(r['events']):
                pass
    ob.need_witness()
    # Ok must imply the curve validator returned Ok: find its result symbol and ask
    for r, okc in ok_paths(res):
        names = [n for n in free_consts(z3.And(r['pc'] + [okc])) if 'validate' in n and n.endswith('.disc')]
        if not names: ob.fail('curve validator result does not influence acceptance')
        for n in names:
            ob.prove(eng, r, [okc], z3.Int(n) == 0, 'accepted => curve validator returned Ok')
    return [ob]


def t_max_leverage(world):
    f = world.fn(r'(^|::)calculate_max_leverage$')
    def run(sfx):
        eng = world.engine(); cw = eng.ex.fresh(I80, 'cw' + sfx); lw = eng.ex.fresh(I80, 'lw' + sfx)
        return eng, cw, lw, eng.run_fn(f, [cw, lw])
    eng, cw, lw, res = run(''); eng2, cw2, lw2, res2 = run('2')
    ob = Ob('C13.b', 'calculate_max_leverage: Ok(l) => lw > 0, cw < lw, l = trunc(1/(1 - trunc(cw/lw))) >= 1 (for cw >= 0); monotone in cw',
            [f.name], 'loop-free; weights in [-2^20, 2^20]'); ob.paths = len(res)
    dom = [cw.e >= -(1 << 20) * W, cw.e <= (1 << 20) * W, lw.e >= -(1 << 20) * W, lw.e <= (1 << 20) * W]
    for r, okc in ok_paths(res):
        if ob.witness(eng, r, dom + [okc]) is False: continue
        l = r['ret'].payload[0][0].e
        ratio = tdiv(cw.e * W, lw.e)
        ob.prove(eng, r, dom + [okc], z3.And(lw.e > 0, cw.e < lw.e), 'Ok => liability weight > 0 and collateral weight < liability weight')
        ob.prove(eng, r, dom + [okc], l == tdiv(W * W, W - ratio), 'Ok(l) => l == 1/(1 - cw/lw) in fixed point')
        ob.prove(eng, r, dom + [okc, cw.e >= 0], l >= W, 'cw >= 0 => leverage >= 1')
        ob.no_panic(eng, r, dom + [okc])
        for r2, ok2 in ok_paths(res2):
            s = z3.Solver(); s.set('timeout', 60000)
            for a in eng.ex.assumptions + eng2.ex.assumptions: s.add(a)
            for c in r['pc'] + r2['pc']: s.add(c)
            s.add(*dom); s.add(okc, ok2, lw2.e == lw.e, cw2.e >= cw.e, cw.e >= 0, z3.Not(r2['ret'].payload[0][0].e >= l))
            ob.queries += 1; rr = s.check()
            if rr == z3.unsat: ob.unsat += 1
            elif rr == z3.sat: ob.sat += 1; ob.cex.append({'ob': ob.oid, 'label': 'monotone in cw', 'role': 'lev-monotone', 'model': model_dict(s.model()), 'replay': None})
            else: ob.unknown += 1; ob.notes.append('UNKNOWN monotone')
    ob.need_witness()
    for r, errc in ok_paths(res, 1):
        ob.prove(eng, r, dom + [errc, lw.e > 0, cw.e >= 0, cw.e < lw.e, lw.e <= 4 * W], tdiv(cw.e * W, lw.e) == W, 'a valid pair is rejected only when cw/lw rounds to 1.0')
    return [ob]


def lev_summary(eng, st, callee, args):
    cw, lw = args[0].e, args[1].e
    l = z3.Int(eng.ex.fresh_name('lev')); d = z3.Int(eng.ex.fresh_name('lev_d'))
    eng.ex.assumptions.append(z3.And(d >= 0, d <= 1, l >= I128_MIN, l <= I128_MAX))
    st.pc.append(z3.Implies(d == 0, z3.And(lw > 0, cw < lw)))          # contract proved in C13.b
    st.events.append(('lev', (cw, lw), l, d))
    return EnumV('Result', d, {0: {0: IntV(l, I80)}, 1: {0: Opaque('E', 'err')}})


def mk_entries(nonempty):
    def task(world):
        eng = world.engine(merge=True, opaque=[r'check_dupes$'], max_paths=200000)      # u32_to_basis is inlined from the type crate's MIR (exact integer arithmetic)
        eng.summaries = [(re.compile(r'calculate_max_leverage$'), lev_summary)]
        f = world.fn(r'emode\.rs[^>]*>::validate_entries_with_liability_weights$')
        args = [eng.ex.fresh(f.params[0][1], 'em'), eng.ex.fresh(f.params[1][1], 'cfg'), eng.ex.fresh('u32', 'cap_i'), eng.ex.fresh('u32', 'cap_m')]
        ei = STRUCTS['EmodeSettings'].index('emode_config'); ci = STRUCTS['EmodeConfig'].index('entries')
        tagsym = lambda k: z3.Int(f'em*.{ei}.{ci}[{k}].0')
        hyp = [tagsym(k) == 0 for k in range(10) if k not in nonempty] + [tagsym(k) != 0 for k in nonempty]
        res = eng.run_fn(f, args, pc=hyp)
        ob = Ob('C13.c.' + '-'.join(map(str, nonempty)), f'validate_entries_with_liability_weights, entries {list(nonempty)} non-empty (others empty): Ok => 0 <= init <= maint, cw < lw vs THIS bank, leverage compared with the caps, check_dupes consulted',
                [f.name], '10 entries unrolled (array IntoIter model); sliced: which entries are non-empty is fixed per obligation (all singletons and all pairs); calculate_max_leverage = proved contract')
        ob.paths = len(res)
        lwi, lwm = fsym('cfg*', 'BankConfig', 'liability_weight_init'), fsym('cfg*', 'BankConfig', 'liability_weight_maint')
        for r, okc in ok_paths(res):
            if ob.witness(eng, r, [okc]) is False: continue
            levs = [e for e in flat_events(r['events']) if e[0] == 'lev']
            goals = []
            for k in nonempty:
                base = f'em*.{ei}.{ci}[{k}]'
                ini = z3.Int(f'{base}.3'); mnt = z3.Int(f'{base}.4')
                goals.append(z3.And(ini >= 0, mnt >= ini, ini < lwi, mnt < lwm, lwi > 0, lwm > 0))
            ob.prove(eng, r, [okc], z3.And(goals), 'non-empty entries: 0 <= init <= maint, init < liab_init_w, maint < liab_maint_w')
            # for every non-empty entry both leverages were computed (against this bank's weights) and compared with a cap
            for k in nonempty:
                base = f'em*.{ei}.{ci}[{k}]'
                ini = z3.Int(f'{base}.3'); mnt = z3.Int(f'{base}.4')
                U32M = 2**32 - 1
                capv = lambda c: ((((c * W) * W) / (U32M * W)) * (100 * W)) / W        # u32_to_basis, written independently: (c / u32::MAX) * 100 in I80F48 (truncating division, flooring product)
                ob.prove(eng, r, [okc], z3.Or([z3.And(e[1][0] == ini, e[1][1] == lwi, e[3] == 0, e[2] <= capv(args[2].e)) for e in levs] or [z3.BoolVal(False)]),
                         f'entry {k}: initial leverage computed vs liability_weight_init, Ok, and <= the group\'s initial cap (u32 scale 0..100)', role='leverage-cap')
                ob.prove(eng, r, [okc], z3.Or([z3.And(e[1][0] == mnt, e[1][1] == lwm, e[3] == 0, e[2] <= capv(args[3].e)) for e in levs] or [z3.BoolVal(False)]),
                         f'entry {k}: maintenance leverage computed vs liability_weight_maint, Ok, and <= the group\'s maintenance cap', role='leverage-cap')
            if not calls(r, r'check_dupes'): ob.structural('Ok path without check_dupes', 'no-dupes-check')
        ob.need_witness()
        return [ob]
    return task


def tasks(tier):
    import itertools
    sl = [(k,) for k in range(10)] + (list(itertools.combinations(range(10), 2)) if tier == 'thorough' else [(0, 1), (0, 9), (4, 5), (8, 9)])
    return [('validate', t_validate), ('max_leverage', t_max_leverage)] + [('entries' + '-'.join(map(str, x)), mk_entries(x)) for x in sl]


# ---------------------------------------------------------------- C13.d: every write path validates exactly what it leaves behind
from specs.C12 import leaves, pretty, find_accounts, WS_OPAQUE
WORLD = ('marginfi', 'typecrate', 'drift')


def struct_ids(v, pth, out):
    if isinstance(v, StructV):
        out[pth] = v.name
        for k, x in v.fields.items():
            if isinstance(k, int): struct_ids(x, pth + (f'[{k}]' if v.ty.strip().startswith('[') else f'.{k}'), out)


def _snapshot(eng, ref):
    v = eng.deref_val(ref); lv = []
    leaves(eng, v, '', lv)
    snap = {p: ev(x) for p, x in lv}
    ids = {}; struct_ids(v, '', ids)
    snap['__ids'] = ids
    return v.name, snap


def sum_val_emode(eng, st, callee, args):
    en, es = _snapshot(eng, args[0]); cn, cs = _snapshot(eng, args[1])
    d = z3.Int(eng.ex.fresh_name('val_emode_disc')); eng.ex.assumptions.append(z3.And(d >= 0, d <= 1))
    st.events.append(('val_emode', en, cn, es, cs, d))
    return EnumV('Result', d, {0: {0: StructV('()', 'unit', {}, lazy=False)}, 1: {0: Opaque('E', 'err')}})


def sum_val_cfg(eng, st, callee, args):
    cn, cs = _snapshot(eng, args[0])
    d = z3.Int(eng.ex.fresh_name('val_cfg_disc')); eng.ex.assumptions.append(z3.And(d >= 0, d <= 1))
    st.events.append(('val_cfg', cn, cs, d))
    return EnumV('Result', d, {0: {0: StructV('()', 'unit', {}, lazy=False)}, 1: {0: Opaque('E', 'err')}})


def sum_val_curve(eng, st, callee, args):
    cn, cs = _snapshot(eng, args[0])
    d = z3.Int(eng.ex.fresh_name('val_curve_disc')); eng.ex.assumptions.append(z3.And(d >= 0, d <= 1))
    st.events.append(('val_curve', cn, cs, d))
    return EnumV('Result', d, {0: {0: StructV('()', 'unit', {}, lazy=False)}, 1: {0: Opaque('E', 'err')}})


WRITE_PATHS = {
    'configure_bank': r'configure_bank::lending_pool_configure_bank$',
    'configure_bank_emode': r'config_bank_emode::lending_pool_configure_bank_emode$',
    'clone_emode': r'emode_clone::lending_pool_clone_emode$',
    'configure_bank_interest_only': r'configure_bank_lite::lending_pool_configure_bank_interest_only$',
    'configure_bank_limits_only': r'configure_bank_lite::lending_pool_configure_bank_limits_only$',
    'propagate_staked_settings': r'propagate_staked_settings::propagate_staked_settings$',
    'migrate_curve': r'migrate_curve::migrate_curve$',
}
BANK_CFG = STRUCTS['Bank'].index('config'); BANK_EMODE = STRUCTS['Bank'].index('emode')
CFG_IRC = STRUCTS['BankConfig'].index('interest_rate_config')
W_IDX = [STRUCTS['BankConfig'].index(n) for n in ('asset_weight_init', 'asset_weight_maint', 'liability_weight_init', 'liability_weight_maint', 'risk_tier', 'oracle_max_age')]
LW_IDX = [STRUCTS['BankConfig'].index(n) for n in ('liability_weight_init', 'liability_weight_maint')]


def mk_write_path(name):
    def task(world):
        eng = world.engine(opaque=[x for x in WS_OPAQUE if 'validate' not in x], merge=True, max_paths=100000)
        eng.summaries = [(re.compile(r'validate_entries_with_liability_weights$'), sum_val_emode),
                         (re.compile(r'bank_config::<impl[^>]*>::validate$|BankConfigImpl>::validate$'), sum_val_cfg),
                         (re.compile(r'InterestRateConfigImpl>::validate$|interest_rate::<impl[^>]*>::validate$'), sum_val_curve)]
        f = world.fn(WRITE_PATHS[name])
        args = [eng.ex.fresh(ty, 'a%d' % i) for i, (n, ty) in enumerate(f.params)]
        res = eng.run_fn(f, args)
        ob = Ob('C13.d.' + name, f'{name}: whenever weights, curve or e-mode entries of a bank may change, the matching validator ran on exactly the values left behind (same bank, error propagated)',
                [f.name], 'handler mode, bank-mutating callees inlined, validators summarised as snapshotting events; every accepting path', role='unvalidated-write')
        ob.paths = len(res)
        for r, okc in ok_paths(res):
            if ob.witness(eng, r, [okc]) is False: continue
            accts = {}
            for root in r['roots']: accts.update(find_accounts(eng, root))
            E = list(flat_events(r['events']))
            for b, sv in accts.items():
                if 'Bank' not in sv.ty: continue
                lv = []; leaves(eng, sv, '', lv)
                final = {p: ev(x) for p, x in lv}
                replaced = []          # nested structs assigned wholesale from somewhere else (their leaves are not ours)
                def walk(v, pth):
                    if isinstance(v, StructV):
                        if pth and v.lazy and v.name != b + pth and not v.name.startswith(b + pth):
                            replaced.append(pth); return
                        for k, x in v.fields.items():
                            if isinstance(k, int): walk(x, pth + (f'[{k}]' if v.ty.strip().startswith('[') else f'.{k}'))
                walk(sv, '')
                under = lambda p, q: p == q or p.startswith(q + '.') or p.startswith(q + '[')
                def changed(prefixes):
                    out = [z3.BoolVal(True) for q in prefixes for rp in replaced if under(rp, q) or under(q, rp)]
                    for p, cur in final.items():
                        if not any(under(p, q) for q in prefixes): continue
                        init = z3.Int(b + p)
                        if cur.eq(init): continue
                        out.append(cur != init)
                    if not out: return None
                    c = z3.Or(out)
                    s_ = ob._solver(eng, r, [okc, c], 20000); ob.queries += 1
                    return c if s_.check() != z3.unsat else None
                em_p = f'.{BANK_EMODE}'; cfg_p = f'.{BANK_CFG}'
                emc_p = em_p + f'.{STRUCTS["EmodeSettings"].index("emode_config")}'
                ch_em = changed([emc_p])
                ch_lw = changed([f'{cfg_p}.{i}' for i in LW_IDX])
                ch_w = changed([f'{cfg_p}.{i}' for i in W_IDX])
                ch_curve = changed([f'{cfg_p}.{CFG_IRC}'])
                def need(kind, relevant, what, cond):
                    alts = []
                    for e in [x for x in E if x[0] == kind]:
                        if kind == 'val_emode':
                            en, cn, es, cs, d = e[1], e[2], e[3], e[4], e[5]
                            fin_em = sv.fields.get(BANK_EMODE); fin_cfg = sv.fields.get(BANK_CFG)
                            if not (en == (fin_em.name if isinstance(fin_em, StructV) else b + em_p) and cn == (fin_cfg.name if isinstance(fin_cfg, StructV) else b + cfg_p)): continue
                            same = [es[p[len(em_p):]] == final[p] for p in final if under(p, emc_p) and p[len(em_p):] in es and p[len(em_p):] != '__ids'] + \
                                   [cs[p[len(cfg_p):]] == final[p] for p in final if any(under(p, f'{cfg_p}.{i}') for i in LW_IDX) and p[len(cfg_p):] in cs]
                            missing = [p for p in final if under(p, emc_p) and p[len(em_p):] not in es and not final[p].eq(z3.Int(b + p))]
                            fin_ids = {}; struct_ids(eng.get_path(sv, (('f', BANK_EMODE, 'EmodeSettings'),)), '', fin_ids)
                            for rp in replaced:
                                if under(rp, em_p) and es.get('__ids', {}).get(rp[len(em_p):]) != fin_ids.get(rp[len(em_p):]): missing.append(rp)
                        else:
                            cn, cs, d = e[1], e[2], e[3]
                            pre = cfg_p if kind == 'val_cfg' else f'{cfg_p}.{CFG_IRC}'
                            if cn != b + pre: continue
                            same = [cs[p[len(pre):]] == final[p] for p in final if any(under(p, q) for q in relevant) and p[len(pre):] in cs]
                            missing = [p for p in final if any(under(p, q) for q in relevant) and p[len(pre):] not in cs and not final[p].eq(z3.Int(b + p))]
                        if missing: continue
                        alts.append(z3.And([zint(d) == 0] + same))
                    if alts:
                        ob.prove(eng, r, [okc, cond], z3.Or(alts), f'{what}: if they change, a validator call saw the final values and its error is propagated', role='unvalidated-write:' + what)
                        return
                    ob.sat += 1; ob.queries += 1
                    ob.cex.append({'ob': ob.oid, 'label': f'{what} of {b} can change on an accepting path without a {kind} call on that bank covering the final values', 'role': 'unvalidated-write:' + what,
                                   'model': {'handler': name, 'bank_object': b, 'replaced_wholesale': [pretty('Bank', x) for x in replaced]}, 'replay': 'clone_emode' if name == 'clone_emode' else None})
                if ch_em is not None or ch_lw is not None:
                    need('val_emode', [], 'e-mode entries vs liability weights', z3.Or([c for c in (ch_em, ch_lw) if c is not None]))
                if ch_w is not None: need('val_cfg', [f'{cfg_p}.{i}' for i in W_IDX], 'bank weights / risk tier / oracle age', ch_w)
                if ch_curve is not None:
                    has_cfg = any(e[0] == 'val_cfg' and e[1] == b + cfg_p for e in E)
                    if has_cfg: need('val_cfg', [f'{cfg_p}.{CFG_IRC}'], 'interest curve (through BankConfig::validate)', ch_curve)
                    else: need('val_curve', [f'{cfg_p}.{CFG_IRC}'], 'interest curve', ch_curve)
        ob.need_witness()
        return [ob]
    return task


def replay_clone_emode(model, spec=None):
    W_ = W
    src = {'config.liability_weight_init': str(W_ + W_ // 2), 'config.liability_weight_maint': str(W_ + W_ // 4), 'emode.entries': [[7, str(W_ * 95 // 100), str(W_ * 98 // 100)]]}
    dst = {'config.liability_weight_init': str(W_), 'config.liability_weight_maint': str(W_)}
    accts = [{'key': 101, 'owner': 'program', 'kind': 'group', 'fields': {'admin': 1}}, {'key': 102, 'signer': True},
             {'key': 103, 'owner': 'program', 'kind': 'bank', 'fields': {'group': 0, 'set': src}}, {'key': 104, 'owner': 'program', 'writable': True, 'kind': 'bank', 'fields': {'group': 0, 'set': dst}}]
    out = native([{'fn': 'entry', 'ix': 'lending_pool_clone_emode', 'args_hex': '', 'accounts': accts}])[0]
    if not out.get('ok'): return False, {'native': {'ok': False, 'err': out.get('err')}, 'verdict': 'instruction rejected natively (validation present)'}
    d = [a for a in out['accounts'] if a['index'] == 3][0]
    viol = d['emode_entries'] > 0 and not d['emode_valid_for_this_bank']
    return viol, {'destination_emode_entries': d['emode_entries'], 'destination_passes_its_own_validator': d['emode_valid_for_this_bank'],
                  'verdict': 'clone_emode succeeded and left the destination bank with e-mode entries that validate_entries_with_liability_weights rejects for that bank' if viol else 'not reproduced'}


REPLAYERS = {'clone_emode': replay_clone_emode}
_t13 = tasks
def tasks(tier):
    return _t13(tier) + [('write_path:' + n, mk_write_path(n)) for n in WRITE_PATHS]



# ---------------------------------------------------------------- shared with C08.b: the Anchor constraint sets of this property's instructions (signer role, has_one = group, vault / PDA bindings)
_t_shared_structs = tasks
def tasks(tier):
    from specs.C08 import shared_struct_tasks
    return _t_shared_structs(tier) + shared_struct_tasks('C13.g.', ['LendingPoolConfigureBank', 'LendingPoolConfigureBankEmode', 'LendingPoolCloneEmode', 'MarginfiGroupConfigure', 'PropagateStakedSettings', 'EditStakedSettings'])



# ---------------------------------------------------------------- C13.e: the killed-by-bankruptcy state is terminal on BOTH configuration paths (shared with C07.e)
def t_killed_terminal(world):
    import specs.C07 as C07
    a = C07.t_configure_terminal(world); a[0].oid = 'C13.e.configure'
    b = C07.t_configure_frozen_terminal(world, 'C13.e.frozen')
    return a + b


_t_kt = tasks
def tasks(tier):
    return _t_kt(tier) + [('killed_terminal', t_killed_terminal)]
from specs.C07 import replay_configure as _rc13
REPLAYERS['configure'] = _rc13


# ---------------------------------------------------------------- C13.d (initialisers): a new bank's configuration is validated before the instruction can succeed
ADD_BANK = {
    'add_bank': (r'marginfi_group::add_pool::lending_pool_add_bank$', False), 'add_bank_with_seed': (r'add_pool_with_seed::lending_pool_add_bank_with_seed$', False),
    'add_bank_permissionless': (r'add_pool_permissionless::lending_pool_add_bank_permissionless$', True), 'add_bank_kamino': (r'kamino::add_pool::lending_pool_add_bank_kamino$', True),
    'add_bank_drift': (r'drift::add_pool::lending_pool_add_bank_drift$', True), 'add_bank_solend': (r'solend::add_pool::lending_pool_add_bank_solend$', True),
}


def mk_add_bank(name):
    def t(world):
        from specs.handlers import run_handler, short
        from specs.flows import cellname
        fnre, oracle = ADD_BANK[name]
        ob = Ob('C13.d.' + name, f'{name}: Ok => the bank written by Bank::new was passed through BankConfig::validate' + (' and validate_oracle_setup' if oracle else '') +
                ' AFTER it was written, on that same bank object, and the validator\'s error is propagated (lending_pool_clone_bank is staging-only: it panics under the mainnet program id)',
                [], 'handler mode; Bank::new / validators opaque (C13.a decides validate); every accepting path', role='unvalidated-write')
        try:
            eng, f, args, res = run_handler(world, fnre, extra_opaque=[r'Bank[^:]*::new$', r'<impl[^>]*>::new$', r'log_pool_info', r'add_bank$', r'transfer_flat_fee', r'make_points'])
        except Exception as ex:
            ob.fail('encoder failed: ' + repr(ex)[:200]); return [ob]
        ob.functions.append(f.name); ob.paths = len(res)
        for r, okc in ok_paths(res):
            if ob.witness(eng, r, [okc]) is False: continue
            E = [e for e in flat_events(r['events']) if e[0] == 'call']
            li = [i for i, e in enumerate(E) if re.search(r'AccountLoader.*load_init$', e[1])]
            nw = [i for i, e in enumerate(E) if re.search(r'Bank[^:]*::new$|<impl[^>]*>::new$', e[1]) and 'Bank' in short(e[1])]
            if len(li) != 1 or len(nw) != 1: ob.shape(min(len(li), len(nw)), 1, f'{len(li)} load_init / {len(nw)} Bank::new calls on an accepting path', 'init-shape', {'trace': [short(e[1]) for e in E][:40]}); continue
            bank = f'{E[li[0]][2][0]}.acct'
            def need(pat, what):
                c = [(i, e) for i, e in enumerate(E) if re.search(pat, e[1]) and i > nw[0] and cellname(e[2][0]) == bank]
                if not c:
                    ob.structural(f'no {what} on the new bank after it is written', 'unvalidated-write:' + what, {'trace': [short(e[1]) for e in E][:40]}); return
                ob.prove(eng, r, [okc], zint(c[-1][1][3].disc) == 0, f'{what}: rejection is propagated', role='unvalidated-write:' + what)
            need(r'BankConfig[^:]*>::validate$|bank_config::<impl[^>]*>::validate$', 'BankConfig::validate')
            if oracle: need(r'::validate_oracle_setup$', 'validate_oracle_setup')
        ob.need_witness()
        return [ob]
    return t


_t13add = tasks
def tasks(tier):
    return _t13add(tier) + [('init:' + n, mk_add_bank(n)) for n in ADD_BANK]


# ---------------------------------------------------------------- C13.h: the group configuration instruction (leverage caps every e-mode entry is later measured against; and who gets which admin role)
def t_group_configure(world, oid='C13.h'):
    from specs.handlers import run_handler
    from specs.C12 import find_accounts
    eng, f, args, res = run_handler(world, r'marginfi_group::configure::configure$', kernels=[], merge=True, max_paths=20000)
    ob = Ob(oid, 'marginfi_group configure: Ok => 1 <= initial cap < maintenance cap <= 100 (defaults 15 / 20 when omitted), the stored u32 caps are the exact images of those values, '
            'and each of the seven admin fields receives the argument of the same name (no role is handed to another role\'s key); group flags and bank count untouched',
            [f.name], 'handler mode, everything inlined (update_* helpers, basis_to_u32 from the type crate); all Option combinations, state-merged'); ob.paths = len(res)
    roles = ['admin', 'emode_admin', 'delegate_curve_admin', 'delegate_limit_admin', 'delegate_emissions_admin', 'metadata_admin', 'risk_admin']      # argument order of the instruction
    U32M = 2**32 - 1
    def b2u(x):
        cl = z3.If(x > 100 * W, 100 * W, z3.If(x < 0, 0, x))
        ratio = (cl * W) / (100 * W)
        return ((ratio * (U32M * W)) / W) / W
    for r, okc in ok_paths(res):
        if ob.witness(eng, r, [okc]) is False: continue
        accts = {}
        for root in r['roots']: accts.update(find_accounts(eng, root))
        g = [c for c, sv in accts.items() if 'MarginfiGroup' in sv.ty]
        if len(g) != 1: ob.fail(f'group objects {g}'); continue
        G = accts[g[0]]; cur = lambda n: ev(fget(eng, G, 'MarginfiGroup', n))
        ob.prove(eng, r, [okc], z3.And([cur(n) == args[i + 1].e for i, n in enumerate(roles)]), 'each admin field == the argument of the same name', role='admin-roles')
        def optv(a, default):
            d = zint(a.disc); v = ev(a.payload[1][0]) if 1 in a.payload and 0 in a.payload[1] else z3.IntVal(default)
            return z3.If(d == 1, v, default)
        I = optv(args[8], 15 * W); M = optv(args[9], 20 * W)
        ob.prove(eng, r, [okc], z3.And(I >= W, I < M, M <= 100 * W), 'accepted caps: 1 <= initial < maintenance <= 100', role='cap-order')
        ob.prove(eng, r, [okc], z3.And(cur('emode_max_init_leverage') == b2u(I), cur('emode_max_maint_leverage') == b2u(M)), 'stored caps are the exact u32 images (scale 0..100) of the accepted values', role='cap-stored')
        ob.prove(eng, r, [okc], z3.And(cur('group_flags') == fsym(g[0], 'MarginfiGroup', 'group_flags'), cur('banks') == fsym(g[0], 'MarginfiGroup', 'banks')), 'flags and bank count untouched', role='group-frame')
    ob.need_witness()
    return [ob]


_t_gc = tasks
def tasks(tier):
    return _t_gc(tier) + [('group_configure', t_group_configure)]
