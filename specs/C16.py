from mirsym.harness import *
from specs.wrappers import *
WORLD = ('marginfi', 'typecrate', 'drift')
REPLAYERS = {'wrapper': replay_wrapper}
ASSUMPTIONS = ['inductive step from an arbitrary pre-state: share values > 0, shares >= 0, position shares <= bank totals',
               'rounding allowance per operation: (asset share value + liability share value)/2^48 + 4 ulps of I80F48 (2^-48 native units)']


def tasks(tier):
    n = 40 if tier == 'quick' else 1000
    from specs.flows import flow_task, FLOWS
    return [(f'{op}', wrapper_task(op, 'C16', n)) for op in OPS if goals_for(op, OpPre, ('C16',))] + [(f'flow:{x}', flow_task(x, ('C16',))) for x in FLOWS]
