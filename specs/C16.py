from mirsym.harness import *
from specs.wrappers import *
WORLD = ('marginfi', 'typecrate', 'drift')
REPLAYERS = {'wrapper': replay_wrapper}
ASSUMPTIONS = ['inductive step from an arbitrary pre-state: share values > 0, shares >= 0, position shares <= bank totals',
               'rounding allowance per operation: (asset share value + liability share value)/2^48 + 4 ulps of I80F48 (2^-48 native units)']


def tasks(tier):
    n = 40 if tier == 'quick' else 1000
    from specs.flows import flow_task, FLOWS
    return [(f'{op}', wrapper_task(op, 'C16', n)) for op in OPS if goals_for(op, OpPre, ('C16',))] + [(f'flow:{x}', flow_task(x, ('C16',))) for x in FLOWS]


# ---------------------------------------------------------------- C16.b: sort_balances sorts the WHOLE array, descending by bank key
import z3
from mirsym.harness import *


def t_sort(world):
    eng = world.engine(opaque=[r'sort_by', r'sort_unstable_by', r'sort_by_key'])
    f = world.fn(r'marginfi_account\.rs[^>]*>::sort_balances$')
    la = eng.ex.fresh(f.params[0][1], 'la')
    res = eng.run_fn(f, [la])
    ob = Ob('C16.b', 'sort_balances: the standard sort is applied to the whole 16-slot array with the comparator cmp(b.bank_pk, a.bank_pk) (descending; inactive slots carry the default key and sink to the end)',
            [f.name], 'loop-free; slice::sort_by itself is trusted std code; comparator executed from its MIR on two symbolic slots'); ob.paths = len(res)
    n = 0
    for r in returned(res):
        n += 1
        ob.queries += 1; ob.witness_sat += 1
        sc = [e for e in flat_events(r['events']) if e[0] == 'call' and re.search(r'sort_by|sort_unstable_by', e[1])]
        if len(sc) != 1: ob.fail(f'{len(sc)} sort calls'); continue
        ref = sc[0][2][0]; tgt = eng.deref_val(ref)
        bi = STRUCTS['LendingAccount'].index('balances')
        whole = isinstance(ref, RefV) and ref.cell is r['roots'][0].cell and len(ref.path) == 1 and ref.path[0][0] == 'f' and ref.path[0][1] == bi and re.search(r'; 16\]$', ref.path[0][2].strip())
        ob.queries += 1
        if whole: ob.unsat += 1
        else:
            ob.sat += 1; ob.cex.append({'ob': ob.oid, 'label': 'the sort is not applied to the complete balances array (a sub-slice or another object is sorted)', 'role': 'sort-range',
                                       'model': {'sorted_object': getattr(tgt, 'name', str(tgt))[:80], 'type': getattr(tgt, 'ty', '?')}, 'replay': None})
        cf = eng.closure_fn(sc[0][1])
        if cf is None:
            cands = [x for x in world.fns(r'sort_balances::\{closure#\d+\}$') if len(x.params) == 3]
            cf = cands[0] if len(cands) == 1 else None
        if cf is None: ob.fail('comparator closure not found'); continue
        ob.functions.append(cf.name)
        e2 = world.engine()
        a = e2.ex.fresh('&Balance', 'sa'); b = e2.ex.fresh('&Balance', 'sb')
        env = RefV(Cell(StructV('closure', 'env', {}, lazy=False)))
        cres = e2.run_fn(cf, [env, a, b])
        ka = fsym('sa*', 'Balance', 'bank_pk'); kb = fsym('sb*', 'Balance', 'bank_pk')
        for cr in returned(cres):
            o = cr['ret']
            ob.prove(e2, cr, [], zint(o.disc) == z3.If(kb < ka, -1, z3.If(kb == ka, 0, 1)), 'comparator(a, b) == cmp(b.bank_pk, a.bank_pk): descending by bank key', role='sort-order')
    ob.need_witness()
    return [ob]


_t16 = tasks
def tasks(tier):
    return _t16(tier) + [('sort', t_sort)]


# ---------------------------------------------------------------- C16.a: find_or_create / find on all 16 symbolic slots
def t_find_or_create(world):
    import z3
    eng = world.engine(max_paths=50000)
    f = world.fn(r'marginfi_account\.rs[^>]*>::find_or_create$')
    args = [eng.ex.fresh(ty, n) for n, (_, ty) in zip(['key', 'bank', 'la'], f.params)]
    res = eng.run_fn(f, args)
    ob = Ob('C16.a.find_or_create', 'find_or_create(bank): returns the FIRST active slot holding that bank if one exists (nothing changes); otherwise initialises the FIRST inactive slot as an empty position of that bank '
            '(active, key, the bank\'s asset tag, zero shares/emissions) and changes no other slot; a new integration position only while fewer than 8 active integration positions (Kamino+Drift+Solend together) exist; '
            'so it never creates a second position for a bank', [f.name], 'all 16 slots symbolic (iterator models, closures from MIR); every path')
    ob.paths = len(res)
    BI = STRUCTS['Balance']; LI = STRUCTS['LendingAccount'].index('balances')
    def s0(k, fld): return z3.Int(f'la*.{LI}[{k}].{BI.index(fld)}')
    key = ev(eng.deref_val(args[0]))
    tag_bank = fsym('bank*', 'Bank', 'config.asset_tag')
    integ = lambda t: z3.Or(t == 3, t == 4, t == 5)
    held0 = lambda j: z3.And(s0(j, 'active') != 0, s0(j, 'bank_pk') == key)
    FLD = ['active', 'bank_pk', 'bank_asset_tag', 'asset_shares', 'liability_shares', 'emissions_outstanding', 'last_update']
    n_ok = 0
    for r, okc in ok_paths(res):
        if ob.witness(eng, r, [okc]) is False: continue
        n_ok += 1
        wrap = r['ret'].payload[0][0]
        bref = wrap.fields.get(0)
        la = eng.deref_val(r['roots'][2])
        idx = [st[1] for st in bref.path if st[0] == 'i'] if isinstance(bref, RefV) else []
        if not idx and isinstance(bref, RefV):      # a reference to the slot's own cell: identify the slot by object identity
            tgt = eng.deref_val(bref)
            idx = [j for j in range(16) if eng.get_path(la, (('f', LI, '[Balance; 16]'), ('i', j))) is tgt]
        if len(idx) != 1: ob.fail(f'cannot identify the returned slot: {bref}'); continue
        k = idx[0]
        def s1(j, fld): return ev(fget(eng, eng.get_path(la, (('f', LI, '[Balance; 16]'), ('i', j))), 'Balance', fld))
        unchanged = lambda js: z3.And([s1(j, fl) == s0(j, fl) for j in js for fl in FLD])
        existing = z3.And(held0(k), z3.And([z3.Not(held0(j)) for j in range(k)] + [z3.BoolVal(True)]), unchanged(range(16)))
        count0 = z3.Sum([z3.If(z3.And(s0(j, 'active') != 0, integ(s0(j, 'bank_asset_tag'))), 1, 0) for j in range(16)])
        created = z3.And(z3.And([z3.Not(held0(j)) for j in range(16)]), s0(k, 'active') == 0, z3.And([s0(j, 'active') != 0 for j in range(k)] + [z3.BoolVal(True)]),
                         s1(k, 'active') == 1, s1(k, 'bank_pk') == key, s1(k, 'bank_asset_tag') == tag_bank, s1(k, 'asset_shares') == 0, s1(k, 'liability_shares') == 0, s1(k, 'emissions_outstanding') == 0,
                         unchanged([j for j in range(16) if j != k]), z3.Implies(integ(tag_bank), count0 < 8))
        ob.prove(eng, r, [okc], z3.Or(existing, created), f'slot {k}: either the first existing position of the bank (account untouched) or a freshly initialised first free slot under the integration cap', role='find-or-create')
        ob.prove(eng, r, [okc], z3.And(s1(k, 'active') != 0, s1(k, 'bank_pk') == key), f'slot {k}: returned position is active and belongs to the requested bank', role='find-or-create-key')
    ob.notes.append(f'{n_ok} accepting paths')
    ob.need_witness()
    # find: never creates, returns the first active slot of the bank
    eng2 = world.engine(max_paths=20000)
    f2 = world.fn(r'marginfi_account\.rs[^>]*>::find$', pred=lambda f_: len(f_.params) == 3 and 'LendingAccount' in f_.params[2][1])
    a2 = [eng2.ex.fresh(ty, n) for n, (_, ty) in zip(['key', 'bank', 'la'], f2.params)]
    res2 = eng2.run_fn(f2, a2)
    ob2 = Ob('C16.a.find', 'find(bank): Ok only for the first active slot holding that bank; the account is not modified', [f2.name], 'all 16 slots symbolic'); ob2.paths = len(res2)
    key2 = ev(eng2.deref_val(a2[0]))
    for r, okc in ok_paths(res2):
        if ob2.witness(eng2, r, [okc]) is False: continue
        bref = r['ret'].payload[0][0].fields.get(0)
        idx = [st[1] for st in bref.path if st[0] == 'i'] if isinstance(bref, RefV) else []
        if len(idx) != 1: ob2.fail('cannot identify the returned slot'); continue
        k = idx[0]
        la = eng2.deref_val(r['roots'][2])
        def t1(j, fld): return ev(fget(eng2, eng2.get_path(la, (('f', LI, '[Balance; 16]'), ('i', j))), 'Balance', fld))
        ob2.prove(eng2, r, [okc], z3.And([z3.And(s0(k, 'active') != 0, s0(k, 'bank_pk') == key2)] + [z3.Not(z3.And(s0(j, 'active') != 0, s0(j, 'bank_pk') == key2)) for j in range(k)] +
                                         [t1(j, fl) == s0(j, fl) for j in range(16) for fl in FLD]), f'slot {k}: first active slot of the bank; nothing written', role='find')
    ob2.need_witness()
    return [ob, ob2]


_t16a = tasks
def tasks(tier):
    return _t16a(tier) + [('find_or_create', t_find_or_create)]


def kani(tier):
    if tier != 'thorough': return []
    return [dict(harness='tags_16', oid='C16.k', covers=2, stubs=5, desc='SECOND ENGINE (Kani/CBMC on the compiled code): validate_asset_tags over 16 symbolic slots rejects exactly when a staked position would be mixed with a default-class one (SOL mixes with both)',
                 functions=['marginfi::utils::validate_asset_tags'], bounds='16 slots, active bits and tags (0..=5) symbolic; unwind 34')]



# ---------------------------------------------------------------- shared with C08.b: the Anchor constraint sets of this property's instructions (signer role, has_one = group, vault / PDA bindings)
_t_shared_structs = tasks
def tasks(tier):
    from specs.C08 import shared_struct_tasks
    return _t_shared_structs(tier) + shared_struct_tasks('C16.i.', ['MarginfiAccountClose', 'TransferToNewAccount', 'TransferToNewAccountPda', 'LendingAccountCloseBalance'])


# ---------------------------------------------------------------- C16.d: asset-tag compatibility over all 16 slots (quick-tier twin of the Kani harness C16.k), and the bank/bank variant
DEFAULT_LIKE = (0, 3, 4, 5); STAKED = 2


def _tag_consts(eng, ob):
    want = {'ASSET_TAG_DEFAULT': 0, 'ASSET_TAG_SOL': 1, 'ASSET_TAG_STAKED': 2, 'ASSET_TAG_KAMINO': 3, 'ASSET_TAG_DRIFT': 4, 'ASSET_TAG_SOLEND': 5}
    for n, v in want.items():
        c = eng.const_val(None, 'marginfi_type_crate::constants::' + n)
        if not isinstance(c, IntV) or not z3.is_int_value(z3.simplify(c.e)) or z3.simplify(c.e).as_long() != v:
            ob.fail(f'{n} is not {v} in the type crate MIR'); return False
    return True


def t_asset_tags(world):
    import z3
    eng = world.engine(merge=True)
    f = world.fn(r'general::validate_asset_tags$')
    bank = eng.ex.fresh(f.params[0][1], 'bank'); acct = eng.ex.fresh(f.params[1][1], 'acct')
    res = eng.run_fn(f, [bank, acct])
    ob = Ob('C16.d.validate_asset_tags', 'validate_asset_tags over 16 symbolic slots: rejected iff (bank is default-like and an active position is staked) or (bank is staked and an active position is default-like); '
            'SOL mixes with everything; a tag outside 0..=5 on an active slot panics (fail closed) and nothing else does',
            [f.name], '16 slots unrolled, state-merged; all u8 tags and active bytes'); ob.paths = len(res)
    if not _tag_consts(eng, ob): return [ob]
    BAL = STRUCTS['Balance']; li = STRUCTS['MarginfiAccount'].index('lending_account'); bi = STRUCTS['LendingAccount'].index('balances')
    act = [z3.Int(f'acct*.{li}.{bi}[{i}].{BAL.index("active")}') for i in range(16)]
    tag = [z3.Int(f'acct*.{li}.{bi}[{i}].{BAL.index("bank_asset_tag")}') for i in range(16)]
    btag = fsym('bank*', 'Bank', 'config.asset_tag')
    dl = lambda t: z3.Or([t == k for k in DEFAULT_LIKE])
    has_default = z3.Or([z3.And(act[i] != 0, dl(tag[i])) for i in range(16)])
    has_staked = z3.Or([z3.And(act[i] != 0, tag[i] == STAKED) for i in range(16)])
    reject = z3.Or(z3.And(dl(btag), has_staked), z3.And(btag == STAKED, has_default))
    valid = z3.And([z3.Or(act[i] == 0, z3.And(tag[i] >= 0, tag[i] <= 5)) for i in range(16)])
    nret = 0
    for r in res:
        if r['status'] == 'return':
            nret += 1
            if ob.witness(eng, r, []) is False: continue
            ob.prove(eng, r, [], zint(r['ret'].disc) == z3.If(reject, 1, 0), 'Err(AssetTagMismatch) iff the reference predicate rejects', role='tag-mix')
            ob.prove(eng, r, [], valid, 'returns only when every active slot carries a known tag', role='tag-unknown')
        else:
            ob.prove(eng, r, [], z3.Not(valid), 'a panic is reachable only with an unknown tag on an active slot (fail closed)', role='tag-panic')
    if nret == 0: ob.fail('no returning path')
    ob.need_witness()
    # bank / bank variant
    eng2 = world.engine(merge=True)
    f2 = world.fn(r'general::validate_bank_asset_tags$')
    a = eng2.ex.fresh(f2.params[0][1], 'ba'); b = eng2.ex.fresh(f2.params[1][1], 'bb')
    res2 = eng2.run_fn(f2, [a, b])
    ob2 = Ob('C16.d.validate_bank_asset_tags', 'validate_bank_asset_tags: rejected iff one bank is default-like and the other staked', [f2.name], 'loop-free; all u8 tags'); ob2.paths = len(res2)
    ta = fsym('ba*', 'Bank', 'config.asset_tag'); tb = fsym('bb*', 'Bank', 'config.asset_tag')
    rej2 = z3.Or(z3.And(dl(ta), tb == STAKED), z3.And(ta == STAKED, dl(tb)))
    for r in returned(res2):
        if ob2.witness(eng2, r, []) is False: continue
        ob2.prove(eng2, r, [], zint(r['ret'].disc) == z3.If(rej2, 1, 0), 'Err iff default-like meets staked', role='tag-mix-banks')
    ob2.need_witness()
    return [ob, ob2]


_t16d = tasks
def tasks(tier):
    return _t16d(tier) + [('asset_tags', t_asset_tags)]


# ---------------------------------------------------------------- C16.e: an account can be closed only when it is empty and under nobody's control
def t_can_be_closed(world):
    import z3
    eng = world.engine(merge=True)
    f = world.fn(r'marginfi_account\.rs[^>]*>::can_be_closed$')
    a = eng.ex.fresh(f.params[0][1], 'acct')
    res = eng.run_fn(f, [a])
    ob = Ob('C16.e.can_be_closed', 'can_be_closed == (not disabled, not in a flash loan, not in receivership, and every one of the 16 slots holds < 1 share on both sides)',
            [f.name], '16 slots unrolled (closure executed from its MIR), state-merged; all flag words; all share values'); ob.paths = len(res)
    BAL = STRUCTS['Balance']; li = STRUCTS['MarginfiAccount'].index('lending_account'); bi = STRUCTS['LendingAccount'].index('balances')
    ash = [z3.Int(f'acct*.{li}.{bi}[{i}].{BAL.index("asset_shares")}') for i in range(16)]
    lsh = [z3.Int(f'acct*.{li}.{bi}[{i}].{BAL.index("liability_shares")}') for i in range(16)]
    flags = fsym('acct*', 'MarginfiAccount', 'account_flags')
    bit = lambda k: (flags / k) % 2 == 1
    empty = z3.And([z3.And(ash[i] < EMPTY, lsh[i] < EMPTY) for i in range(16)])
    ref = z3.And(z3.Not(bit(1)), z3.Not(bit(2)), z3.Not(bit(16)), empty)
    sane = z3.And([z3.Or(ash[i] < EMPTY, lsh[i] < EMPTY) for i in range(16)])      # a slot with >= 1 share on both sides trips get_side's assertion (panic: fail closed)
    nret = 0
    for r in returned(res):
        nret += 1
        if ob.witness(eng, r, [sane]) is False: continue
        ob.prove(eng, r, [sane], r['ret'].e == ref, 'equals the reference predicate', role='closable')
    if nret == 0: ob.fail('no returning path')
    ob.need_witness()
    # the handler: frozen accounts refused, can_be_closed required
    from specs.handlers import run_handler, KERNELS
    eng2, f2, args2, res2 = run_handler(world, r'close::close_account$', extra_opaque=[r'can_be_closed$'])
    ob2 = Ob('C16.e.close_account', 'close_account: Ok => the account is not frozen and can_be_closed() returned true', [f2.name], 'handler mode; every accepting path'); ob2.paths = len(res2)
    for r, okc in ok_paths(res2):
        if ob2.witness(eng2, r, [okc]) is False: continue
        cs = [e for e in flat_events(r['events']) if e[0] == 'call' and re.search(r'can_be_closed$', e[1])]
        if len(cs) != 1: ob2.shape(len(cs), 1, f'{len(cs)} can_be_closed calls on an accepting path', 'closable-check'); continue
        ob2.prove(eng2, r, [okc], ev(cs[0][3]), 'can_be_closed() was true', role='closable-check')
        loads = [e for e in flat_events(r['events']) if e[0] == 'call' and 'AccountLoader' in e[1] and 'MarginfiAccount' in e[1]]
        if not loads: ob2.fail('no account load'); continue
        fl = z3.Int(f'{loads[0][2][0]}.acct.{STRUCTS["MarginfiAccount"].index("account_flags")}')
        ob2.prove(eng2, r, [okc], (fl / 64) % 2 == 0, 'frozen accounts cannot be closed by their authority', role='close-frozen')
    ob2.need_witness()
    return [ob, ob2]


_t16e = tasks
def tasks(tier):
    return _t16e(tier) + [('can_be_closed', t_can_be_closed)]



# ---------------------------------------------------------------- shared with C04.i: how the risk engine pairs positions with the bank / oracle accounts it is handed (a substituted or shifted account is rejected)
def t_load_pairing_shared(world):
    import specs.C04 as C04
    return C04.t_load_pairing(world, 'C16.j')


_t_lps = tasks
def tasks(tier):
    return _t_lps(tier) + [('load_pairing', t_load_pairing_shared)]


# ---------------------------------------------------------------- C16.g: account migration - who may migrate, and what the two accounts look like afterwards (positions themselves: C02.f)
def mk_migration(which):
    def t(world):
        import z3
        from specs.handlers import run_handler, KERNELS
        from specs.C12 import find_accounts
        fnre = r'transfer_account::transfer_to_new_account$' if which == 'keypair' else r'transfer_account::transfer_to_new_account_pda$'
        sname = 'TransferToNewAccount' if which == 'keypair' else 'TransferToNewAccountPda'
        eng, f, args, res = run_handler(world, fnre, kernels=[k for k in KERNELS if k not in (r'set_flag$',)],
                                        extra_opaque=[r'system_program::transfer$', r'transfer_fee$', r'is_allowed_cpi_for_third_party_id$'])
        ob = Ob(f'C16.g.{which}', f'transfer_to_new_account ({which}): refused while the old account is in a flash loan or in receivership or was already migrated; afterwards old.migrated_to = the new account\'s key, '
                'the new account belongs to the same group, carries the old flags, records where it came from, and its authority is the key named as new authority',
                [f.name], 'handler mode; system-program transfer opaque; MarginfiAccount::initialize inlined; every accepting path'); ob.paths = len(res)
        names = STRUCTS[sname]
        for r, okc in ok_paths(res):
            if ob.witness(eng, r, [okc]) is False: continue
            accts = {}
            for root in r['roots']: accts.update(find_accounts(eng, root))
            ma = {c: sv for c, sv in accts.items() if 'MarginfiAccount' in sv.ty}
            oi, ni = names.index('old_marginfi_account'), names.index('new_marginfi_account')
            old = [c for c in ma if c.startswith(f'a0.1*.{oi}.')]; new = [c for c in ma if c.startswith(f'a0.1*.{ni}.')]
            if len(old) != 1 or len(new) != 1: ob.fail(f'accounts: {list(ma)}'); continue
            O, N = old[0], new[0]
            f0 = fsym(O, 'MarginfiAccount', 'account_flags')
            ob.prove(eng, r, [okc], z3.And((f0 / 2) % 2 == 0, (f0 / 16) % 2 == 0, fsym(O, 'MarginfiAccount', 'migrated_to') == 0),
                     'refused in a flash loan, in receivership, or when already migrated', role='migration-gate')
            cur = lambda a, n: ev(fget(eng, accts[a], 'MarginfiAccount', n))
            K = lambda n: z3.Int(f'a0.1*.{names.index(n)}.key')
            ob.prove(eng, r, [okc], z3.And(cur(O, 'migrated_to') == K('new_marginfi_account'), cur(N, 'migrated_from') == K('old_marginfi_account'), cur(N, 'group') == fsym(O, 'MarginfiAccount', 'group'),
                                           cur(N, 'account_flags') == f0, cur(N, 'authority') == K('new_authority'),
                                           cur(N, 'emissions_destination_account') == fsym(O, 'MarginfiAccount', 'emissions_destination_account')),
                     'old -> new links, same group, flags and emissions destination carried over, authority = the named new authority', role='migration-links')
        ob.need_witness()
        return [ob]
    return t


_t16g = tasks
def tasks(tier):
    return _t16g(tier) + [('migration_keypair', mk_migration('keypair')), ('migration_pda', mk_migration('pda'))]
