from mirsym.harness import *
from specs.wrappers import *
WORLD = ('marginfi', 'typecrate', 'drift')
REPLAYERS = {'wrapper': replay_wrapper}
ASSUMPTIONS = ['inductive step from an arbitrary pre-state: share values > 0, shares >= 0, position shares <= bank totals',
               'rounding allowance per operation: (asset share value + liability share value)/2^48 + 4 ulps of I80F48 (2^-48 native units)']


def tasks(tier):
    n = 40 if tier == 'quick' else 1000
    from specs.flows import flow_task, FLOWS
    return [(f'{op}', wrapper_task(op, 'C16', n)) for op in OPS if goals_for(op, OpPre, ('C16',))] + [(f'flow:{x}', flow_task(x, ('C16',))) for x in FLOWS]


# ---------------------------------------------------------------- C16.b: sort_balances sorts the WHOLE array, descending by bank key
import z3
from mirsym.harness import *


def t_sort(world):
    eng = world.engine(opaque=[r'sort_by', r'sort_unstable_by', r'sort_by_key'])
    f = world.fn(r'marginfi_account\.rs[^>]*>::sort_balances$')
    la = eng.ex.fresh(f.params[0][1], 'la')
    res = eng.run_fn(f, [la])
    ob = Ob('C16.b', 'sort_balances: the standard sort is applied to the whole 16-slot array with the comparator cmp(b.bank_pk, a.bank_pk) (descending; inactive slots carry the default key and sink to the end)',
            [f.name], 'loop-free; slice::sort_by itself is trusted std code; comparator executed from its MIR on two symbolic slots'); ob.paths = len(res)
    n = 0
    for r in returned(res):
        n += 1
        ob.queries += 1; ob.witness_sat += 1
        sc = [e for e in flat_events(r['events']) if e[0] == 'call' and re.search(r'sort_by|sort_unstable_by', e[1])]
        if len(sc) != 1: ob.fail(f'{len(sc)} sort calls'); continue
        ref = sc[0][2][0]; tgt = eng.deref_val(ref)
        bi = STRUCTS['LendingAccount'].index('balances')
        whole = isinstance(ref, RefV) and ref.cell is r['roots'][0].cell and len(ref.path) == 1 and ref.path[0][0] == 'f' and ref.path[0][1] == bi and re.search(r'; 16\]$', ref.path[0][2].strip())
        ob.queries += 1
        if whole: ob.unsat += 1
        else:
            ob.sat += 1; ob.cex.append({'ob': ob.oid, 'label': 'the sort is not applied to the complete balances array (a sub-slice or another object is sorted)', 'role': 'sort-range',
                                       'model': {'sorted_object': getattr(tgt, 'name', str(tgt))[:80], 'type': getattr(tgt, 'ty', '?')}, 'replay': None})
        cf = eng.closure_fn(sc[0][1])
        if cf is None:
            cands = [x for x in world.fns(r'sort_balances::\{closure#\d+\}$') if len(x.params) == 3]
            cf = cands[0] if len(cands) == 1 else None
        if cf is None: ob.fail('comparator closure not found'); continue
        ob.functions.append(cf.name)
        e2 = world.engine()
        a = e2.ex.fresh('&Balance', 'sa'); b = e2.ex.fresh('&Balance', 'sb')
        env = RefV(Cell(StructV('closure', 'env', {}, lazy=False)))
        cres = e2.run_fn(cf, [env, a, b])
        ka = fsym('sa*', 'Balance', 'bank_pk'); kb = fsym('sb*', 'Balance', 'bank_pk')
        for cr in returned(cres):
            o = cr['ret']
            ob.prove(e2, cr, [], zint(o.disc) == z3.If(kb < ka, -1, z3.If(kb == ka, 0, 1)), 'comparator(a, b) == cmp(b.bank_pk, a.bank_pk): descending by bank key', role='sort-order')
    ob.need_witness()
    return [ob]


_t16 = tasks
def tasks(tier):
    return _t16(tier) + [('sort', t_sort)]
