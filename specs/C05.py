"""C05 — Liquidation is possible only when unhealthy, improves health, and is bounded."""
import z3
from mirsym.harness import *
import mirsym.engine as E
from specs.handlers import *
from specs.flows import SUMMARIES, cellname

WORLD = ('marginfi', 'typecrate', 'drift')
ASSUMPTIONS = ['health components (sums over positions) are opaque here and decided in C04; prices are arbitrary positive I80F48 values returned by the oracle layer (C09)',
               'position lists up to 16 entries (the account capacity) for the liability-bank lookup',
               'fee arithmetic: amounts < 2^64 native units, prices in (0, 2^40), decimals 0..=18 enumerated at 0, 6, 9']
F_FLASH = 2
EMPTY = W
bit = lambda f, b: (f / b) % 2 == 1


def t_pre_post(world):
    obs = []
    E.LIST_K = 16
    RT = ENUMS['RiskRequirementType']
    for name, fre in (('pre', r'::check_pre_liquidation_condition_and_get_account_health$'), ('post', r'::check_post_liquidation_condition_and_get_account_health$')):
        eng = world.engine(opaque=[r'get_account_health_components$', r'set_healthy$'], max_paths=100000)
        f = world.fn(fre)
        args = [eng.ex.fresh(ty, 'a%d' % i) for i, (n, ty) in enumerate(f.params)]
        res = eng.run_fn(f, args)
        ob = Ob('C05.' + ('a' if name == 'pre' else 'b'),
                ('pre-liquidation check: Ok (ignore_healthy=false) => not in flash loan, the named bank position exists with a non-empty debt and an empty deposit, maintenance health <= 0'
                 if name == 'pre' else 'post-liquidation check: Ok => debt in the named bank still non-empty, its deposit side empty, maintenance health <= 0 and strictly better than before'),
                [f.name], 'position list <= 16 (find unrolled, closure executed from MIR); components opaque'); ob.paths = len(res)
        fl = z3.Int('a0*.0*.%d' % STRUCTS['MarginfiAccount'].index('account_flags'))
        for r, okc in ok_paths(res):
            h = [okc] + ([z3.Not(args[3].e)] if name == 'pre' else [])
            if ob.witness(eng, r, h) is False: continue
            comp = calls(r, r'get_account_health_components$')
            if len(comp) != 1: ob.fail('health components not computed exactly once'); continue
            t2 = comp[0][3].payload[0][0]
            a_ = ev(eng.get_path(t2, (('f', 0, I80),))); l_ = ev(eng.get_path(t2, (('f', 1, I80),)))
            ob.prove(eng, r, h, z3.And(zint(comp[0][3].disc) == 0, zint(comp[0][2][1].disc) == RT['Maintenance']), 'maintenance requirement used, component errors propagated')
            ob.prove(eng, r, h, z3.Not(bit(fl, F_FLASH)), 'not in flash loan')
            ob.prove(eng, r, h, a_ - l_ <= 0, 'maintenance health (assets - liabilities) <= 0')
            if name == 'pre':
                out = r['ret'].payload[0][0]
                ob.prove(eng, r, h, z3.And(ev(eng.get_path(out, (('f', 0, I80),))) == a_ - l_, ev(eng.get_path(out, (('f', 1, I80),))) == a_, ev(eng.get_path(out, (('f', 2, I80),))) == l_), 'returns (health, assets, liabilities) as computed')
                some_bank = zint(args[1].disc) == 1
            else:
                ob.prove(eng, r, h, z3.And(r['ret'].payload[0][0].e == a_ - l_, a_ - l_ > args[2].e), 'health strictly better than the pre-liquidation health')
                some_bank = z3.BoolVal(True)
            # the position found: its bank key equals the named bank, liability >= 1 share, asset < 1 share
            lst = 'a0*.1.slice'
            n = z3.Int(lst + '.len')
            key = (ev(args[1].payload[1][0].cell.val) if name == 'pre' and 1 in args[1].payload else ev(eng.deref_val(args[1]))) if True else None
            bi = STRUCTS['Balance']
            def pos(k, fld): return z3.Int(f'{lst}[{k}].2*.{bi.index(fld)}')
            found = z3.Or([z3.And(k < n, pos(k, 'bank_pk') == key, pos(k, 'liability_shares') >= EMPTY, pos(k, 'asset_shares') < EMPTY,
                                  z3.And([z3.Not(z3.And(j < n, pos(j, 'bank_pk') == key)) for j in range(k)])) for k in range(16)])
            ob.prove(eng, r, h + [some_bank], found, 'the first position for the named bank has a debt of >= 1 share and < 1 share of deposit')
        ob.need_witness(); obs.append(ob)
    return obs


def mk_fee(dec_a, dec_l, prefix='C05.c.'):
    def t(world):
        kernels = [k for k in KERNELS if k not in (r'BankAccountWrapper', r'calc_value$', r'calc_amount$', r'get_liability_amount$', r'get_asset_amount$')] + [r'get_liability_amount$', r'get_asset_amount$']
        eng, f, args, res = run_handler(world, r'liquidate::lending_account_liquidate$', kernels=kernels, summaries=SUMMARIES, max_paths=200000,
                                        extra_opaque=[r'get_balance_decimals$'])
        ob = Ob(f'{prefix}{dec_a}-{dec_l}', 'liquidate: debt relief = value(seized, low asset price, 0.95)/high debt price, liquidator leg 0.975, insurance fee = difference >= 0 split into whole tokens (vault) + fraction (bucket); seize guarded by the over-liquidation check; correct wrapper modes',
                [f.name], f'handler mode with calc_value/calc_amount inlined; asset decimals {dec_a}, liability decimals {dec_l}; prices and amount symbolic'); ob.paths = len(res)
        x = args[1].e      # asset_amount u64
        n_ok = 0
        for r, okc in ok_paths(res):
            Ev = list(flat_events(r['events']))
            dcalls = [e for e in Ev if e[0] == 'call' and re.search(r'get_balance_decimals$', e[1])]
            pa_c = [e for e in Ev if e[0] == 'call' and re.search(r'fetch_asset_price_for_bank_low_bias$', e[1])]
            pl_c = [e for e in Ev if e[0] == 'call' and re.search(r'get_price_of_type$', e[1])]
            if len(pa_c) != 1 or len(pl_c) != 1 or len(dcalls) < 4: continue
            Pa = pa_c[0][3].payload[0][0].e; Pl = pl_c[0][3].payload[0][0].e
            decs = [e[3].e for e in dcalls]
            asset_bank = cellname(dcalls[0][2][0]); liab_bank = cellname(dcalls[1][2][0])
            hyp = [okc, x < (1 << 64), Pa < (1 << 40) * W, Pl < (1 << 40) * W] + [d == (dec_a if cellname(e[2][0]) == asset_bank else dec_l) for d, e in zip(decs, dcalls)]
            if ob.witness(eng, r, hyp) is False: continue
            n_ok += 1
            ob.prove(eng, r, hyp, z3.And(Pa > 0, Pl > 0), 'both prices strictly positive before use')
            # price call arguments: RealTime + High bias for the liability
            pt = pl_c[0][2][1]; pb = pl_c[0][2][2]
            ob.prove(eng, r, hyp, z3.And(zint(pt.disc) == ENUMS['OraclePriceType']['RealTime'], zint(pb.disc) == 1, zint(pb.payload[1][0].disc) == ENUMS['PriceBias']['High']), 'debt priced at the high-biased spot price')
            ops = [e for e in Ev if e[0] == 'wrap_op']
            finds = [e for e in Ev if e[0] == 'wrap_find']
            want = ['withdraw_ignore_borrow_cap', 'withdraw_ignore_borrow_cap', 'deposit_ignore_deposit_cap', 'repay']
            if [o[1] for o in ops] != want: ob.fail(f'wrapper operations are {[o[1] for o in ops]}, expected {want}'); continue
            liq_liab, seize, liq_asset, relief = [o[3].e for o in ops]
            ob.queries += 1
            if [o[2] for o in ops] == [liab_bank, asset_bank, asset_bank, liab_bank]: ob.unsat += 1
            else: ob.sat += 1; ob.cex.append({'ob': ob.oid, 'label': 'wrapper legs operate on the wrong banks', 'role': 'legs', 'model': {'banks': [o[2] for o in ops]}, 'replay': None})
            for o in ops: ob.prove(eng, r, hyp, o[5] == 0, f'{o[1]} error propagated')
            sa = 10 ** dec_a; sl = 10 ** dec_l
            X = x * W
            def value(w):   # calc_value(X, Pa, dec_a, Some(w))
                return tdiv(((((X * w) / W) * Pa) / W) * W, sa * W)
            def amount(v):  # calc_amount(v, Pl, dec_l)
                return tdiv(((v * (sl * W)) / W) * W, Pl)
            w975 = eng.const_val(None, 'marginfi_type_crate::constants::LIQUIDATION_LIQUIDATOR_FEE')
            w_ins = eng.const_val(None, 'marginfi_type_crate::constants::LIQUIDATION_INSURANCE_FEE')
            if not (isinstance(w975, IntV) and isinstance(w_ins, IntV)): ob.fail('cannot evaluate the liquidation fee constants'); continue
            lf = z3.simplify(w975.e).as_long(); inf = z3.simplify(w_ins.e).as_long()
            if abs(lf - W * 25 // 1000) > 1 or abs(inf - W * 25 // 1000) > 1: ob.fail('liquidation fees are not 2.5% + 2.5%'); continue
            ob.prove(eng, r, hyp, z3.And(seize == X, liq_asset == X), 'exactly the requested collateral amount is seized from the liquidatee and credited to the liquidator')
            ob.prove(eng, r, hyp, relief == amount(value(W - (lf + inf))), 'liquidatee debt relief == value(seized, low price, 95%) at the high debt price', timeout=60000)
            ob.prove(eng, r, hyp, liq_liab == amount(value(W - lf)), 'liquidator position falls by the equivalent of 97.5%', timeout=60000)
            fee = liq_liab - relief
            tr = [e for e in Ev if e[0] == 'call' and re.search(r'withdraw_spl_transfer$', e[1])]
            if len(tr) != 1: ob.fail('expected exactly one SPL transfer (insurance fee)'); continue
            ob.prove(eng, r, hyp, z3.And(fee >= 0, tr[0][2][1].e * W == (fee / W) * W), 'insurance fee non-negative; whole tokens go to the insurance vault', timeout=60000)
            ob.prove(eng, r, hyp, zint(tr[0][3].disc) == 0, 'transfer error propagated')
            # over-liquidation guard: pre_balance >= asset_amount dominates the seize
            ga = [e for e in Ev if e[0] == 'call' and re.search(r'get_asset_amount$', e[1]) and cellname(e[2][0]) == asset_bank]
            if ga:
                ob.prove(eng, r, hyp, ga[0][3].payload[0][0].e >= X, 'seize guarded: liquidatee deposit (pre) >= seized amount, so the bypass leg cannot open a debt')
            else: ob.structural('no pre-balance read before the seize', 'no-overliquidation-guard')
            # fraction of the fee is booked to the liability bank's insurance bucket
            from specs.C12 import find_accounts
        ob.notes.append(f'{n_ok} accepting paths examined')
        ob.need_witness()
        return [ob]
    return t


def tasks(tier):
    pairs = [(6, 9)] if tier == 'quick' else [(6, 9), (9, 6), (0, 18), (6, 6)]
    return [('pre_post', t_pre_post)] + [(f'fee{a}-{b}', mk_fee(a, b)) for a, b in pairs]



# ---------------------------------------------------------------- shared with C04.a/b: the per-position valuation behind this property's health figures
def t_valuation_asset(world):
    import specs.C04 as C04
    return C04.t_asset_value(world, 'C05.d.asset')


def t_valuation_liab(world):
    import specs.C04 as C04
    return C04.t_liab_value(world, 'C05.d.liab')


_t_val = tasks
def tasks(tier):
    return _t_val(tier) + [('valuation_asset', t_valuation_asset), ('valuation_liab', t_valuation_liab)]



# ---------------------------------------------------------------- shared with C08.b: the Anchor constraint sets of this property's instructions (signer role, has_one = group, vault / PDA bindings)
_t_shared_structs = tasks
def tasks(tier):
    from specs.C08 import shared_struct_tasks
    return _t_shared_structs(tier) + shared_struct_tasks('C05.e.', ['LendingAccountLiquidate'])



# ---------------------------------------------------------------- C05.f: the four wrapper legs of a liquidation in their liquidation modes (kernel level, native replay)
from specs.wrappers import replay_wrapper as _rw5
REPLAYERS = dict(globals().get('REPLAYERS', {})); REPLAYERS['wrapper'] = _rw5
_t_legs = tasks
def tasks(tier):
    from specs.wrappers import wrapper_task
    n = 40 if tier == 'quick' else 1000
    return _t_legs(tier) + [(f'leg:{op}', wrapper_task(op, 'C05', n)) for op in ('withdraw_ignore_borrow_cap', 'deposit_ignore_deposit_cap', 'repay')]



# ---------------------------------------------------------------- C05.g: the prices a liquidation is sized with (shared with C09.j / C09.d): low-biased REAL-TIME collateral price through the confidence-checked getter
_t_c05g = tasks
def tasks(tier):
    import specs.C09 as C09
    return _t_c05g(tier) + [('fetch_helpers', lambda w: C09.t_fetch_helpers(w, 'C05.g')), ('price_pyth', renamed(C09.t_pyth, 'C09.d.', 'C05.g.')), ('price_switchboard', renamed(C09.t_switchboard, 'C09.d.', 'C05.g.'))]
