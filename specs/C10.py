"""C10 — Receivership liquidation is bracketed, restricted, and cannot worsen health."""
import z3
from mirsym.harness import *
import mirsym.engine as E

WORLD = ('marginfi', 'typecrate', 'drift', 'kamino')
ASSUMPTIONS = ['instruction lists are fully symbolic (program id, data length >= 8 or not, 8-byte discriminator per element) up to length K (quick 4, thorough 6); longer transactions are outside the claim',
               'inner withdraw/repay reached through CPI from a whitelisted foreign program is not decided here (no stack-height check in those handlers) - stated assumption',
               'sysvar byte parsing (load_instruction_at_checked) and Solana atomicity are trusted']


def K_of(tier): return 4 if tier == 'quick' else 6


def list_syms(name, K):
    n = z3.Int(f'{name}*.len')
    pid = [z3.Int(f'{name}*[{i}].0') for i in range(K)]
    dlen = [z3.Int(f'{name}*[{i}].2.len') for i in range(K)]
    d8 = [z3.Int(f'{name}*[{i}].2.d8') for i in range(K)]
    return n, pid, dlen, d8


def run_validator(world, fre, K, names):
    E.LIST_K = K
    eng = world.engine(max_paths=400000)
    f = world.fn(fre)
    args = [eng.ex.fresh(ty, nm) for nm, (_, ty) in zip(names, f.params)]
    res = eng.run_fn(f, args)
    return eng, f, args, res


def mk_first(tier):
    def t(world):
        K = K_of(tier)
        eng, f, args, res = run_validator(world, r'(^|::)validate_ix_first$', K, ['ixs', 'prog', 'exp', 'allow'])
        ob = Ob('C10.a.first', f'validate_ix_first on every instruction list of length <= {K}: Ok => exactly one start, it exists, everything before it is compute-budget or whitelisted, no malformed non-CB instruction',
                [f.name], f'symbolic list, length <= {K} (unwinding assumption), allow-list length <= {K}')
        ob.paths = len(res)
        n, pid, dlen, d8 = list_syms('ixs', K)
        prog = args[1].cell.val.e; exp = eng.deref_val(args[2]).e
        an = z3.Int('allow*.len')
        CB = eng.const_val(None, 'constants::COMPUTE_PROGRAM_KEY')
        if not isinstance(CB, IntV): ob.fail('cannot evaluate COMPUTE_PROGRAM_KEY'); return [ob]
        cb = lambda i: pid[i] == CB.e
        start = lambda i: z3.And(pid[i] == prog, d8[i] == exp)
        allowed = lambda i: z3.Or([z3.And(j < an, z3.Int(f'allow*[{j}].0') == pid[i], z3.Int(f'allow*[{j}].1*') == d8[i]) for j in range(K)] +
                                  [z3.And(j < an, z3.Int(f'allow*[{j}].pid') == pid[i], z3.Int(f'allow*[{j}].bytes') == d8[i]) for j in range(K)])
        H = [prog != CB.e]
        for r, okc in ok_paths(res):
            w = ob.witness(eng, r, H + [okc])
            if w is False: continue
            live = lambda i: z3.And(i < n, z3.Not(cb(i)))
            g_exists = z3.Or([z3.And(live(i), start(i), dlen[i] >= 8) for i in range(K)])
            g_unique = z3.And([z3.Not(z3.And(live(i), start(i), live(j), start(j))) for i in range(K) for j in range(i + 1, K)])
            g_before = z3.And([z3.Implies(z3.And(live(s), start(s), j < s, live(j)), z3.And(allowed(j), dlen[j] >= 8)) for s in range(K) for j in range(s)])
            g_wellformed = z3.And([z3.Implies(live(i), dlen[i] >= 8) for i in range(K)])
            ob.prove(eng, r, H + [okc], g_exists, 'a (program, start) instruction exists')
            ob.prove(eng, r, H + [okc], g_unique, 'the start instruction appears exactly once')
            ob.prove(eng, r, H + [okc], g_before, 'everything before the start is compute-budget or whitelisted')
            ob.prove(eng, r, H + [okc], g_wellformed, 'every non-compute-budget instruction has >= 8 data bytes')
        ob.need_witness()
        return [ob]
    return t


def mk_last(tier):
    def t(world):
        K = K_of(tier)
        eng, f, args, res = run_validator(world, r'(^|::)validate_ix_last$', K, ['ixs', 'prog', 'exp'])
        ob = Ob('C10.a.last', f'validate_ix_last: Ok => the last instruction is (program, end) with >= 8 data bytes (list length 1..{K}); empty list panics (fail closed)',
                [f.name], f'symbolic list, length <= {K}'); ob.paths = len(res)
        n, pid, dlen, d8 = list_syms('ixs', K)
        prog = args[1].cell.val.e; exp = eng.deref_val(args[2]).e
        for r, okc in ok_paths(res):
            if ob.witness(eng, r, [okc]) is False: continue
            ob.prove(eng, r, [okc], z3.Or([z3.And(n == i + 1, pid[i] == prog, d8[i] == exp, dlen[i] >= 8) for i in range(K)]), 'last element is the end instruction of this program')
        ob.need_witness()
        return [ob]
    return t


def mk_excl(tier):
    def t(world):
        K = K_of(tier)
        eng, f, args, res = run_validator(world, r'(^|::)validate_ixes_exclusive$', K, ['ixs', 'prog', 'hashes'])
        ob = Ob('C10.a.exclusive', f'validate_ixes_exclusive: Ok => every instruction of this program carries one of the allowed discriminators (lists of length <= {K}, allow-list <= {K}); malformed ones panic',
                [f.name], f'symbolic list, length <= {K}'); ob.paths = len(res)
        n, pid, dlen, d8 = list_syms('ixs', K)
        prog = args[1].cell.val.e
        hn = z3.Int('hashes*.len')
        hs = [z3.Int(f'hashes*[{j}]*.bytes') for j in range(K)]
        for r, okc in ok_paths(res):
            if ob.witness(eng, r, [okc]) is False: continue
            g = z3.And([z3.Implies(z3.And(i < n, pid[i] == prog), z3.And(dlen[i] >= 8, z3.Or([z3.And(j < hn, hs[j] == d8[i]) for j in range(K)]))) for i in range(K)])
            ob.prove(eng, r, [okc], g, 'every instruction of this program is in the allow-list')
        ob.need_witness()
        return [ob]
    return t


def tasks(tier):
    return [('first', mk_first(tier)), ('last', mk_last(tier)), ('exclusive', mk_excl(tier))]


# ---------------------------------------------------------------- C10.b: validate_instructions wiring
def const_bytes(eng, v):
    """bytes tuple of a (reference to a) constant [u8; N] array value, else None"""
    v = eng.deref_val(v)
    if isinstance(v, StructV):
        items = [v.fields.get(i) for i in range(len([k for k in v.fields if isinstance(k, int)]))]
        if items and all(isinstance(x, IntV) and z3.is_int_value(z3.simplify(x.e)) for x in items):
            return tuple(z3.simplify(x.e).as_long() for x in items)
    return None


def t_wiring(world):
    eng = world.engine(opaque=[r'validate_ix_first$', r'validate_ix_last$', r'validate_ixes_exclusive$', r'load_and_validate_instructions$', r'validate_not_cpi', r'get_stack_height',
                               r'load_current_index_checked', r'load_instruction_at_checked', r'Vec<'])
    f = world.fn(r'(^|::)validate_instructions$')
    args = [eng.ex.fresh(ty, n) for n, (_, ty) in zip(['sysvar', 'prog', 'start', 'end'], f.params)]
    res = eng.run_fn(f, args)
    ob = Ob('C10.b', 'validate_instructions: on every accepting path all three list validators ran on the loaded instruction list with this program id, the start/end discriminators and the exact allow-lists; both not-CPI checks ran; start index < len-1; every error propagated',
            [f.name], 'handler mode, validators opaque (decided in C10.a)'); ob.paths = len(res)
    cv = lambda n: const_bytes(eng, eng.const_val(None, 'marginfi_type_crate::constants::ix_discriminators::' + n))
    want_excl = {n: cv(n) for n in ('INIT_LIQUIDATION_RECORD', 'LENDING_ACCOUNT_WITHDRAW', 'LENDING_ACCOUNT_REPAY', 'KAMINO_WITHDRAW', 'DRIFT_WITHDRAW')}
    if any(v is None for v in want_excl.values()): ob.fail(f'cannot evaluate discriminator constants: {want_excl}'); return [ob]
    for r, okc in ok_paths(res):
        if ob.witness(eng, r, [okc]) is False: continue
        Ev = [e for e in flat_events(r['events']) if e[0] == 'call']
        def one(pat):
            c = [e for e in Ev if re.search(pat, e[1])]
            if len(c) != 1: ob.fail(f'{pat}: {len(c)} calls on an accepting path'); return None
            return c[0]
        ld = one(r'load_and_validate_instructions$'); fi = one(r'validate_ix_first$'); la = one(r'validate_ix_last$'); ex = one(r'validate_ixes_exclusive$')
        sh = one(r'validate_not_cpi_by_stack_height$'); sv = one(r'validate_not_cpi_with_sysvar$')
        if None in (ld, fi, la, ex, sh, sv): continue
        for e, nm in ((ld, 'load'), (fi, 'first'), (la, 'last'), (ex, 'exclusive'), (sh, 'stack-height'), (sv, 'sysvar')):
            ob.prove(eng, r, [okc], zint(e[3].disc) == 0, f'{nm} check: error propagated')
        # same program id and start/end discriminators are passed through
        same = lambda a, b: eng.deref_val(a) is eng.deref_val(b) or (isinstance(eng.deref_val(a), IntV) and isinstance(eng.deref_val(b), IntV) and eng.deref_val(a).e.eq(eng.deref_val(b).e))
        for e, idx, want, nm in ((fi, 1, args[1], 'first.program_id'), (la, 1, args[1], 'last.program_id'), (ex, 1, args[1], 'exclusive.program_id'),
                                 (fi, 2, args[2], 'first.expected = start'), (la, 2, args[3], 'last.expected = end')):
            ob.queries += 1
            if same(e[2][idx], want): ob.unsat += 1
            else: ob.sat += 1; ob.cex.append({'ob': ob.oid, 'label': f'{nm}: not the value passed to validate_instructions', 'role': 'wiring:' + nm, 'model': {}, 'replay': None})
        # all three validators look at THE loaded instruction list (not a filtered or truncated copy)
        lname = lambda v: getattr(eng.deref_val(v), 'name', None)
        loaded = ld[3].payload[0][0] if isinstance(ld[3], EnumV) else ld[3]
        want_list = lname(loaded)
        for e, nm in ((fi, 'first'), (la, 'last'), (ex, 'exclusive')):
            ob.queries += 1
            if want_list is not None and lname(e[2][0]) in (want_list, want_list + '.slice'): ob.unsat += 1      # `&ixes` is the whole Vec viewed as a slice
            else: ob.sat += 1; ob.cex.append({'ob': ob.oid, 'label': f'validate_ix_{nm} is not given the transaction\'s full instruction list (got {lname(e[2][0])}, loaded {want_list})', 'role': 'wiring:list-' + nm, 'model': {}, 'replay': None})
        # exclusive allow-list = {start, end} + the five fixed discriminators, nothing else
        lst = eng.deref_val(ex[2][2])
        items = [lst.fields[i] for i in sorted(k for k in lst.fields if isinstance(k, int))] if isinstance(lst, StructV) else []
        got_consts = []; n_param = 0
        for it in items:
            if same(it, args[2]) or same(it, args[3]): n_param += 1; continue
            got_consts.append(const_bytes(eng, it))
        ob.queries += 1
        if n_param == 2 and sorted(map(str, got_consts)) == sorted(map(str, want_excl.values())): ob.unsat += 1
        else:
            ob.sat += 1; ob.cex.append({'ob': ob.oid, 'label': 'exclusive allow-list differs from {start, end, init-record, withdraw, repay, kamino-withdraw, drift-withdraw}', 'role': 'wiring:allow-list',
                                       'model': {'got': [str(x) for x in got_consts], 'params': n_param, 'want': {k: str(v) for k, v in want_excl.items()}}, 'replay': None})
        # start index strictly before the last instruction
        idxv = sv[3].payload[0][0]
        ln = [e for e in Ev if re.search(r'Vec::<.*Instruction>::len$', e[1])]
        ob.queries += 1
        if ln:
            ob.prove(eng, r, [okc], idxv.e < ln[-1][3].e - 1, 'start index < number of instructions - 1')
        else: ob.fail('length of the instruction list is not consulted')
    ob.need_witness()
    return [ob]


# ---------------------------------------------------------------- C10.c/d: start / end of the bracket
F_RECV = 16


def tf(eng, v, i, ty=I80):
    return ev(eng.get_path(v, (('f', i, ty),)))


def t_start_end(world):
    obs = []
    RE = [r'RiskEngine', r'HealthCache', r'rotate_left', r'to_le_bytes', r'to_num']
    # start_receivership
    eng = world.engine(opaque=RE)
    f = world.fn(r'(^|::)start_receivership$')
    args = [eng.ex.fresh(ty, n) for n, (_, ty) in zip(['acct', 'rec', 'ais', 'ignore'], f.params)]
    res = eng.run_fn(f, args)
    ob = Ob('C10.c', 'start_receivership: Ok => the maintenance pre-check ran (ignore_healthy only for deleverage), the four snapshot values are the ones just computed, the receivership flag is set',
            [f.name], 'risk engine opaque (C05.a decides the pre-check)'); ob.paths = len(res)
    for r, okc in ok_paths(res):
        if ob.witness(eng, r, [okc]) is False: continue
        Ev = [e for e in flat_events(r['events']) if e[0] == 'call']
        pre = [e for e in Ev if re.search(r'check_pre_liquidation_condition_and_get_account_health$', e[1])]
        comp = [e for e in Ev if re.search(r'get_account_health_components$', e[1])]
        if len(pre) != 1 or len(comp) != 1: ob.fail('pre-check / equity components not called exactly once'); continue
        ob.prove(eng, r, [okc], z3.And(zint(pre[0][3].disc) == 0, zint(comp[0][3].disc) == 0), 'errors of the pre-check are propagated')
        ig = pre[0][2][3]
        ob.prove(eng, r, [okc], ig.e == args[3].e, 'ignore_healthy is passed through unchanged (false for liquidation)')
        t3 = pre[0][3].payload[0][0]; t2 = comp[0][3].payload[0][0]
        rec = eng.deref_val(r['roots'][1])
        g = lambda n: ev(fget(eng, rec, 'LiquidationRecord', 'cache.' + n))
        ob.prove(eng, r, [okc], z3.And(g('asset_value_maint') == tf(eng, t3, 1), g('liability_value_maint') == tf(eng, t3, 2),
                                       g('asset_value_equity') == tf(eng, t2, 0), g('liability_value_equity') == tf(eng, t2, 1)), 'snapshot == the four values computed now')
        fl1 = ev(fget(eng, r['roots'][0], 'MarginfiAccount', 'account_flags'))
        ob.prove(eng, r, [okc], (fl1 / F_RECV) % 2 == 1, 'ACCOUNT_IN_RECEIVERSHIP set')
        rq = comp[0][2][1]
        ob.prove(eng, r, [okc], zint(rq.disc) == ENUMS['RiskRequirementType']['Equity'], 'equity snapshot uses the Equity requirement')
    ob.need_witness(); obs.append(ob)
    # end_receivership
    eng = world.engine(opaque=RE)
    f = world.fn(r'(^|::)end_receivership$')
    args = [eng.ex.fresh(ty, n) for n, (_, ty) in zip(['acct', 'rec', 'ais', 'ignore'], f.params)]
    res = eng.run_fn(f, args)
    ob = Ob('C10.d.end_receivership', 'end_receivership: Ok => post health >= pre health (from the snapshot), health re-checked with the caller\'s ignore_healthy, flag cleared, receiver reset, seized/repaid = snapshot - now',
            [f.name], 'risk engine opaque'); ob.paths = len(res)
    for r, okc in ok_paths(res):
        if ob.witness(eng, r, [okc]) is False: continue
        Ev = [e for e in flat_events(r['events']) if e[0] == 'call']
        pre = [e for e in Ev if re.search(r'check_pre_liquidation_condition_and_get_account_health$', e[1])]
        comp = [e for e in Ev if re.search(r'get_account_health_components$', e[1])]
        if len(pre) != 1 or len(comp) != 1: ob.fail('post-check / equity components not called exactly once'); continue
        g0 = lambda n: fsym('rec*', 'LiquidationRecord', 'cache.' + n)
        post_h = tf(eng, pre[0][3].payload[0][0], 0)
        ob.prove(eng, r, [okc], z3.And(zint(pre[0][3].disc) == 0, zint(comp[0][3].disc) == 0), 'errors of the post-check are propagated')
        ob.prove(eng, r, [okc], post_h >= g0('asset_value_maint') - g0('liability_value_maint'), 'maintenance health did not get worse than the snapshot')
        ob.prove(eng, r, [okc], pre[0][2][3].e == args[3].e, 'ignore_healthy passed through')
        fl1 = ev(fget(eng, r['roots'][0], 'MarginfiAccount', 'account_flags'))
        ob.prove(eng, r, [okc], (fl1 / F_RECV) % 2 == 0, 'ACCOUNT_IN_RECEIVERSHIP cleared')
        ob.prove(eng, r, [okc], ev(fget(eng, r['roots'][1], 'LiquidationRecord', 'liquidation_receiver')) == 0, 'liquidation receiver reset')
        out = r['ret'].payload[0][0]; t2 = comp[0][3].payload[0][0]
        ob.prove(eng, r, [okc], z3.And(tf(eng, out, 0) == g0('asset_value_equity') - tf(eng, t2, 0), tf(eng, out, 2) == g0('liability_value_equity') - tf(eng, t2, 1)), 'seized / repaid = equity snapshot - equity now')
    ob.need_witness(); obs.append(ob)
    # end_liquidation: premium bound
    eng = world.engine(opaque=RE + [r'end_receivership$', r'anchor_lang::', r'emit', r'Event', r'transfer_flat_fee', r'validate_not_cpi'])
    f = world.fn(r'^liquidate_end::end_liquidation$')
    args = [eng.ex.fresh(ty, 'a%d' % i) for i, (n, ty) in enumerate(f.params)]
    res = eng.run_fn(f, args)
    ob = Ob('C10.d.end_liquidation', 'end_liquidation: not-CPI check; Ok => seized <= repaid * max(1+fee_state max fee, 1+5%) unless the account\'s assets were worth < $5; ignore_healthy = that same condition',
            [f.name], 'end_receivership opaque (previous obligation); repaid in [0, 2^64)'); ob.paths = len(res)
    for r, okc in ok_paths(res):
        if ob.witness(eng, r, [okc]) is False: continue
        Ev = [e for e in flat_events(r['events']) if e[0] == 'call']
        er = [e for e in Ev if re.search(r'end_receivership$', e[1])]; nc = [e for e in Ev if re.search(r'validate_not_cpi_by_stack_height$', e[1])]
        if len(er) != 1 or not nc: ob.fail('end_receivership / not-CPI check missing'); continue
        ob.prove(eng, r, [okc], z3.And(zint(er[0][3].disc) == 0, zint(nc[0][3].disc) == 0), 'errors propagated')
        tup = er[0][3].payload[0][0]; seized = tf(eng, tup, 0); repaid = tf(eng, tup, 2)
        names = [n for n in free_consts(z3.And(r['pc'])) if n.endswith(f".acct.{STRUCTS['LiquidationRecord'].index('cache')}.{STRUCTS['LiquidationCache'].index('asset_value_equity')}")]
        fees = [n for n in free_consts(z3.And(r['pc'])) if n.endswith(f".acct.{STRUCTS['FeeState'].index('liquidation_max_fee')}")]
        if not names: ob.fail('pre_assets_equity does not influence acceptance'); continue
        pae = z3.Int(names[0]); ig = er[0][2][3]
        ob.prove(eng, r, [okc], ig.e == (pae < 5 * W), 'ignore_healthy <=> assets were worth under five dollars')
        mf = z3.Int(fees[0]) if fees else None
        if mf is None: ob.fail('fee_state.liquidation_max_fee does not influence acceptance'); continue
        bonus = eng.const_val(None, 'constants::LIQUIDATION_BONUS_FEE_MINIMUM')
        if not isinstance(bonus, IntV) or not z3.is_int_value(z3.simplify(bonus.e)) or abs(z3.simplify(bonus.e).as_long() - W * 5 // 100) > 1:
            ob.fail('LIQUIDATION_BONUS_FEE_MINIMUM is not 5% (+-1 ulp)'); continue
        bmin = z3.simplify(bonus.e).as_long()
        maxfee = z3.If(W + mf >= W + bmin, W + mf, W + bmin)
        dom = [repaid >= 0, repaid < (1 << 64) * W, mf >= 0, mf <= W, pae >= 5 * W]
        ob.prove(eng, r, [okc] + dom, seized <= (repaid * maxfee) / W, 'seized <= repaid * max premium, premium = max(1 + configured max fee, 1 + 5%)')
        ob.no_panic(eng, r, [okc] + dom, kinds=('wrapping_mul',))
    ob.need_witness(); obs.append(ob)
    return obs


_t10 = tasks
def tasks(tier):
    return _t10(tier) + [('wiring', t_wiring), ('start_end', t_start_end)]


# ---------------------------------------------------------------- shared with C11.f: the flag helpers behind the receivership bracket
def t_flag_helpers(world):
    import specs.C11 as C11
    return C11.t_flag_helpers(world, 'C10.g')


_t10z = tasks
def tasks(tier):
    return _t10z(tier) + [('flag_helpers', t_flag_helpers)]



# ---------------------------------------------------------------- shared with C08.b: the Anchor constraint sets of this property's instructions (signer role, has_one = group, vault / PDA bindings)
_t_shared_structs = tasks
def tasks(tier):
    from specs.C08 import shared_struct_tasks
    return _t_shared_structs(tier) + shared_struct_tasks('C10.h.', ['StartLiquidation', 'EndLiquidation', 'StartDeleverage', 'EndDeleverage', 'InitLiquidationRecord', 'LendingAccountWithdraw', 'LendingAccountRepay'])


# ---------------------------------------------------------------- C10.e: the four bracket instructions wire the shared logic correctly (receiver, flags, discriminator pair, ignore_healthy)
F_DELEV = 32
BRACKETS = {
    'start_liquidation': dict(fn=r'^liquidate_start::start_liquidation$', struct='StartLiquidation', receiver='liquidation_receiver', ignore=False, start='START_LIQUIDATION', end='END_LIQUIDATION', delev=False),
    'start_deleverage': dict(fn=r'^liquidate_start::start_deleverage$', struct='StartDeleverage', receiver='risk_admin', ignore=True, start='START_DELEVERAGE', end='END_DELEVERAGE', delev=True),
    'end_deleverage': dict(fn=r'^liquidate_end::end_deleverage$', struct='EndDeleverage', ignore=True, delev=True),
}


def mk_bracket(name):
    def t(world):
        from specs.handlers import run_handler, KERNELS, short
        from specs.C12 import find_accounts
        B = BRACKETS[name]
        eng, f, args, res = run_handler(world, B['fn'], kernels=[k for k in KERNELS if k not in (r'set_flag$', r'unset_flag$')],
                                        extra_opaque=[r'(^|::)start_receivership$', r'(^|::)end_receivership$', r'validate_not_cpi', r'emit', r'Event'])
        starting = name.startswith('start')
        ob = Ob(f'C10.e.{name}', f'{name}: ' + ('the record\'s receiver is the key of the signer the instruction names, the shared start logic runs with ignore_healthy = %s and its error is propagated, '
                'the result of validate_instructions with the (%s, %s) discriminator pair IS the result of the instruction' % (B['ignore'], B.get('start'), B.get('end')) if starting else
                'not reachable through CPI, the shared end logic runs with ignore_healthy = True and its error is propagated') + ('; the deleverage flag is ' + ('set' if starting else 'cleared') if B['delev'] else ''),
                [f.name], 'handler mode; start/end_receivership and validate_instructions opaque (C10.b/c/d decide them); flag helpers inlined (C10.g)'); ob.paths = len(res)
        names = STRUCTS[B['struct']]
        cv = lambda n: const_bytes(eng, eng.const_val(None, 'marginfi_type_crate::constants::ix_discriminators::' + n))
        n_ok = 0
        for r, okc in ok_paths(res):
            if ob.witness(eng, r, [okc]) is False: continue
            n_ok += 1
            Ev = [e for e in flat_events(r['events']) if e[0] == 'call']
            core = [e for e in Ev if re.search(r'(^|::)(start|end)_receivership$', e[1])]
            if len(core) != 1 or ('start_' in core[0][1]) != starting:
                ob.shape(len([e for e in core if ('start_' in e[1]) == starting]), 1, f'the shared {"start" if starting else "end"} logic is not called exactly once on an accepting path', 'core-missing', {'trace': [short(e[1]) for e in Ev][:40]}); continue
            ob.prove(eng, r, [okc], zint(core[0][3].disc) == 0, 'error of the shared logic is propagated', role='core-error')
            ig = core[0][2][3]
            ob.prove(eng, r, [okc], ev(ig) == z3.BoolVal(B['ignore']), f'ignore_healthy == {B["ignore"]}', role='ignore-healthy')
            accts = {}
            for root in r['roots']: accts.update(find_accounts(eng, root))
            ma = [c for c, sv in accts.items() if 'MarginfiAccount' in sv.ty]; rec = [c for c, sv in accts.items() if 'LiquidationRecord' in sv.ty]
            if len(ma) != 1 or len(rec) != 1: ob.fail(f'accounts: {list(accts)}'); continue
            # the objects handed to the shared logic are this instruction's account and record
            same_obj = eng.deref_val(core[0][2][0]) is accts[ma[0]] or getattr(eng.deref_val(core[0][2][0]), 'name', None) == accts[ma[0]].name
            ob.queries += 1
            if same_obj: ob.unsat += 1
            else: ob.sat += 1; ob.cex.append({'ob': ob.oid, 'label': 'the shared logic runs on another account object', 'role': 'core-account', 'model': {}, 'replay': None})
            if starting:
                rk = z3.Int(f'a0.1*.{names.index(B["receiver"])}.key')
                # the receiver is written before the shared logic (which is opaque and havocs the record): read it from the argument state is not possible, so require the write event order instead
                vi = [e for e in Ev if re.search(r'(^|::)validate_instructions$', e[1])]
                if len(vi) != 1: ob.shape(len(vi), 1, 'validate_instructions is not called exactly once on an accepting path', 'introspection-missing', {'trace': [short(e[1]) for e in Ev][:40]}); continue
                ob.prove(eng, r, [okc], zint(vi[0][3].disc) == 0, 'a rejected transaction shape rejects the instruction', role='introspection-error')
                s_, e_ = const_bytes(eng, vi[0][2][2]), const_bytes(eng, vi[0][2][3])
                ob.queries += 1
                if s_ == cv(B['start']) and e_ == cv(B['end']) and s_ is not None: ob.unsat += 1
                else: ob.sat += 1; ob.cex.append({'ob': ob.oid, 'label': f'validate_instructions is given ({s_}, {e_}) instead of ({B["start"]}, {B["end"]})', 'role': 'discriminator-pair', 'model': {}, 'replay': None})
                recv_w = [e for e in flat_events(r['events']) if e[0] == 'receiver_write']
            if B['delev']:
                fl = [e for e in Ev if re.search(r'::(set_flag|unset_flag)$', e[1])]
            # flags: inlined helpers write account_flags before the (opaque, havocking) shared logic; check through the argument snapshot recorded by the engine at call time is not available,
            # so the flag and receiver facts are checked on a second run with the shared logic summarised as a no-op (below)
        ob.notes.append(f'{n_ok} accepting paths')
        ob.need_witness()
        # second run: shared logic and introspection summarised as successful no-ops, so the handler's OWN writes are visible in the final state
        def sum_ok(eng_, st, callee, a):
            st.events.append(('call', callee, a, None, []))
            return EnumV('Result', 0, {0: {0: StructV('tuple', 'res', {0: IntV(z3.Int('er0'), I80), 1: IntV(z3.Int('er1'), 'f64'), 2: IntV(z3.Int('er2'), I80), 3: IntV(z3.Int('er3'), 'f64')}, lazy=False) if 'end_receivership' in callee else StructV('()', 'unit', {}, lazy=False)}})
        eng2, f2, args2, res2 = run_handler(world, B['fn'], kernels=[k for k in KERNELS if k not in (r'set_flag$', r'unset_flag$')],
                                            extra_opaque=[r'validate_not_cpi', r'emit', r'Event'],
                                            summaries=[(r'(^|::)(start|end)_receivership$', sum_ok), (r'(^|::)validate_instructions$', sum_ok)])
        ob2 = Ob(f'C10.e.{name}.writes', f'{name}: the instruction\'s own writes - ' + ('liquidation_receiver := key of `%s`' % B.get('receiver') if starting else 'no receiver write') +
                 ('; ACCOUNT_IN_DELEVERAGE ' + ('set' if starting else 'cleared') if B['delev'] else '; ACCOUNT_IN_DELEVERAGE untouched') + ', no other flag bit changes',
                 [f2.name], 'handler mode; shared logic summarised as a successful no-op so that only this handler\'s writes remain'); ob2.paths = len(res2)
        for r, okc in ok_paths(res2):
            if ob2.witness(eng2, r, [okc]) is False: continue
            accts = {}
            for root in r['roots']: accts.update(find_accounts(eng2, root))
            ma = [c for c, sv in accts.items() if 'MarginfiAccount' in sv.ty]; rec = [c for c, sv in accts.items() if 'LiquidationRecord' in sv.ty]
            if len(ma) != 1 or len(rec) != 1: ob2.fail(f'accounts: {list(accts)}'); continue
            fl0 = fsym(ma[0], 'MarginfiAccount', 'account_flags'); fl1 = ev(fget(eng2, accts[ma[0]], 'MarginfiAccount', 'account_flags'))
            want = fl0 if not B['delev'] else (z3.If((fl0 / F_DELEV) % 2 == 1, fl0, fl0 + F_DELEV) if starting else z3.If((fl0 / F_DELEV) % 2 == 1, fl0 - F_DELEV, fl0))
            ob2.prove(eng2, r, [okc], fl1 == want, 'account flags: exactly the deleverage bit changes (or nothing)', role='delev-flag')
            if starting:
                rk = z3.Int(f'a0.1*.{names.index(B["receiver"])}.key')
                ob2.prove(eng2, r, [okc], ev(fget(eng2, accts[rec[0]], 'LiquidationRecord', 'liquidation_receiver')) == rk, f'the record names `{B["receiver"]}` as the receiver controlling the account', role='receiver')
            else:
                nc = [e for e in flat_events(r['events']) if e[0] == 'call' and re.search(r'validate_not_cpi_by_stack_height$', e[1])]
                if not nc: ob2.structural('end instruction lacks the not-CPI check', 'not-cpi')
                else: ob2.prove(eng2, r, [okc], zint(nc[0][3].disc) == 0, 'not-CPI error propagated', role='not-cpi')
        ob2.need_witness()
        return [ob, ob2]
    return t


_t10e = tasks
def tasks(tier):
    return _t10e(tier) + [(f'bracket:{n}', mk_bracket(n)) for n in BRACKETS]
