"""try_accounts mode: Anchor-generated constraint code of every #[derive(Accounts)] struct, executed symbolically."""
import z3
from mirsym.harness import *

TA_OPAQUE = [r'as anchor_lang::Accounts', r'map_err', r'anchor_spl', r'Vec<', r'BTree',
             r'with_account_name', r'with_pubkeys', r'with_values', r'anchor_lang::error', r'ErrorCode', r'to_account_info', r'get_associated_token_address',
             r'Rent', r'system_program', r'invoke', r'realloc', r'exit$', r'Pubkey::from', r'get_associated_token_address']
TA_KERNELS = [r'can_be_closed$', r'has_admin_deposit$']


def struct_of(f):
    m = re.search(r"Result<([\w:]+)<'_>, anchor_lang::error::Error>", f.ret)
    return m.group(1).split('::')[-1] if m else None


def all_try_accounts(world):
    out = {}
    for f in world.fns(r'::try_accounts$'):
        sn = struct_of(f)
        if sn and not f.name.startswith('__idl') and '__idl' not in f.name:
            out[sn] = f
    return out


def run_try_accounts(world, f, inline=()):
    op = [k for k in TA_OPAQUE + TA_KERNELS if k not in inline]
    eng = world.engine(opaque=op, merge=False, max_paths=50000)
    args = [eng.ex.fresh(ty, 'a%d' % i) for i, (n, ty) in enumerate(f.params)]
    res = eng.run_fn(f, args)
    return eng, args, res


# ---------------------------------------------------------------- canonical acceptance condition of a try_accounts body
from mirsym.engine import SEED_KEY, SEED_BUMP, PDA_CREATE, PDA_FIND, PDA_BUMP, _BYTES
UFS = {'seed_of_key': SEED_KEY, 'seed_of_bump': SEED_BUMP, 'pda_create': PDA_CREATE, 'pda_find': PDA_FIND, 'pda_find_bump': PDA_BUMP}
ATA = z3.Function('ata_address', z3.IntSort(), z3.IntSort(), z3.IntSort(), z3.IntSort()); UFS['ata_address'] = ATA
INFO_FIELDS = {6: 'is_writable', 5: 'is_signer', 0: 'key', 3: 'owner'}


def sum_ata(eng, st, callee, args):
    vals = [eng.deref_val(a) for a in args]
    if all(isinstance(v, IntV) for v in vals):
        es = [v.e for v in vals]
        while len(es) < 3: es.append(z3.IntVal(-1))
        return IntV(ATA(*es[:3]), 'Pubkey')
    return None


def field_type(callee):
    m = re.match(r"^<(.*) as anchor_lang::Accounts<", callee)
    t = m.group(1) if m else callee
    t = re.sub(r"'\w+,? ?", '', t).replace('anchor_lang::prelude::', '').replace('anchor_spl::token_interface::', '').replace('marginfi_type_crate::types::', '')
    return re.sub(r'\s+', '', t)


def data_struct(ftype):
    m = re.search(r'(?:AccountLoader|Account)<([\w:]+)>', ftype)
    return m.group(1).split('::')[-1] if m else None


def canon_name(sym, resmap):
    """engine symbol name -> canonical name or None"""
    sym = re.sub(r'\.ok(\.\d+)*\.\*', '.ok', sym) if '.ok' in sym else sym       # Box<Account>: look through the pointer
    for res, (fname, ftype) in resmap.items():
        pre = res + '.ok'
        if sym == pre + '.key': return f'{fname}.key'
        if sym.startswith(pre + '.info.'):
            i = sym[len(pre) + 6:]
            if i.isdigit() and int(i) in INFO_FIELDS: return f'{fname}.{INFO_FIELDS[int(i)]}'
            return None
        if sym.startswith(pre + '.acct.'):
            path = sym[len(pre) + 6:]
            ds = data_struct(ftype)
            if not ds or ds not in STRUCTS: return None
            out = []; cur = ds
            toks = re.findall(r'\d+|\[\d+\]|tag|disc|some|le', path)
            ok = True
            for t in toks:
                if t.startswith('['): out.append(t); m_ = re.match(r'^\[(.*); .*\]$', cur or ''); cur = m_.group(1) if m_ else None; continue
                if t in ('tag', 'disc', 'some', 'le'): out.append(t); continue
                b = re.sub(r'<.*', '', cur or '').split('::')[-1]
                if b not in STRUCTS or int(t) >= len(STRUCTS[b]): ok = False; break
                out.append(STRUCTS[b][int(t)]); cur = STRUCT_TYPES[b][int(t)]
            return f'{fname}.data.' + '.'.join(out) if ok else None
    if sym.startswith('clock.'): return sym
    m = re.match(r'^a(\d+)$', sym)
    if sym in ('a0', 'a0*'): return 'program_id'
    return None


def ok_condition(world, sn, f=None):
    """returns dict(fields=[(name,type)], phi=z3 formula over canonical constants, npaths, unmapped=[...])"""
    f = f or all_try_accounts(world)[sn]
    op = TA_OPAQUE + TA_KERNELS
    eng = world.engine(opaque=op, merge=False, max_paths=50000)
    eng.summaries = [(re.compile(r'get_associated_token_address'), sum_ata)]
    args = [eng.ex.fresh(ty, 'a%d' % i) for i, (n, ty) in enumerate(f.params)]
    res = eng.run_fn(f, args)
    names = STRUCTS.get(sn)
    oks = ok_paths(res)
    disj = []; fields = None; dropped = set()
    for r, okc in oks:
        E = list(flat_events(r['events']))
        ext = [e for e in E if e[0] == 'call' and re.search(r'as anchor_lang::Accounts<.*>>::try_accounts$', e[1])]
        by_res = {}
        for e in ext:
            rv = e[3]
            if isinstance(rv, EnumV) and 0 in rv.payload and isinstance(rv.payload[0].get(0), StructV):
                nm = rv.payload[0][0].name
                by_res[nm[:-3] if nm.endswith('.ok') else nm] = field_type(e[1])
        resmap = {}
        flds = []
        agg = r['ret'].payload.get(0, {}).get(0) if isinstance(r['ret'], EnumV) else None
        for k, fname in enumerate(names or []):
            fv = agg.fields.get(fname) if isinstance(agg, StructV) else None
            nm = fv.name if isinstance(fv, StructV) else None
            if nm and nm.endswith('.ok'): nm = nm[:-3]
            if nm in by_res:
                resmap[nm] = (fname, by_res[nm]); flds.append((fname, by_res[nm]))
            else:
                flds.append((fname, 'init-or-derived:' + (re.sub(r"'\w+,? ?", '', str(getattr(fv, 'ty', '?')))[:60])))
                if nm: resmap[nm] = (fname, str(getattr(fv, 'ty', '?')))
        if fields is None: fields = flds
        atoms = []
        for c in r['pc'] + [okc]:
            c = z3.simplify(c)
            if z3.is_true(c): continue
            fc = free_consts(c)
            subs = []; bad = False
            for n, cst in fc.items():
                cn = canon_name(n, resmap)
                if cn is None: bad = True; dropped.add(re.sub(r'#\d+', '#', n)); break
                subs.append((cst, z3.Bool(cn) if z3.is_bool(cst) else z3.Int(cn)))
            if bad: continue
            atoms.append(z3.substitute(c, *subs) if subs else c)
        disj.append(z3.And(atoms) if atoms else z3.BoolVal(True))
    phi = z3.simplify(z3.Or(disj)) if disj else z3.BoolVal(False)
    return {'struct': sn, 'fn': f.name, 'fields': fields or [], 'phi': phi, 'npaths': len(oks), 'total_paths': len(res), 'dropped': sorted(dropped)}


def decls_for(expr_strs):
    """declarations for parsing stored formulas: canonical constants by suffix + the uninterpreted functions"""
    d = dict(UFS)
    for s in expr_strs:
        for n in re.findall(r'\|([^|]+)\|', s) + re.findall(r'(?<![\w|.])([A-Za-z_][\w.]*\.[\w.\[\]]+)', s):
            if n in d: continue
            d[n] = z3.Bool(n) if n.endswith(('.is_writable', '.is_signer')) else z3.Int(n)
    d['program_id'] = z3.Int('program_id')
    return d
