"""C19 — Fees and emissions reach only their destinations, in exactly accrued amounts."""
import z3
from mirsym.harness import *
from specs.wrappers import *

WORLD = ('marginfi', 'typecrate', 'drift')
ASSUMPTIONS = ['SPL token transfer semantics trusted (the amount passed is removed from the source vault); the liquidity vault balance is an input',
               'emissions: mint decimals 0..=18 enumerated; magnitudes: period < 2^32 s, amounts < 2^64 native units, rate < 2^40']
REPLAYERS = {'wrapper': replay_wrapper}
CBF = 'LendingPoolCollectBankFees'


def t_collect(world, oid='C19.a'):
    from specs.C12 import find_accounts
    eng = world.engine(opaque=[r'withdraw_spl_transfer$', r'maybe_take_bank_mint$', r'emit', r'Event', r'anchor_spl::', r'Vec<', r'to_num::<f64>'], merge=False, max_paths=20000)
    from specs.accounts import sum_ata, ATA
    eng.summaries = [(re.compile(r'get_associated_token_address'), sum_ata)]
    f = world.fn(r'collect_bank_fees::lending_pool_collect_bank_fees$')
    args = [eng.ex.fresh(ty, 'a%d' % i) for i, (n, ty) in enumerate(f.params)]
    res = eng.run_fn(f, args)
    ob = Ob(oid, 'collect_bank_fees: exactly the whole-token part of each bucket (clamped by remaining liquidity, in the order insurance, group, program) leaves the liquidity vault for insurance vault / fee vault / the global fee wallet\'s ATA; buckets fall by the same amounts',
            [f.name], 'handler mode; token CPI opaque; all bucket / liquidity values'); ob.paths = len(res)
    names = STRUCTS[CBF]
    for r, okc in ok_paths(res):
        if ob.witness(eng, r, [okc]) is False: continue
        accts = {}
        for root in r['roots']: accts.update(find_accounts(eng, root))
        bank = [c for c, sv in accts.items() if 'Bank' in sv.ty]
        if not bank: ob.fail('bank account not found'); continue
        b = bank[0]
        g0 = lambda n: fsym(b, 'Bank', n); g1 = lambda n: ev(fget(eng, accts[b], 'Bank', n))
        T = [e for e in flat_events(r['events']) if e[0] == 'call' and re.search(r'withdraw_spl_transfer$', e[1])]
        if len(T) != 3: ob.fail(f'{len(T)} transfers on an accepting path (expected 3)'); continue
        def field_of(info):
            v = eng.deref_val(info)
            m = re.search(r'a0\.1\*\.(\d+)', getattr(v, 'name', '') or '')
            return names[int(m.group(1))] if m and int(m.group(1)) < len(names) else getattr(v, 'name', '?')
        dests = {field_of(e[2][3]): e for e in T}; srcs = {field_of(e[2][2]) for e in T}
        ob.queries += 1
        if set(dests) == {'insurance_vault', 'fee_vault', 'fee_ata'} and srcs == {'liquidity_vault'}: ob.unsat += 1
        else:
            ob.sat += 1; ob.cex.append({'ob': ob.oid, 'label': f'transfer routes are {sorted(srcs)} -> {sorted(dests)} (expected liquidity_vault -> insurance_vault, fee_vault, fee_ata)', 'role': 'routes', 'model': {}, 'replay': None}); continue
        amt = lambda k: dests[k][2][1].e
        ins0, grp0, prg0 = g0('collected_insurance_fees_outstanding'), g0('collected_group_fees_outstanding'), g0('collected_program_fees_outstanding')
        liq = None
        for n in free_consts(z3.And(r['pc'] + [amt('insurance_vault') >= 0])):
            if 'TokenAccount_as_Deref' in n or n.endswith('.tok.2') or 'amount' in n: liq = z3.Int(n)
        dom = [ins0 >= 0, grp0 >= 0, prg0 >= 0, ins0 < (1 << 64) * W, grp0 < (1 << 64) * W, prg0 < (1 << 64) * W]
        fl = lambda x: (x / W) * W
        mn = lambda a, b_: z3.If(a <= b_, a, b_)
        for r_ok in [0]:
            for h in forced_oks(T): ob.prove(eng, r, [okc], h == 0, 'transfer error propagated')
        if liq is None:
            ob.notes.append('liquidity symbol not identified: checking the liquidity-independent facts only')
        ob.prove(eng, r, [okc] + dom, z3.And(amt('insurance_vault') * W == ins0 - g1('collected_insurance_fees_outstanding'),
                                             amt('fee_vault') * W == grp0 - g1('collected_group_fees_outstanding'),
                                             amt('fee_ata') * W == prg0 - g1('collected_program_fees_outstanding')), 'each bucket falls by exactly the amount transferred for it')
        ob.prove(eng, r, [okc] + dom, z3.And(amt('insurance_vault') * W <= fl(ins0), amt('fee_vault') * W <= fl(grp0), amt('fee_ata') * W <= fl(prg0),
                                             amt('insurance_vault') >= 0, amt('fee_vault') >= 0, amt('fee_ata') >= 0), 'never more than the whole-token part of a bucket; never negative')
        if liq is not None:
            L0 = liq * W
            a_ins = fl(mn(ins0, L0)); a_grp = fl(mn(grp0, L0 - a_ins)); a_prg = fl(mn(prg0, L0 - a_ins - a_grp))
            ob.prove(eng, r, [okc] + dom + [liq >= 0], z3.And(amt('insurance_vault') * W == a_ins, amt('fee_vault') * W == a_grp, amt('fee_ata') * W == a_prg),
                     'amounts == int(min(bucket, remaining liquidity)) in the order insurance, group, program')
            ob.prove(eng, r, [okc] + dom + [liq >= 0], amt('insurance_vault') + amt('fee_vault') + amt('fee_ata') <= liq, 'total collected never exceeds the vault liquidity')
        # the program fee destination is the canonical ATA of the global fee wallet
        fs = [c for c, sv in accts.items() if 'FeeState' in sv.ty]
        key_of = lambda fld: z3.Int(f'a0.1*.{names.index(fld)}.key') if True else None
        atas = [n for n in free_consts(z3.And(r['pc']))]
        ob.queries += 1
        pcs = z3.And(r['pc'])
        has_ata = 'ata_address' in pcs.sexpr()
        if has_ata: ob.unsat += 1
        else: ob.sat += 1; ob.cex.append({'ob': ob.oid, 'label': 'accepting path without the ATA check of the program fee destination', 'role': 'ata-check', 'model': {}, 'replay': None})
    ob.need_witness()
    return [ob]


def forced_oks(T):
    return [zint(e[3].disc) for e in T]


def t_emissions(world):
    obs = []
    R = OpRun(world, 'claim_emissions')
    ob = Ob('C19.c', 'claim_emissions: credited = min(formula, remaining); remaining\' = remaining - credited >= 0; outstanding\' = outstanding + credited; nothing credited when the side\'s flag is off; last_update advanced; only emissions fields written',
            [R.f.name], 'loop-free, state-merged; stated magnitudes'); ob.paths = R.paths
    P = R.pre; now = AMT
    dom = R.base_hyps() + [P['erem'] >= 0, P['eo'] >= 0, P['erate'] < (1 << 40), now >= 0, now < (1 << 32), P['blu'] >= 0, P['dec'] <= 18, P['atag'] <= 5,
                           P['ash'] < (1 << 64) * W, P['lsh'] < (1 << 64) * W, P['asv'] < (1 << 20) * W, P['lsv'] < (1 << 20) * W]
    for r, okc in R.ok:
        h = dom + [okc]
        if ob.witness(R.eng, r, h) is False: continue
        credited = Q['eo'] - P['eo']
        wprove(ob, R, r, h, z3.And(credited >= 0, credited <= P['erem']), 'credited emissions are non-negative and never exceed the funded remaining amount', role='emissions-cap')
        wprove(ob, R, r, h, Q['erem'] == P['erem'] - credited, 'remaining falls by exactly the credited amount', role='emissions-conservation')
        wprove(ob, R, r, h, Q['erem'] >= 0, 'remaining never negative', role='emissions-nonneg')
        wprove(ob, R, r, h, Q['blu'] == now, 'balance.last_update := now', role='emissions-last-update')
        lend_on = (P['flags'] / 2) % 2 == 1; bor_on = P['flags'] % 2 == 1
        side_assets = z3.And(P['ash'] >= W, P['lsh'] < W); side_liab = P['lsh'] >= W
        wprove(ob, R, r, h + [z3.Not(z3.Or(z3.And(side_assets, lend_on), z3.And(side_liab, bor_on)))], credited == 0, 'nothing credited when the position\'s side has no active emissions flag (or the position is empty)', role='emissions-flag')
        wprove(ob, R, r, h, z3.And([Q[k] == P[k] for k in ('ash', 'lsh', 'tas', 'tls', 'asv', 'lsv', 'ins', 'grp', 'prg', 'flags', 'erate', 'dlim', 'blim')]), 'write set: only emissions_outstanding, last_update, emissions_remaining', role='emissions-frame')
    ob.need_witness(); obs.append(ob)
    # settle: transfer = floor(outstanding), remainder kept
    R2 = OpRun(world, 'settle_emissions_and_get_transfer_amount')
    ob = Ob('C19.d', 'settle_emissions_and_get_transfer_amount: pays out exactly the whole-token part of the outstanding emissions (after claiming) and keeps the fraction', [R2.f.name], 'loop-free, state-merged'); ob.paths = R2.paths
    P = R2.pre
    for r, okc in R2.ok:
        h = R2.base_hyps() + [okc, P['eo'] >= 0, P['erem'] >= 0]
        if ob.witness(R2.eng, r, h) is False: continue
        wprove(ob, R2, r, h, z3.And(Q['eo'] >= 0, Q['eo'] < W), 'only a sub-unit fraction remains outstanding', role='settle-fraction')
        wprove(ob, R2, r, h, RET * W + Q['eo'] == P['eo'] + (P['erem'] - Q['erem']), 'paid + kept == previously outstanding + newly claimed', role='settle-conservation')
    ob.need_witness(); obs.append(ob)
    return obs


def t_calc_emissions(world):
    obs = []
    ob = Ob('C19.c.calc', 'calc_emissions: result <= period*amount*rate/(10^decimals*seconds_per_year) (never above the exact formula), >= it minus 4 ulps-scaled terms; monotone in each factor',
            [], 'decimals enumerated 0..=18; period < 2^32, amount < 2^64 units, rate < 2^40')
    f = world.fn(r'(^|::)calc_emissions$')
    ob.functions.append(f.name)
    S = 31_536_000
    for dec in (0, 6, 9, 18):
        eng = world.engine()
        per = eng.ex.fresh(I80, 'per'); amt = eng.ex.fresh(I80, 'amt'); rate = eng.ex.fresh(I80, 'rate')
        res = eng.run_fn(f, [per, amt, IntV(z3.IntVal(dec), 'usize'), rate]); ob.paths += len(res)
        dom = [per.e >= 0, per.e < (1 << 32) * W, per.e % W == 0, amt.e >= 0, amt.e < (1 << 64) * W, rate.e >= 0, rate.e < (1 << 40) * W, rate.e % W == 0]
        for r, okc in ok_paths(res):
            if ob.witness(eng, r, dom + [okc]) is False: continue
            y = r['ret'].payload[0][0].e
            # exact: per*amt*rate / (10^dec * S) in I80F48 bits:  y*W^2*10^dec*S <= per*amt*rate
            ob.prove(eng, r, dom + [okc], z3.And(y >= 0, y * W * W * (10 ** dec) * S <= per.e * amt.e * rate.e), f'decimals={dec}: never above the exact formula', timeout=60000)
        for r in res:
            if r['status'] != 'return':
                pass
    ob.need_witness(); obs.append(ob)
    return obs


def tasks(tier):
    return [('collect', t_collect), ('emissions', t_emissions), ('calc_emissions', t_calc_emissions)]



# ---------------------------------------------------------------- shared with C08.b: the Anchor constraint sets of this property's instructions (signer role, has_one = group, vault / PDA bindings)
_t_shared_structs = tasks
def tasks(tier):
    from specs.C08 import shared_struct_tasks
    return _t_shared_structs(tier) + shared_struct_tasks('C19.b.', ['LendingPoolCollectBankFees', 'LendingPoolWithdrawFees', 'LendingPoolWithdrawInsurance', 'LendingPoolWithdrawFeesPermissionless', 'LendingPoolUpdateFeesDestinationAccount', 'LendingAccountWithdrawEmissions', 'LendingAccountWithdrawEmissionsPermissionless', 'LendingAccountSettleEmissions', 'LendingPoolSetupEmissions', 'LendingPoolUpdateEmissionsParameters', 'MarginfiAccountUpdateEmissionsDestinationAccount'])


# ---------------------------------------------------------------- C19.d (handlers): emissions leave the emissions vault only in the settled amount and only to the entitled destination
def mk_withdraw_emissions(perm):
    def t(world):
        from specs.handlers import run_handler, KERNELS, short, account_field_of
        from specs.flows import SUMMARIES, evs
        from specs.accounts import sum_ata, ATA
        sname = 'LendingAccountWithdrawEmissionsPermissionless' if perm else 'LendingAccountWithdrawEmissions'
        fnre = r'emissions::lending_account_withdraw_emissions_permissionless$' if perm else r'emissions::lending_account_withdraw_emissions$'
        eng, f, args, res = run_handler(world, fnre, kernels=[k for k in KERNELS if k != r'BankAccountWrapper'], summaries=list(SUMMARIES) + [(re.compile(r'get_associated_token_address').pattern, sum_ata)])
        ob = Ob('C19.d.' + ('withdraw_permissionless' if perm else 'withdraw'), ('permissionless' if perm else 'owner') + ' emissions withdrawal: disabled accounts refused' + (', frozen accounts refused' if perm else '') +
                '; exactly the amount returned by settle_emissions_and_get_transfer_amount leaves the emissions vault (nothing when it is 0); it goes from `emissions_vault` to `destination_account`' +
                (', which must be the associated token account of the wallet the OWNER registered (non-default), for this mint and token program' if perm else ' (chosen by the authorised signer, C19.b)'),
                [f.name], 'handler mode; wrapper op summarised (C19.c/d decide it), token CPI opaque; every accepting path'); ob.paths = len(res)
        names = STRUCTS[sname]; n_ok = 0
        for r, okc in ok_paths(res):
            E = evs(r)
            if ob.witness(eng, r, [okc]) is False: continue
            n_ok += 1
            ops = [e for e in E if e[0] == 'wrap_op']
            T = [e for e in E if e[0] == 'call' and re.search(r'transfer_checked$', e[1])]
            if [o[1] for o in ops] != ['settle_emissions_and_get_transfer_amount']: ob.structural(f'balance operations {[o[1] for o in ops]} (exactly one settle required)', 'ops'); continue
            amt = ops[0][4].e
            ob.prove(eng, r, [okc], ops[0][5] == 0, 'settle error propagated', role='settle-error')
            loads = [e for e in E if e[0] == 'call' and 'AccountLoader' in e[1] and 'MarginfiAccount' in e[1]]
            if not loads: ob.fail('no account load'); continue
            acct = f'{loads[0][2][0]}.acct'
            fl = fsym(acct, 'MarginfiAccount', 'account_flags')
            ob.prove(eng, r, [okc], fl % 2 == 0, 'ACCOUNT_DISABLED accounts are refused', role='disabled')
            if perm: ob.prove(eng, r, [okc], (fl / 64) % 2 == 0, 'frozen accounts are refused', role='frozen')
            if len(T) > 1: ob.fail('more than one token transfer on an accepting path: shape not understood (undecided)'); continue
            if not T:
                ob.prove(eng, r, [okc], amt == 0, 'no transfer only when nothing is due', role='amount'); continue
            ob.prove(eng, r, [okc], z3.And(T[0][2][1].e == amt, amt > 0, zint(T[0][3].disc) == 0), 'tokens transferred == the settled whole-token amount; transfer error propagated', role='amount')
            ctxs = [e for e in E if e[0] == 'call' and re.search(r'CpiContext::<.*>::new_with_signer$|CpiContext.*new_with_signer$', e[1])]
            tc = eng.deref_val(ctxs[-1][2][1]) if ctxs else None
            if not isinstance(tc, StructV): ob.fail('TransferChecked accounts not visible'); continue
            route = {k: account_field_of(eng, v, sname) for k, v in tc.fields.items() if k in ('from', 'to', 'authority', 'mint') or isinstance(k, int)}
            got = (route.get('from', route.get(0)), route.get('to', route.get(2 if 2 in route else 1)), route.get('authority', route.get(3)))
            ob.queries += 1
            if route.get('from') == 'emissions_vault' and route.get('to') == 'destination_account' and route.get('authority') == 'emissions_auth' and route.get('mint') == 'emissions_mint': ob.unsat += 1
            else: ob.sat += 1; ob.cex.append({'ob': ob.oid, 'label': f'transfer accounts are {route} (expected emissions_vault -> destination_account under emissions_auth, mint emissions_mint)', 'role': 'route', 'model': {}, 'replay': None})
            if perm:
                pcn = free_consts(z3.And(r['pc']))
                def K(n):
                    # the key symbol of an instruction account: `a0.1*.<i>.key`, or through a Box: `a0.1*.<i>.0.0.*.key`
                    c = [x for x in pcn if re.match(r'^a0\.1\*\.%d(\.[0-9.*]+)?\.key$' % names.index(n), x)]
                    return z3.Int(c[0]) if len(c) == 1 else z3.Int(f'a0.1*.{names.index(n)}.key')
                wallet = fsym(acct, 'MarginfiAccount', 'emissions_destination_account')
                ob.prove(eng, r, [okc], z3.And(wallet != 0, K('destination_account') == ATA(wallet, K('emissions_mint'), K('token_program'))),
                         'destination == ATA(wallet registered by the owner, emissions mint, token program), wallet set', role='destination')
        ob.notes.append(f'{n_ok} accepting paths')
        ob.need_witness()
        return [ob]
    return t


_t19d = tasks
def tasks(tier):
    return _t19d(tier) + [('withdraw_emissions', mk_withdraw_emissions(False)), ('withdraw_emissions_permissionless', mk_withdraw_emissions(True))]


# ---------------------------------------------------------------- C19.e: funding the reward pool - `emissions_remaining` is credited with exactly the amount whose pre-fee image is sent to the emissions vault
def mk_emissions_funding(which):
    def t(world):
        from specs.handlers import run_handler, KERNELS, short, account_field_of
        from specs.C12 import find_accounts
        sname = 'LendingPoolSetupEmissions' if which == 'setup' else 'LendingPoolUpdateEmissionsParameters'
        fnre = r'configure_bank::lending_pool_setup_emissions$' if which == 'setup' else r'configure_bank::lending_pool_update_emissions_parameters$'
        eng, f, args, res = run_handler(world, fnre, kernels=[r'calculate_pre_fee'], merge=False, max_paths=20000)
        ob = Ob('C19.e.' + which, f'lending_pool_{"setup_emissions" if which == "setup" else "update_emissions_parameters"}: the reward pool (`emissions_remaining`) ' +
                ('is set to' if which == 'setup' else 'grows by') + ' exactly X tokens where the transfer sends pre_fee(X) at the current epoch from the funding account to the emissions vault of this bank - so the vault receives at least what positions can later be credited; nothing is credited without a transfer',
                [f.name], 'handler mode; transfer-fee calculator and token CPI opaque; every accepting path'); ob.paths = len(res)
        n_ok = 0
        for r, okc in ok_paths(res):
            if ob.witness(eng, r, [okc]) is False: continue
            n_ok += 1
            Ev = [e for e in flat_events(r['events']) if e[0] == 'call']
            accts = {}
            for root in r['roots']: accts.update(find_accounts(eng, root))
            bk = [c for c, sv in accts.items() if re.sub(r'<.*', '', sv.ty).split('::')[-1] == 'Bank']
            if len(bk) != 1: ob.fail(f'bank objects {bk}'); continue
            B = bk[0]; rem0 = fsym(B, 'Bank', 'emissions_remaining'); rem1 = ev(fget(eng, accts[B], 'Bank', 'emissions_remaining'))
            credited = rem1 - (rem0 if which == 'update' else 0)
            T = [e for e in Ev if re.search(r'transfer_checked$', e[1])]; PF = [e for e in Ev if re.search(r'calculate_pre_fee_spl_deposit_amount$', e[1])]
            if not T:
                ob.prove(eng, r, [okc], rem1 == rem0, 'no transfer => the pool is not credited', role='funding-without-transfer'); continue
            if len(T) != 1 or len(PF) != 1: ob.shape(min(len(T), len(PF)), 1, f'{len(T)} transfers / {len(PF)} pre-fee computations', 'funding-shape'); continue
            x = PF[0][2][1].e
            ob.prove(eng, r, [okc], z3.And(credited == x * W, PF[0][2][2].e == z3.Int('clock.epoch'), zint(PF[0][3].disc) == 0, T[0][2][1].e == PF[0][3].payload[0][0].e, zint(T[0][3].disc) == 0),
                     'pool credited with X; tokens sent == pre_fee(X) at the current epoch; errors propagated', role='funding-amount')
            ctxs = [e for e in Ev if re.search(r'CpiContext.*::new$', e[1])]
            tc = eng.deref_val(ctxs[-1][2][1]) if ctxs else None
            ob.queries += 1
            route = {k: account_field_of(eng, v, sname) for k, v in tc.fields.items() if k in ('from', 'to', 'authority', 'mint')} if isinstance(tc, StructV) else {}
            if route.get('from') == 'emissions_funding_account' and route.get('to') == 'emissions_token_account' and route.get('mint') == 'emissions_mint': ob.unsat += 1
            else: ob.sat += 1; ob.cex.append({'ob': ob.oid, 'label': f'funding transfer accounts are {route}', 'role': 'funding-route', 'model': {}, 'replay': None})
        ob.notes.append(f'{n_ok} accepting paths')
        ob.need_witness()
        return [ob]
    return t


_t19e = tasks
def tasks(tier):
    return _t19e(tier) + [('funding_setup', mk_emissions_funding('setup')), ('funding_update', mk_emissions_funding('update'))]



# ---------------------------------------------------------------- shared with C08.g: the program entry points forward each argument to the handler parameter of the same name
def t_entry_wiring_shared(world):
    import specs.C08 as C08
    obs = C08.t_entry_wiring(world)
    for o in obs:
        o.oid = 'C19.f'
        for c in o.cex: c['ob'] = 'C19.f'
    return obs


_t_ews = tasks
def tasks(tier):
    return _t_ews(tier) + [('entry_wiring', t_entry_wiring_shared)]


# ---------------------------------------------------------------- C19.g: draining the fee / insurance vaults: one transfer, from the right vault under its own authority, to the destination the constraint set fixed (C19.b), of the requested amount
DRAINS = {
    'withdraw_fees': dict(fn=r'collect_bank_fees::lending_pool_withdraw_fees$', struct='LendingPoolWithdrawFees', src='fee_vault', auth='fee_vault_authority', dst='dst_token_account', clamp=False),
    'withdraw_insurance': dict(fn=r'collect_bank_fees::lending_pool_withdraw_insurance$', struct='LendingPoolWithdrawInsurance', src='insurance_vault', auth='insurance_vault_authority', dst='dst_token_account', clamp=False),
    'withdraw_fees_permissionless': dict(fn=r'collect_bank_fees::lending_pool_withdraw_fees_permissionless$', struct='LendingPoolWithdrawFeesPermissionless', src='fee_vault', auth='fee_vault_authority', dst='fees_destination_account', clamp=True),
}


def mk_drain(name):
    def t(world):
        from specs.handlers import run_handler, KERNELS, short, account_field_of, TOKEN_DEREF
        D = DRAINS[name]
        eng, f, args, res = run_handler(world, D['fn'], summaries=TOKEN_DEREF)
        ob = Ob('C19.g.' + name, f'{name}: exactly one transfer, out of `{D["src"]}` under `{D["auth"]}`, into `{D["dst"]}` (bound by the constraint set, C19.b), of ' +
                ('min(requested amount, what the fee vault holds)' if D['clamp'] else 'exactly the requested amount') + '; transfer error propagated; no other vault is touched',
                [f.name], 'handler mode; token CPI opaque; every accepting path'); ob.paths = len(res)
        sname = D['struct']; n_ok = 0
        for r, okc in ok_paths(res):
            if ob.witness(eng, r, [okc]) is False: continue
            n_ok += 1
            Ev = [e for e in flat_events(r['events']) if e[0] == 'call']
            T = [e for e in Ev if re.search(r'withdraw_spl_transfer$', e[1])]
            if len(T) != 1: ob.shape(len(T), 1, f'{len(T)} vault transfers on an accepting path', 'drain-count'); continue
            route = tuple(account_field_of(eng, T[0][2][i], sname) for i in (2, 3, 4))
            ob.queries += 1
            if route == (D['src'], D['dst'], D['auth']): ob.unsat += 1
            else: ob.sat += 1; ob.cex.append({'ob': ob.oid, 'label': f'transfer (from, to, authority) = {route}, expected {(D["src"], D["dst"], D["auth"])}', 'role': 'drain-route', 'model': {}, 'replay': None})
            amt = T[0][2][1].e; req = args[1].e
            if D['clamp']:
                held = [n for n in free_consts(amt) if n.startswith('tok(') and n.endswith('.2')]
                if len(held) != 1: ob.fail(f'vault balance symbol not identified: {held}'); continue
                hv = z3.Int(held[0])
                which = STRUCTS[sname][int(re.search(r'a0\.1\*\.(\d+)', held[0]).group(1))] if re.search(r'a0\.1\*\.(\d+)', held[0]) else held[0]
                ob.prove(eng, r, [okc], z3.And(amt == z3.If(req <= hv, req, hv), zint(T[0][3].disc) == 0, z3.BoolVal(which == D['src'])), 'amount == min(requested, balance of THAT vault); error propagated', role='drain-amount')
            else:
                ob.prove(eng, r, [okc], z3.And(amt == req, zint(T[0][3].disc) == 0), 'amount == requested amount; error propagated', role='drain-amount')
        ob.notes.append(f'{n_ok} accepting paths')
        ob.need_witness()
        return [ob]
    return t


_t19g = tasks
def tasks(tier):
    return _t19g(tier) + [('drain:' + n, mk_drain(n)) for n in DRAINS]
