from mirsym.harness import *
from specs.wrappers import *
WORLD = ('marginfi', 'typecrate', 'drift')
REPLAYERS = {'wrapper': replay_wrapper}
ASSUMPTIONS = ['inductive step from an arbitrary pre-state: share values > 0, shares >= 0, position shares <= bank totals',
               'rounding allowance per operation: (asset share value + liability share value)/2^48 + 4 ulps of I80F48 (2^-48 native units)']


def tasks(tier):
    n = 40 if tier == 'quick' else 1000
    return [(f'{op}', wrapper_task(op, 'C17', n)) for op in OPS if goals_for(op, OpPre, ('C17',))]


# ---------------------------------------------------------------- C17.b: the capacity used by 'up to limit' deposits
import z3
DRIFT_TAG_ = 4


def replay_capacity(model, spec=None):
    """native replay: the real get_remaining_deposit_capacity on the model's bank; reproduces when it fails (or panics) although a limit is active"""
    g = lambda n, d=0: int(model.get(fsym('bank*', 'Bank', n).decl().name(), d))
    bank = {'asset_share_value': str(g('asset_share_value', W)), 'total_asset_shares': str(g('total_asset_shares')), 'config.deposit_limit': str(g('config.deposit_limit')),
            'config.asset_tag': str(g('config.asset_tag')), 'mint_decimals': str(g('mint_decimals'))}
    req = {'fn': 'remaining_deposit_capacity', 'bank': bank}
    out = native([req])[0]
    bad = bool(out.get('panic')) or not out.get('ok')
    return bad, {'request': req, 'native': out, 'verdict': 'the real function fails on a bank whose deposits are below (within one token of) the limit' if bad else 'not reproduced'}


REPLAYERS['capacity'] = replay_capacity


def t_capacity(world):
    eng = world.engine(merge=True)
    f = world.fn(r'bank\.rs[^>]*>::get_remaining_deposit_capacity$')
    bank = eng.ex.fresh(f.params[0][1], 'bank')
    res = eng.run_fn(f, [bank]); 
    ob = Ob('C17.b.capacity', 'get_remaining_deposit_capacity (what an \'up to limit\' deposit is clamped to): never fails on a sane bank; u64::MAX iff no limit; otherwise c = max(0, floor(limit - deposits - 1)), '
            'so that deposits + c <= limit - 1 (one unit of safety margin) and c = 0 whenever less than one whole unit (plus margin) is left',
            [f.name], 'loop-free, state-merged; non-Drift banks (Drift scaling is C17.d); share value in (0, 2^20), deposit shares and deposit value below 2^64 tokens (beyond that the fixed-point product itself overflows), every u64 limit'); ob.paths = len(res)
    asv = fsym('bank*', 'Bank', 'asset_share_value'); tas = fsym('bank*', 'Bank', 'total_asset_shares'); lim = fsym('bank*', 'Bank', 'config.deposit_limit'); tag = fsym('bank*', 'Bank', 'config.asset_tag')
    assets = (tas * asv) / W
    dom = [asv > 0, asv < (1 << 20) * W, tas >= 0, tas < (1 << 64) * W, assets < (1 << 64) * W, tag != DRIFT_TAG_, tag >= 0, tag <= 5]
    for r, errc in ok_paths(res, 1):
        ob.prove(eng, r, dom + [errc], z3.BoolVal(False), 'no failing path: the capacity of a sane bank is always defined (a deposit \'up to limit\' near the limit deposits 0, it does not revert)', role='capacity-fails', replay='capacity')
    for r, okc in ok_paths(res):
        h = dom + [okc]
        if ob.witness(eng, r, h) is False: continue
        c = r['ret'].payload[0][0].e
        room = lim * W - assets - W
        ob.prove(eng, r, h + [lim == U64_MAX], c == U64_MAX, 'no limit => unlimited capacity', role='capacity-unlimited')
        ob.prove(eng, r, h + [lim != U64_MAX], c == z3.If(room >= 0, room / W, 0), 'c == max(0, floor(limit - deposits - 1))', role='capacity-value', replay='capacity')
        ob.prove(eng, r, h + [lim != U64_MAX, c > 0], assets + c * W <= lim * W - W, 'deposits + c stays one unit under the limit', role='capacity-margin')
    ob.need_witness()
    return [ob]


_t17b = tasks
def tasks(tier):
    return _t17b(tier) + [('capacity', t_capacity)]


# ---------------------------------------------------------------- C17.d: Drift banks - the deposit limit (native decimals) is brought to the 9-decimal unit the deposits are booked in
def t_drift_limit(world):
    f = world.fn(r'(^|::)scale_drift_deposit_limit$', crate='drift')
    ob = Ob('C17.d', 'scale_drift_deposit_limit(limit, decimals): Ok(l) => l == limit * 10^(9 - decimals) exactly for decimals <= 9, and trunc(limit / 10^(decimals - 9)) for decimals > 9 (never ABOVE the exact scaled limit, so the cap is never loosened); an overflow is an error',
            [f.name], 'decimals enumerated 0..=19; every u64 limit')
    for d in range(0, 20):
        eng = world.engine(primary='drift', extra=('typecrate',))
        lim = eng.ex.fresh('u64', 'lim')
        res = eng.run_fn(f, [lim, IntV(z3.IntVal(d), 'u8')]); ob.paths += len(res)
        for r, okc in ok_paths(res):
            if ob.witness(eng, r, [okc]) is False: continue
            y = r['ret'].payload[0][0].e
            want = lim.e * W * (10 ** (9 - d)) if d <= 9 else (lim.e * W) / (10 ** (d - 9))
            ob.prove(eng, r, [okc], y == want, f'decimals={d}: exact scaling to 9 decimals', role='drift-limit')
            ob.prove(eng, r, [okc], y * (10 ** max(d - 9, 0)) <= lim.e * W * (10 ** max(9 - d, 0)), f'decimals={d}: never above the exact scaled limit', role='drift-limit-bound')
    ob.need_witness()
    return [ob]


_t17d = tasks
def tasks(tier):
    return _t17d(tier) + [('drift_limit', t_drift_limit)]



# ---------------------------------------------------------------- C17.e: the deposit handler computes the 'up to limit' capacity on accrued share values (shared with C06.e.deposit; this is fixed finding 313d4f01)
_t_c17e = tasks
def tasks(tier):
    from specs.flows import flow_task
    return _t_c17e(tier) + [('flow_deposit', renamed(flow_task('deposit', ('C06',)), 'C06.e.', 'C17.e.'))]
