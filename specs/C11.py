"""C11 — Flash loans are bracketed: health is enforced before the transaction ends."""
import z3
from mirsym.harness import *
from mirsym.engine import intern_bytes

WORLD = ('marginfi', 'typecrate', 'drift')
ASSUMPTIONS = ['the instructions-sysvar byte parser (load_instruction_at_checked / load_current_index_checked) and transaction atomicity are trusted; the named instruction is an arbitrary symbolic Instruction',
               'a data vector shorter than 8 bytes at the named index makes the slice data[..8] panic (fail closed) - reported as an event, not an accepting path']
F_DISABLED, F_FLASH, F_RECV, F_FROZEN = 1, 2, 16, 64
bit = lambda f, b: (f / b) % 2 == 1


def t_can_start(world):
    eng = world.engine(opaque=[r'validate_not_cpi_with_sysvar$', r'validate_not_cpi_by_stack_height$', r'load_instruction_at_checked$'])
    f = world.fn(r'(^|::)check_flashloan_can_start$')
    args = [eng.ex.fresh(ty, n) for n, (_, ty) in zip(['acct', 'sysvar', 'end_idx'], f.params)]
    res = eng.run_fn(f, args)
    ob = Ob('C11.a', 'check_flashloan_can_start: Ok => current index < end index, both not-CPI checks passed, the named instruction belongs to this program, is end_flashloan, targets this account; account not disabled / in flash loan / in receivership / frozen',
            [f.name], 'loop-free; named instruction fully symbolic (program id, discriminator, account list)'); ob.paths = len(res)
    endc = eng.const_val(None, 'marginfi_type_crate::constants::ix_discriminators::END_FLASHLOAN')
    bs = [endc.fields[i] for i in range(8)] if isinstance(endc, StructV) else None
    if not bs: ob.fail('cannot evaluate END_FLASHLOAN'); return [ob]
    END = intern_bytes('bytes:' + ','.join(str(z3.simplify(x.e).as_long()) for x in bs))
    PID = None
    for mir in eng.mirs:
        for an, (path, bts, size) in mir.allocs.items():
            if path.endswith('::ID') and ('marginfi_type_crate' in path or 'id_crate' in path) and size == 32 and len(bts) == 32:
                PID = IntV(z3.IntVal(int.from_bytes(bytes(int(b, 16) for b in bts), 'little') + (1 << 40)), 'Pubkey')
    for r, okc in ok_paths(res):
        if ob.witness(eng, r, [okc]) is False: continue
        Ev = [e for e in flat_events(r['events']) if e[0] == 'call']
        cur = [e for e in Ev if re.search(r'validate_not_cpi_with_sysvar$', e[1])]; sh = [e for e in Ev if re.search(r'by_stack_height$', e[1])]
        li = [e for e in Ev if re.search(r'load_instruction_at_checked$', e[1])]
        if len(cur) != 1 or len(sh) != 1 or len(li) != 1: ob.fail('expected exactly one of each sysvar / stack-height call'); continue
        ob.prove(eng, r, [okc], z3.And(zint(cur[0][3].disc) == 0, zint(sh[0][3].disc) == 0, zint(li[0][3].disc) == 0), 'not-CPI checks and the instruction load succeeded (errors propagated)')
        ob.prove(eng, r, [okc], cur[0][3].payload[0][0].e < args[2].e, 'start index < end index')
        ob.prove(eng, r, [okc], li[0][2][0].e == args[2].e, 'the instruction inspected is the one at end_index')
        ix = li[0][3].payload[0][0]
        pid = ev(eng.get_path(ix, (('f', 0, 'anchor_lang::prelude::Pubkey'),)))
        data = eng.get_path(ix, (('f', 2, 'Vec<u8>'),))
        ob.prove(eng, r, [okc], z3.Int(data.name + '.d8') == END, 'discriminator == end_flashloan')
        accts = eng.get_path(ix, (('f', 1, 'Vec<anchor_lang::prelude::AccountMeta>'),))
        # program id equals crate::ID: find the key it was compared with
        pidsyms = [n for n in free_consts(z3.And(r['pc'])) if n.startswith('alloc')]
        if isinstance(PID, IntV):
            ob.prove(eng, r, [okc], pid == PID.e, 'named instruction belongs to this program')
        else:
            ob.prove(eng, r, [okc], z3.Or([pid == z3.Int(n) for n in pidsyms] or [z3.BoolVal(False)]), 'named instruction program id == crate::ID')
        key = z3.Int('acct*.key')
        a0 = z3.Int(accts.name + '.slice[0].0')
        ob.prove(eng, r, [okc], z3.And(z3.Int(accts.name + '.slice.len') >= 1, a0 == key), 'accounts[0] of the end instruction is this marginfi account')
        fl = z3.Int('acct*.acct.%d' % STRUCTS['MarginfiAccount'].index('account_flags'))
        ob.prove(eng, r, [okc], z3.And(z3.Not(bit(fl, F_DISABLED)), z3.Not(bit(fl, F_FLASH)), z3.Not(bit(fl, F_RECV)), z3.Not(bit(fl, F_FROZEN))), 'no nesting; disabled, in-receivership and frozen accounts refused')
    ob.need_witness()
    return [ob]


def t_end(world):
    snaps = []
    def sum_health(eng, st, callee, args):
        a = eng.deref_val(args[0])
        fl = ev(fget(eng, a, 'MarginfiAccount', 'account_flags'))
        d = z3.Int(eng.ex.fresh_name('health_disc')); eng.ex.assumptions.append(z3.And(d >= 0, d <= 1))
        st.events.append(('health', fl, d))
        res = EnumV('Result', d, {0: {0: StructV('()', 'unit', {}, lazy=False)}, 1: {0: Opaque('E', 'err')}})
        return StructV('tuple', 't', {0: res, 1: EnumV('Option', 0, {})}, lazy=False)
    eng = world.engine(opaque=[r'validate_not_cpi', r'anchor_lang::'])
    eng.summaries = [(re.compile(r'check_account_init_health$'), sum_health)]
    f = world.fn(r'flashloan::lending_account_end_flashloan$')
    args = [eng.ex.fresh(ty, 'a%d' % i) for i, (n, ty) in enumerate(f.params)]
    res = eng.run_fn(f, args)
    ob = Ob('C11.c', 'end_flashloan: not-CPI; the in-flash-loan flag is cleared BEFORE the full initial-margin check runs, and the check\'s error is propagated; flag is clear on every accepting path',
            [f.name], 'handler mode; risk engine summarised (flag value observed at the call)'); ob.paths = len(res)
    for r, okc in ok_paths(res):
        if ob.witness(eng, r, [okc]) is False: continue
        E_ = list(flat_events(r['events']))
        hs = [e for e in E_ if e[0] == 'health']; nc = [e for e in E_ if e[0] == 'call' and re.search(r'validate_not_cpi_by_stack_height$', e[1])]
        if len(hs) != 1: ob.fail(f'{len(hs)} health checks on an accepting path'); continue
        if not nc: ob.structural('no not-CPI check on an accepting path', 'no-cpi-guard'); continue
        ob.prove(eng, r, [okc], zint(nc[0][3].disc) == 0, 'not-CPI check error propagated')
        ob.prove(eng, r, [okc], z3.Not(bit(hs[0][1], F_FLASH)), 'flag already cleared when the health check runs (so the check is not skipped)')
        ob.prove(eng, r, [okc], hs[0][2] == 0, 'health check error is propagated')
        from specs.C12 import find_accounts
        accts = {}
        for root in r['roots']: accts.update(find_accounts(eng, root))
        for c, sv in accts.items():
            if 'MarginfiAccount' in sv.ty:
                ob.prove(eng, r, [okc], z3.Not(bit(ev(fget(eng, sv, 'MarginfiAccount', 'account_flags')), F_FLASH)), 'committed state: not flagged in-flash-loan')
    ob.need_witness()
    return [ob]


def t_start(world):
    eng = world.engine(opaque=[r'check_flashloan_can_start$', r'anchor_lang::'])
    f = world.fn(r'flashloan::lending_account_start_flashloan$')
    args = [eng.ex.fresh(ty, 'a%d' % i) for i, (n, ty) in enumerate(f.params)]
    res = eng.run_fn(f, args)
    ob = Ob('C11.a.start', 'start_flashloan: the flag is set only after check_flashloan_can_start succeeded with the caller\'s end index', [f.name], 'handler mode'); ob.paths = len(res)
    for r, okc in ok_paths(res):
        if ob.witness(eng, r, [okc]) is False: continue
        cs = calls(r, r'check_flashloan_can_start$')
        if len(cs) != 1: ob.fail('check_flashloan_can_start not called exactly once'); continue
        ob.prove(eng, r, [okc], zint(cs[0][3].disc) == 0, 'bracket check error propagated')
        ob.prove(eng, r, [okc], cs[0][2][2].e == args[1].e, 'end index argument passed through')
    ob.need_witness()
    return [ob]


def t_engine_gates(world):
    """flag set => RiskEngine::new refuses; check_account_init_health skips ONLY for the flag"""
    obs = []
    eng = world.engine(opaque=[r'new_no_flashloan_check$'])
    f = world.fn(r'>::new$', pred=lambda f: len(f.params) == 2 and 'MarginfiAccount' in f.params[0][1] and 'AccountInfo' in f.params[1][1])
    args = [eng.ex.fresh(ty, n) for n, (_, ty) in zip(['acct', 'ais'], f.params)]
    res = eng.run_fn(f, args)
    ob = Ob('C11.d.RiskEngine::new', 'RiskEngine::new fails for an account flagged in-flash-loan (so liquidation, bankruptcy and receivership checks are impossible inside the bracket)', [f.name], 'loop-free'); ob.paths = len(res)
    fl = fsym('acct*', 'MarginfiAccount', 'account_flags')
    for r, okc in ok_paths(res):
        if ob.witness(eng, r, [okc]) is False: continue
        ob.prove(eng, r, [okc], z3.Not(bit(fl, F_FLASH)), 'Ok => not in flash loan')
    ob.need_witness(); obs.append(ob)
    eng = world.engine(opaque=[r'new_no_flashloan_check$', r'check_account_health$'])
    f = world.fn(r'::check_account_init_health$')
    args = [eng.ex.fresh(ty, n) for n, (_, ty) in zip(['acct', 'ais', 'hc'], f.params)]
    res = eng.run_fn(f, args)
    ob = Ob('C11.e.check_account_init_health', 'check_account_init_health returns Ok only if the account is in a flash loan, or the engine was built and the Initial-requirement health check passed', [f.name], 'loop-free; engine construction and health check opaque (C04)')
    ob.paths = len(res)
    for r in returned(res):
        t = r['ret']; rr = t.fields[0]
        okc = z3.simplify(disc_is(rr, 0))
        if z3.is_false(okc): continue
        if ob.witness(eng, r, [okc]) is False: continue
        hc = calls(r, r'check_account_health$'); nw = calls(r, r'new_no_flashloan_check$')
        alts = [bit(fl, F_FLASH)]
        if hc and nw:
            alts.append(z3.And(zint(nw[0][3].disc) == 0, zint(hc[0][3].disc) == 0, zint(hc[0][2][1].disc) == ENUMS['RiskRequirementType']['Initial']))
        ob.prove(eng, r, [okc], z3.Or(alts), 'Ok => in flash loan, or (engine built and Initial health check passed)')
    ob.need_witness(); obs.append(ob)
    return obs


def tasks(tier):
    return [('can_start', t_can_start), ('end', t_end), ('start', t_start), ('engine_gates', t_engine_gates)]


def t_not_cpi(world):
    eng = world.engine(opaque=[r'load_current_index_checked$', r'load_instruction_at_checked$'])
    f = world.fn(r'(^|::)validate_not_cpi_with_sysvar$')
    a = [eng.ex.fresh(f.params[0][1], 'sysvar')]
    res = eng.run_fn(f, a)
    ob = Ob('C11.a.not_cpi', 'validate_not_cpi_with_sysvar: Ok(i) => i is the current top-level instruction index and that instruction belongs to this program', [f.name], 'sysvar readers opaque'); ob.paths = len(res)
    PID = None
    for mir in eng.mirs:
        for an, (path, bts, size) in mir.allocs.items():
            if path.endswith('::ID') and ('marginfi_type_crate' in path or 'id_crate' in path) and size == 32 and len(bts) == 32:
                PID = z3.IntVal(int.from_bytes(bytes(int(b, 16) for b in bts), 'little') + (1 << 40))
    idc = eng.const_val(None, 'id_crate::ID')
    for r, okc in ok_paths(res):
        if ob.witness(eng, r, [okc]) is False: continue
        ci = calls(r, r'load_current_index_checked$'); li = calls(r, r'load_instruction_at_checked$')
        if len(ci) != 1 or len(li) != 1: ob.fail('sysvar readers not called exactly once'); continue
        ob.prove(eng, r, [okc], z3.And(zint(ci[0][3].disc) == 0, zint(li[0][3].disc) == 0), 'reader errors propagated')
        cur = ci[0][3].payload[0][0]
        ob.prove(eng, r, [okc], z3.And(li[0][2][0].e == cur.e, r['ret'].payload[0][0].e == cur.e), 'inspects and returns the current index')
        pid = ev(eng.get_path(li[0][3].payload[0][0], (('f', 0, 'anchor_lang::prelude::Pubkey'),)))
        want = PID if PID is not None else (idc.e if isinstance(idc, IntV) else None)
        if want is None: ob.fail('cannot evaluate the program id constant'); continue
        ob.prove(eng, r, [okc], pid == want, 'top-level instruction belongs to this program (not reached through CPI)')
    ob.need_witness()
    return [ob]


def t_constraints(world):
    from specs.accounts import all_try_accounts, ok_condition
    T = all_try_accounts(world)
    obs = []
    for sn, acct in (('LendingPoolHandleBankruptcy', 'marginfi_account'), ('StartLiquidation', 'marginfi_account'), ('StartDeleverage', 'marginfi_account'),
                     ('EndLiquidation', 'marginfi_account')):
        ob = Ob('C11.d.' + sn, f'{sn}: accepted => the account is not flagged in-flash-loan', [T[sn].name] if sn in T else [], 'Anchor constraint code, every accepting path')
        if sn not in T: ob.fail('struct missing'); obs.append(ob); continue
        c = ok_condition(world, sn, T[sn]); ob.paths = c['total_paths']
        s = z3.Solver(); s.add(c['phi']); ob.queries += 1
        if s.check() == z3.sat: ob.witness_sat += 1
        fl = z3.Int(f'{acct}.data.account_flags')
        ob.prove(None, None, [c['phi']], z3.Not(bit(fl, F_FLASH)), 'flash-loan flag clear', role='flashloan-constraint')
        ob.need_witness(); obs.append(ob)
    return obs


_t11 = tasks
def tasks(tier):
    return _t11(tier) + [('not_cpi', t_not_cpi), ('constraints', t_constraints)]
WORLD = ('marginfi', 'typecrate', 'drift', 'kamino', 'solend')


# ---------------------------------------------------------------- C11.f: the account-flag helpers themselves (every bracket and exclusion above goes through them)
def t_flag_helpers(world, prefix='C11.f'):
    obs = []
    fi = STRUCTS['MarginfiAccount'].index('account_flags')
    FLAGS = [1, 2, 4, 8, 16, 32, 64]
    bit = lambda w_, b: (w_ / b) % 2
    for name in ('set_flag', 'unset_flag', 'get_flag'):
        f = world.fn(r'marginfi_account\.rs[^>]*>::%s$' % name, pred=lambda f_: 'MarginfiAccount' in f_.params[0][1])
        ob = Ob(f'{prefix}.{name}', {'set_flag': 'MarginfiAccount::set_flag(f): bit f set, every other bit unchanged', 'unset_flag': 'MarginfiAccount::unset_flag(f): bit f CLEAR afterwards whatever it was before, every other bit unchanged',
                                     'get_flag': 'MarginfiAccount::get_flag(f) == (bit f is set)'}[name], [f.name], 'all 2^64 flag words; each of the seven single-bit account flags; nothing else written')
        for fl in FLAGS:
            eng = world.engine(merge=False)
            acct = eng.ex.fresh(f.params[0][1], 'acct')
            extra = [IntV(z3.IntVal(fl), 'u64')] + ([eng.ex.fresh('bool', 'msg')] if len(f.params) > 2 else [])
            res = eng.run_fn(f, [acct] + extra); ob.paths += len(res)
            old = z3.Int(f'acct*.{fi}')
            for r in returned(res):
                if ob.witness(eng, r, []) is False: continue
                if name == 'get_flag':
                    ob.prove(eng, r, [], r['ret'].e == (bit(old, fl) == 1), f'flag {fl}: result == bit test', role='flag-helper')
                    continue
                a = eng.deref_val(r['roots'][0])      # final state of this path
                new = ev(fget(eng, a, 'MarginfiAccount', 'account_flags'))
                want_bit = 1 if name == 'set_flag' else 0
                ob.prove(eng, r, [], z3.And(bit(new, fl) == want_bit, new - bit(new, fl) * fl == old - bit(old, fl) * fl), f'flag {fl}: bit == {want_bit} afterwards, other bits unchanged', role='flag-helper')
                others = [k for k in a.fields if isinstance(k, int) and k != fi]
                ob.queries += 1
                if others: ob.sat += 1; ob.cex.append({'ob': ob.oid, 'label': f'writes other account fields {others}', 'role': 'flag-helper-frame', 'model': {}, 'replay': None})
                else: ob.unsat += 1
        ob.need_witness(); obs.append(ob)
    return obs


_t11b = tasks
def tasks(tier):
    return _t11b(tier) + [('flag_helpers', t_flag_helpers)]



# ---------------------------------------------------------------- shared with C08.b: the Anchor constraint sets of this property's instructions (signer role, has_one = group, vault / PDA bindings)
_t_shared_structs = tasks
def tasks(tier):
    from specs.C08 import shared_struct_tasks
    return _t_shared_structs(tier) + shared_struct_tasks('C11.g.', ['LendingAccountStartFlashloan', 'LendingAccountEndFlashloan'])


# ---------------------------------------------------------------- shared with C04.c: what the END of a flash loan relies on - the health decision itself. `end_flashloan` is the one caller that
# passes NO health cache (`&mut None`), so "unhealthy => Err" must not depend on a cache being present (seed C11-6 moved the rejection inside `if let Some(cache)`)
_t_c11h = tasks
def tasks(tier):
    from specs import C04
    return _t_c11h(tier) + [('health_decision', renamed(C04.t_health_decision, 'C04.c', 'C11.h'))]
