HOOK_COMMITS = []
MS = 'SMT (z3) over symbolic execution of rustc MIR of the real functions; all paths, all machine values'
CHECKS = {
    'C07': {'technique': MS, 'engine': 'mirsym',
            'text': 'Bounded symbolic verification: socialize_loss, check_account_bankrupt and the bankruptcy handler are executed symbolically from their MIR; every path is decided by z3 for all i128/u64 values. No unbounded claim.',
            'note': 'Trusted: rustc MIR, ~40 library models of fixed/core, z3, SPL token semantics, Solana atomicity.'},
}
_W = {'technique': MS, 'engine': 'mirsym',
      'text': 'Bounded symbolic verification (inductive step): every BankAccountWrapper operation of the real crate is executed symbolically from its MIR (callees inlined, paths state-merged) from an arbitrary pre-state; z3 decides each goal for all i128/u64 values; counterexamples are replayed natively. No unbounded claim.',
      'note': 'Trusted: rustc MIR, library models of fixed/core (validated per run against the native functions on seeded inputs), z3, SPL token semantics. Whole-history claim follows by induction over operations, which is an argument, not a query.'}
for _p in ('C01', 'C02', 'C03', 'C16', 'C17'):
    CHECKS[_p] = dict(_W)
CHECKS['C20'] = {'technique': MS, 'engine': 'mirsym',
    'text': 'Bounded symbolic verification: the conversion functions of the type crate and of the Kamino/Solend/Drift mocks crates are executed symbolically from their own MIR; exactness, direction of rounding, fail-closed overflow and round trips are decided by z3 for all integer inputs.',
    'note': 'Trusted: rustc MIR, library models, z3. Reserve-level wrappers that only delegate to the proven functions are covered through them; staleness of the venue itself is the venue program\'s business.'}
CHECKS['C18'] = {'technique': MS + '; assume/guarantee (leaf contracts proved from MIR, then used as summaries)', 'engine': 'mirsym',
    'text': 'Bounded symbolic verification: lerp / rate_from_u32 / util_from_u32 contracts are proved from their MIR for all inputs; the seven-point curve (5 points unrolled through iterator models, closure MIR executed) and calc_interest_rate are then decided with the leaves replaced by exactly those contracts. Legacy curve decided directly.',
    'note': 'Trusted: rustc MIR, library + iterator models, z3. The validator-accepts-only-VALID7 link is a separate obligation (C18.v); fee magnitudes bounded by 2^20.'}
NOT_APPLICABLE = {}
