HOOK_COMMITS = []
MS = 'SMT (z3) over symbolic execution of rustc MIR of the real functions; all paths, all machine values'
CHECKS = {
    'C07': {'technique': MS, 'engine': 'mirsym',
            'text': 'Bounded symbolic verification: socialize_loss, check_account_bankrupt and the bankruptcy handler are executed symbolically from their MIR; every path is decided by z3 for all i128/u64 values. No unbounded claim.',
            'note': 'Trusted: rustc MIR, ~40 library models of fixed/core, z3, SPL token semantics, Solana atomicity.'},
}
NOT_APPLICABLE = {}
