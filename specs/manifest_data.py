HOOK_COMMITS = []
MS = 'SMT (z3) over symbolic execution of rustc MIR of the real functions; all paths, all machine values'
CHECKS = {
    'C07': {'technique': MS, 'engine': 'mirsym',
            'text': 'Bounded symbolic verification: socialize_loss, check_account_bankrupt and the bankruptcy handler are executed symbolically from their MIR; every path is decided by z3 for all i128/u64 values. No unbounded claim.',
            'note': 'Trusted: rustc MIR, ~40 library models of fixed/core, z3, SPL token semantics, Solana atomicity.'},
}
_W = {'technique': MS, 'engine': 'mirsym',
      'text': 'Bounded symbolic verification (inductive step): every BankAccountWrapper operation of the real crate is executed symbolically from its MIR (callees inlined, paths state-merged) from an arbitrary pre-state; z3 decides each goal for all i128/u64 values; counterexamples are replayed natively. No unbounded claim.',
      'note': 'Trusted: rustc MIR, library models of fixed/core (validated per run against the native functions on seeded inputs), z3, SPL token semantics. Whole-history claim follows by induction over operations, which is an argument, not a query.'}
for _p in ('C01', 'C02', 'C03', 'C16', 'C17'):
    CHECKS[_p] = dict(_W)
CHECKS['C20'] = {'technique': MS, 'engine': 'mirsym',
    'text': 'Bounded symbolic verification: the conversion functions of the type crate and of the Kamino/Solend/Drift mocks crates are executed symbolically from their own MIR; exactness, direction of rounding, fail-closed overflow and round trips are decided by z3 for all integer inputs.',
    'note': 'Trusted: rustc MIR, library models, z3. Reserve-level wrappers that only delegate to the proven functions are covered through them; staleness of the venue itself is the venue program\'s business.'}
CHECKS['C18'] = {'technique': MS + '; assume/guarantee (leaf contracts proved from MIR, then used as summaries)', 'engine': 'mirsym',
    'text': 'Bounded symbolic verification: lerp / rate_from_u32 / util_from_u32 contracts are proved from their MIR for all inputs; the seven-point curve (5 points unrolled through iterator models, closure MIR executed) and calc_interest_rate are then decided with the leaves replaced by exactly those contracts. Legacy curve decided directly.',
    'note': 'Trusted: rustc MIR, library + iterator models, z3. The validator-accepts-only-VALID7 link is a separate obligation (C18.v); fee magnitudes bounded by 2^20.'}
_H = 'Trusted: rustc MIR, library/iterator/Anchor models of the engine, z3; Anchor Signer/owner/discriminator checks, sha256 PDA derivation (uninterpreted), SPL token programs and Solana atomicity.'
CHECKS['C06'] = {'technique': MS + '; lemma chain; handler-mode trace queries', 'engine': 'mirsym',
    'text': 'Bounded symbolic verification: accrual kernels from MIR (monotone share values, non-negative fees, exact lending-side form), one-sided conservation through a 13-step lemma chain whose leaves are proved on the MIR of the leaf functions, accrue_interest frame/no-op obligations, and handler-mode ordering (accrual precedes every share read/write with the current clock) for deposit, withdraw, borrow, repay, liquidate, bankruptcy, close_balance.',
    'note': _H + ' Magnitude bounds stated in the evidence (dt <= 10y, fees <= 1, base <= 10, A,L < 2^64).'}
CHECKS['C08'] = {'technique': MS + ' applied to the Anchor-generated try_accounts code of every instruction', 'engine': 'mirsym',
    'text': 'Bounded symbolic verification: is_signer_authorized / account_not_frozen_for_authority truth tables for all flag words; for each of the 78 #[derive(Accounts)] structs the acceptance condition of the generated constraint code (predicates inlined from MIR, PDAs as uninterpreted functions of their seeds) is shown to imply (a) the reference constraint set, (b) has_one=group on every bank/account, (c) vault binding to the bank, (d) the signer rule of the role the instruction names.',
    'note': _H + ' All 78 instruction structs are decided (DriftHarvestReward with the Drift has_admin_deposit scan kept as an opaque predicate).'}
CHECKS['C13'] = {'technique': MS + '; assume/guarantee for calculate_max_leverage', 'engine': 'mirsym',
    'text': 'Bounded symbolic verification of BankConfig::validate, calculate_max_leverage (exact contract, monotone) and validate_entries_with_liability_weights (10 entries unrolled; sliced by which entries are non-empty: all singletons + pairs).',
    'note': _H + ' Write-path wiring (C13.d) and check_dupes are separate obligations; uniqueness of tags relies on sorted entries.'}
CHECKS['C14'] = {'technique': MS + '; handler-mode trace queries; try_accounts acceptance conditions', 'engine': 'mirsym',
    'text': 'Bounded symbolic verification: validate_bank_state equals the 4x4 reference table; is_protocol_paused equals the reference (expiry by clock alone, fail-closed on bad clock); every financial handler calls validate_bank_state with the required kind before any balance mutation and propagates its error; every fund-moving instruction struct carries the pause constraint and is accepted again after expiry.',
    'note': _H}
CHECKS['C12'] = {'technique': MS + '; handler-mode write-set queries', 'engine': 'mirsym',
    'text': 'Bounded symbolic verification: each delegated-admin handler is executed symbolically with every bank-mutating callee inlined; for every loaded account object each written leaf must be inside the role mask (all Option combinations and all 2^64 flag words, state-merged); frozen banks: only the limits; FREEZE_SETTINGS never cleared; override_emissions_flag/update_flag as whole functions. Counterexamples replay natively (through marginfi::entry for the emissions instruction).',
    'note': _H + ' Deleverage daily limit (C12.d) and deleverage bracket (C12.e) are covered under C10-style obligations only partly (see DESIGN).'}
CHECKS['C15'] = {'technique': MS + '; inductive invariant (one step from an arbitrary state satisfying Inv)', 'engine': 'mirsym',
    'text': 'Bounded symbolic verification: PanicState::{pause, unpause, unpause_if_expired} from MIR, one step from any state satisfying the stated invariant at any later time preserves it; each pause pushes the paused-until time by <= 30 min, never > 60 min ahead, daily counter resets only after >= 24h; is_expired depends on (flag,start,now) only; the four pause instructions in handler mode (admin unpause never fails while flagged, permissionless unpause iff expired, propagate copies verbatim). The invariant replaces the region graph: all interleavings and timings are covered by induction.',
    'note': _H + ' Timestamps in [0, 2^62).'}
CHECKS['C10'] = {'technique': MS + '; symbolic instruction lists up to a stated length (list/iterator models, closures executed from MIR)', 'engine': 'mirsym',
    'text': 'Bounded symbolic verification: validate_ix_first / validate_ix_last / validate_ixes_exclusive on fully symbolic instruction lists (length <= 4 quick, <= 6 thorough) against an independent reference predicate; validate_instructions wiring (constants, allow-lists, both not-CPI checks, error propagation); start/end receivership (snapshot, flag, health no worse, premium bound with the 5% floor, $5 closeout exception).',
    'note': _H + ' Lists longer than the bound and CPI-reachability of inner withdraw/repay through whitelisted foreign programs are outside the claim.'}
CHECKS['C11'] = {'technique': MS + '; handler-mode trace queries', 'engine': 'mirsym',
    'text': 'Bounded symbolic verification: check_flashloan_can_start with a fully symbolic named instruction (index order, not-CPI x2, program id, discriminator, target account, flag exclusions); end_flashloan clears the flag before the full initial-margin check and propagates its error; RiskEngine::new refuses flagged accounts; check_account_init_health skips only for the flag; bankruptcy / start-liquidation constraints exclude flagged accounts.',
    'note': _H + ' The sysvar byte parser is trusted; short data (< 8 bytes) panics (fail closed).'}
CHECKS['C19'] = {'technique': MS + '; handler-mode trace queries', 'engine': 'mirsym',
    'text': 'Bounded symbolic verification: collect_bank_fees in handler mode (three transfers, routes liquidity vault -> insurance vault / fee vault / global fee wallet ATA, amounts = int(min(bucket, remaining liquidity)) in order, buckets fall by the same amounts, ATA check present); claim_emissions / settle (cap by remaining, conservation, flag gating, write set); calc_emissions never above the exact formula; admin-only drains are part of C08.b.',
    'note': _H}
CHECKS['C04'] = {'technique': MS + '; compositional (valuation, accumulation, decision, wiring)', 'engine': 'mirsym',
    'text': 'Bounded symbolic verification, compositional: per-position calc_weighted_asset_value / calc_weighted_liab_value equal an independently written reference (price type and bias, weights incl. e-mode max, USD-cap discount, zeroing rules, error propagation) on every path; accumulation over position lists (<= 4 quick / 6 thorough; 8 did not finish in 30 min) equals the sums; check_account_health accepts iff assets >= liabilities and the risk-tier rule holds (and never rejects positive health for another reason); risk-tier rule equals the reference on lists <= 3/5; borrow/withdraw/liquidate and the Kamino/Solend withdraw handlers call the check after the mutation and sort and propagate its error; reconcile_emode_configs (C04.f) equals the intersection with minimum weights for 1-3 configs (thorough 4) of up to 2 (thorough 3) non-empty entries.',
    'note': _H + ' Not decided: reconcile shapes beyond the stated ones and the f64 copies in HealthCache; BTreeMap is modelled as an association list (iteration order not modelled; the result is re-sorted). Oracle byte parsing is trusted (C09).'}
CHECKS['C05'] = {'technique': MS + '; handler-mode with the fee arithmetic inlined', 'engine': 'mirsym',
    'text': 'Bounded symbolic verification: pre-/post-liquidation checks against position lists <= 16 (find unrolled): not in flash loan, the named position has debt >= 1 share and < 1 share of deposit, maintenance health <= 0 before and after and strictly better after; the liquidate handler with calc_value/calc_amount inlined: relief = value(seized, low asset price, 95%) at the high spot debt price, liquidator leg 97.5%, insurance fee = difference >= 0 with whole tokens to the insurance vault; prices > 0 before use; over-liquidation guard dominates the seize; wrapper modes and banks of the four legs.',
    'note': _H + ' Decimals enumerated (quick: 6/9).'}
CHECKS['C09'] = {'technique': MS + '; the Pyth receiver SDK staleness/verification function executed from its own MIR; assume/guarantee for the exponent scaling leaf', 'engine': 'mirsym',
    'text': 'Bounded symbolic verification: try_from_bank_with_max_age for every oracle setup (account count, key at each index, Pyth owner, single load on account 0 with the caller\'s clock and max age, companion staleness, errors propagated); Switchboard load_checked (owner, age boundary); Pyth load_price_update_v2_checked (owner, discriminator operands) and load_checked with the SDK\'s get_price_no_older_than_with_custom_verification_level inlined (Full verification, publish_time + max_age >= now for all i64/u64); get_price_of_type for Pyth and Switchboard equals the reference (EMA iff time-weighted, confidence = min(k*conf, 5% price), rejection above price*max_conf, Low/High = price -/+ confidence) with the 10^e scaling leaf proved for all 37 exponents; get_oracle_max_age; zero-price guard dominates receivership withdrawals (marginfi, Kamino, Solend). Bad-oracle valuation rules are C04.a/b; liquidation price positivity is C05.c.',
    'note': _H + ' Trusted: borsh/bytemuck decoding of oracle accounts (decoded feeds are arbitrary symbolic structs), the 8-byte memcmp, Switchboard result semantics. Not decided: the Drift withdraw handler (path explosion, >50 min) and the exchange-rate adjusters (C20).'}

# obligations added after the first round of seeded changes (see DESIGN.md 0a): appended to the level text of each property
_EXTRA = {
 'C01': ' Plus handler mode: borrow fee split (C01.b.borrow), tokens moved vs amount booked for deposit/withdraw/repay incl. the transfer-fee gross-up at the current epoch (C01.b.*), frame lemma for the two cache refreshers (C01.c).',
 'C02': ' Plus handler mode: account migration moves positions without duplicating them (C02.f).',
 'C05': ' Plus the per-position valuation behind the health figures (C05.d = C04.a/b).',
 'C07': ' Plus the per-position valuation behind the bankruptcy assessment (C07.f = C04.a/b: oracle errors propagate for Equity).',
 'C10': ' Plus the account-flag helpers set/unset/get for all flag words (C10.g).',
 'C11': ' Plus the account-flag helpers set/unset/get for all flag words (C11.f).',
 'C12': ' Plus frame conditions for the oracle-configuration, fixed-price, fee-destination, tokenless-repay, price-cache, staked-settings and curve-migration handlers, and the deleverage daily-limit wiring in withdraw (C12.d).',
 'C13': ' Plus the write paths propagate_staked_settings and migrate_curve (C13.d).',
 'C14': ' Plus the Kamino/Solend/Drift deposit and Kamino/Solend withdraw handlers (C14.b) and the verbatim propagation of the pause state into the group cache (C14.e).',
 'C16': ' Plus find_or_create / find on 16 symbolic slots (C16.a: first existing slot or first free slot, integration cap shared across venues), sort_balances comparator and range (C16.b), asset-tag check wired to the account whose position is opened (C16.h), integration deposit/withdraw handlers.',
 'C18': ' Plus validate_seven_point accepts only the domain the curve obligations assume, and the calculator copies it verbatim (C18.v).',
 'C20': ' Plus the adapter applies each adjuster to the field it stores into, with one common rate (C20.d = C09.g).',
}
for _p, _t in _EXTRA.items():
    CHECKS[_p] = dict(CHECKS[_p]); CHECKS[_p]['text'] = CHECKS[_p]['text'] + _t

# obligations added in the second build session (round-5 seeds and the former "not decided" list): appended likewise
_EXTRA2 = {
 'C02': ' Plus: bank-level operations that are not balance operations never move the share totals (C02.g: socialize_loss, accrue_interest, cache refreshers, both configure paths); close_bank preconditions (C02.d); a closed-world scan of every MIR assignment to share totals / positions (C02.e, auxiliary: an unclassified writer makes the property undecided).',
 'C03': ' Plus the Token-2022 transfer-fee gross-up calculate_pre_fee_amount for all amounts, caps and rates (C03.f: the vault receives at least the amount booked), replayed against the real SPL fee function.',
 'C05': ' Plus the four wrapper legs in their liquidation modes at kernel level with native replay (C05.f: a seizure within the deposit never creates a debt; debit/credit within rounding of the computed amounts) and the constraint set of the liquidate instruction (C05.e).',
 'C07': ' Plus the bankruptcy handler end to end in handler mode (C07.b: authorisation, debt read from the active position of THIS bank, insurance first = min(bad debt, insurance available) rounded up (or its pre-fee image), socialized remainder, exactly the bad debt repaid, route insurance vault -> liquidity vault, account disabled, bank killed iff wiped out), settlement of a wiped-out bank cannot revert (C07.d), killed state terminal on the frozen configuration path too (C07.e.frozen), constraint set (C07.g).',
 'C10': ' Plus the four bracket instructions\' own wiring (C10.e: receiver key, deleverage flag, discriminator pair, ignore_healthy, error propagation) and the constraint sets of the bracket / inner instructions (C10.h).',
 'C11': ' Plus the constraint sets of the two flash-loan instructions (C11.g) and the health decision the end instruction relies on, for any health-cache option incl. None (C11.h).',
 'C12': ' Plus the daily deleverage window kernel update_withdrawn_equity for all timestamps and counters with native replay (C12.d.window) and the signer-role constraint sets of every delegated-admin instruction (C12.r).',
 'C13': ' Plus the six bank initialisers validate the bank they wrote (C13.d.add_bank*), the killed state is terminal on both configuration paths (C13.e), constraint sets (C13.g).',
 'C15': ' Plus the constraint sets of the four pause instructions (C15.d).',
 'C16': ' Plus asset-tag compatibility over 16 symbolic slots in the quick tier (C16.d, MS twin of the Kani harness), closability (C16.e: can_be_closed over 16 slots and the close handler), constraint sets of close / migrate / close_balance (C16.i).',
 'C17': ' Plus the remaining-capacity function behind \'up to limit\' deposits (C17.b.capacity: never fails on a sane bank, equals max(0, floor(limit - deposits - 1)), native replay).',
 'C19': ' Plus the emissions withdrawal handlers (C19.d.withdraw*: settled amount only, emissions vault -> destination, permissionless variant only to the ATA of the wallet the owner registered) and the constraint sets of every fee / emissions instruction (C19.b).',
}
for _p, _t in _EXTRA2.items():
    CHECKS[_p] = dict(CHECKS[_p]); CHECKS[_p]['text'] = CHECKS[_p]['text'] + _t
_EXTRA3 = {
 'C01': ' Plus the bankruptcy write-off kernel socialize_loss shared from C07.c (C01.g: the depositors\' claim falls by the socialised loss, never by less).',
 'C03': ' Plus close_balance: Ok => the debt and the deposit written off with the slot are each below 0.0001 native units (C03.g, native replay).',
 'C14': ' Plus the killed state is terminal on both configuration paths (C14.g, shared from C07.e / C13.e, native replay).',
 'C18': ' Plus the acceptance gate: BankConfig::validate consults the curve validator on every accepting path and every bank initialiser validates the bank it wrote (C18.w, shared from C13.a / C13.d).',
}
for _p, _t in _EXTRA3.items():
    CHECKS[_p] = dict(CHECKS[_p]); CHECKS[_p]['text'] = CHECKS[_p]['text'] + _t
# thorough tier only: a Kani/CBMC harness re-decides one obligation of these properties on the compiled code (second engine)
for _p, _t in (('C08', ' Thorough tier adds C08.k: the signer-authorisation truth table decided by Kani/CBMC on the compiled code.'),
               ('C12', ' Thorough tier adds C12.k: the daily deleverage window decided by Kani/CBMC on the compiled code.'),
               ('C14', ' Thorough tier adds C14.k: the bank-state table decided by Kani/CBMC on the compiled code.'),
               ('C09', ' Thorough tier adds C09.k: Kani/CBMC harness on SwitchboardPullPriceFeed::load_checked with the REAL byte-level parsing of a symbolic account.'),
               ('C15', ' Thorough tier adds C15.k: the same inductive step decided by Kani/CBMC on the compiled code.'),
               ('C16', ' Thorough tier adds C16.k: validate_asset_tags over 16 symbolic slots decided by Kani/CBMC on the compiled code.')):
    CHECKS[_p] = dict(CHECKS[_p]); CHECKS[_p]['text'] += _t; CHECKS[_p]['engine'] = 'mirsym (+ kani in the thorough tier)'
    CHECKS[_p]['technique'] += '; thorough tier: Kani 0.68/CBMC proof harness over the compiled code (second engine, disagreement = undecided)'
NOT_APPLICABLE = {}
