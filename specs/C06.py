"""C06 — Interest accrual conserves value, is monotone, and is always applied first."""
import z3
from mirsym.harness import *

WORLD = ('marginfi', 'typecrate', 'drift')
ASSUMPTIONS = ['curve = any base rate in [0,10] (contract of C18.b/c); fee rates and fixed fees in [0,1]; dt in [1, 10 years] seconds',
               'A, L < 2^64 native units (as I80F48), L <= A (utilization <= 1; enforced after every withdraw/borrow, C17.c), share values in (0, 2^20)',
               'conservation allowance (bits): (L + total_liability_shares)/2^48 + base*dt/(2^48*S) + 2, S = seconds per year']
S_YEAR = 31_536_000
IRC = 'InterestRateCalc'
B64 = (1 << 64) * W


def curve_sum(e, st, c, a):
    b = z3.Int('base'); e.ex.assumptions.append(z3.And(b >= 0, b <= 10 * W))
    return EnumV('Option', 1, {1: {0: IntV(b, I80)}})


def _calc_syms():
    gi = lambda n: z3.Int('calc*.%d' % STRUCTS[IRC].index(n))
    return {n: gi(n) for n in ('insurance_fixed_fee', 'insurance_rate_fee', 'protocol_fixed_fee', 'protocol_rate_fee', 'program_fee_fixed', 'program_fee_rate', 'curve_type')} | \
        {'add_program_fees': z3.Bool('calc*.%d' % STRUCTS[IRC].index('add_program_fees'))}


def t_state_changes(world):
    eng = world.engine(merge=True)
    eng.summaries = [(re.compile(r'interest_rate_multipoint_curve$|::interest_rate_curve$'), curve_sum)]
    f = world.fn(r'calc_interest_rate_accrual_state_changes$')
    names = ['dt', 'A', 'L', 'calc', 'asv', 'lsv']
    args = [eng.ex.fresh(ty, n) for n, (_, ty) in zip(names, f.params)]
    dt, A, L, calc, asv, lsv = args
    C = _calc_syms()
    hyp = [dt.e >= 1, dt.e <= 10 * S_YEAR, A.e > 0, L.e > 0, L.e <= A.e, A.e < B64, asv.e > 0, lsv.e > 0, asv.e < (1 << 20) * W, lsv.e < (1 << 20) * W,
           z3.Or(C['curve_type'] == 0, C['curve_type'] == 1)]
    for k in ('insurance_fixed_fee', 'insurance_rate_fee', 'protocol_fixed_fee', 'protocol_rate_fee', 'program_fee_fixed', 'program_fee_rate'):
        hyp += [C[k] >= 0, C[k] <= W]
    res = eng.run_fn(f, args, pc=hyp)
    ob = Ob('C06.a', 'calc_interest_rate_accrual_state_changes: share values never decrease, fees never negative, program fee zero when disabled, deposit share value grows exactly by floor(asv*ir_l)',
            [f.name], 'loop-free; stated magnitude bounds; curve summarised by its contract'); ob.paths = len(res)
    base = z3.Int('base')
    for r in returned(res):
        some = z3.simplify(disc_is(r['ret'], 1))
        if z3.is_false(some): continue
        if ob.witness(eng, r, [some]) is False: continue
        out = r['ret'].payload[1][0]
        nasv, nlsv, fins, fgrp, fprg = [ev(out.fields[i] if i in out.fields else out.fields[n]) for i, n in enumerate(['new_asset_share_value', 'new_liability_share_value', 'insurance_fees_collected', 'group_fees_collected', 'protocol_fees_collected'])]
        h = [some]
        ob.prove(eng, r, h, nasv >= asv.e, 'deposit share value never decreases')
        ob.prove(eng, r, h, nlsv >= lsv.e, 'liability share value never decreases')
        ob.prove(eng, r, h, z3.And(fins >= 0, fgrp >= 0, fprg >= 0), 'fees never negative')
        ob.prove(eng, r, h + [z3.Not(C['add_program_fees'])], fprg == 0, 'program fees are zero when disabled for the group')
        # exact form of the lending side: asv' - asv = floor(asv * trunc(lend*dt/Y) / 2^48), lend = floor(base*u/2^48), u = trunc(L*2^48/A)
        u = (L.e * W) / A.e; lend = (base * u) / W; irl = (lend * dt.e) / S_YEAR
        ob.prove(eng, r, h, nasv - asv.e == (asv.e * irl) / W, 'asv\' - asv == floor(asv * floor(lend*dt/S) / 2^48) with lend = floor(base*utilization)', timeout=60000)
        ob.no_panic(eng, r, [some])
    ob.need_witness()
    # None only outside the domain: with the bounds above the computation cannot fail
    for r in returned(res):
        none = z3.simplify(disc_is(r['ret'], 0))
        if z3.is_false(none): continue
        ob.prove(eng, r, [L.e * dt.e < (1 << 74) * W], z3.Not(none), 'inside the stated bounds and L*dt < 2^74 unit-seconds the accrual computation never fails (None unreachable)')
    return [ob]


def t_lemma_chain(world):
    """C06.c: one-sided conservation dA + fees <= dL + eps through a chain of small lemmas.
    Leaf lemmas are proved on the expressions *extracted from the MIR* of the leaf functions; the combination steps use
    abstract variables constrained only by the proved conclusions; the final step is linear."""
    obs = []
    ob = Ob('C06.c', 'amount-level one-sided conservation of accrual: increase of total deposits + fees booked <= increase of total debt + allowance',
            [], 'lemma chain; every step its own query; any unknown => undecided')
    # ---- leaf 1: calc_accrued_interest_payment_per_period(apr, dt, value) from its MIR
    eng = world.engine(); f1 = world.fn(r'calc_accrued_interest_payment_per_period$'); ob.functions.append(f1.name)
    apr, dt, val = eng.ex.fresh(I80, 'apr'), eng.ex.fresh('u64', 'dt'), eng.ex.fresh(I80, 'val')
    res1 = eng.run_fn(f1, [apr, dt, val])
    dom1 = [apr.e >= 0, apr.e <= 40 * W, dt.e >= 1, dt.e <= 10 * S_YEAR, val.e > 0, val.e < (1 << 20) * W]
    for r in returned(res1):
        some = z3.simplify(disc_is(r['ret'], 1))
        if z3.is_false(some) or ob.witness(eng, r, dom1 + [some]) is False: continue
        out = r['ret'].payload[1][0].e
        ir = (apr.e * dt.e) / S_YEAR
        ob.prove(eng, r, dom1 + [some], out - val.e == (val.e * ir) / W, 'Lc0 (MIR): out - v == floor(v * floor(apr*dt/S) / 2^48)')
    # ---- leaf 2: calc_interest_payment_for_period(apr, dt, value)
    eng2 = world.engine(); f2 = world.fn(r'calc_interest_payment_for_period$'); ob.functions.append(f2.name)
    apr2, dt2, val2 = eng2.ex.fresh(I80, 'fapr'), eng2.ex.fresh('u64', 'fdt'), eng2.ex.fresh(I80, 'fval')
    res2 = eng2.run_fn(f2, [apr2, dt2, val2])
    dom2 = [apr2.e >= 0, apr2.e <= 40 * W, dt2.e >= 1, dt2.e <= 10 * S_YEAR, val2.e >= 0, val2.e < B64]
    for r in returned(res2):
        some = z3.simplify(disc_is(r['ret'], 1))
        if z3.is_false(some) or ob.witness(eng2, r, dom2 + [some]) is False: continue
        out = r['ret'].payload[1][0].e
        ob.prove(eng2, r, dom2 + [some], z3.And(out >= 0, S_YEAR * W * out <= val2.e * apr2.e * dt2.e), 'Lc3 (MIR): S*2^48*fee <= L*apr*dt and fee >= 0')
    # ---- leaf 3: calc_interest_rate (curve summarised): A*lend <= base*L, lend <= base, borrow >= base + sum fee aprs
    eng3 = world.engine(); eng3.summaries = [(re.compile(r'interest_rate_multipoint_curve$|::interest_rate_curve$'), curve_sum)]
    f3 = world.fn(r'interest_rate\.rs[^>]*>::calc_interest_rate$'); ob.functions.append(f3.name)
    calc = eng3.ex.fresh(f3.params[0][1], 'calc'); ur = eng3.ex.fresh(I80, 'ur')
    C = _calc_syms(); A_, L_ = z3.Int('A_'), z3.Int('L_'); base = z3.Int('base')
    dom3 = [A_ > 0, L_ > 0, L_ <= A_, A_ < B64, ur.e == (L_ * W) / A_, z3.Or(C['curve_type'] == 0, C['curve_type'] == 1)]
    for k in ('insurance_fixed_fee', 'insurance_rate_fee', 'protocol_fixed_fee', 'protocol_rate_fee', 'program_fee_fixed', 'program_fee_rate'):
        dom3 += [C[k] >= 0, C[k] <= W]
    res3 = eng3.run_fn(f3, [calc, ur], pc=dom3)
    names = STRUCTS['ComputedInterestRates']
    for r in returned(res3):
        some = z3.simplify(disc_is(r['ret'], 1))
        if z3.is_false(some) or ob.witness(eng3, r, [some]) is False: continue
        v = r['ret'].payload[1][0]
        g = lambda n: ev(v.fields[names.index(n)] if names.index(n) in v.fields else v.fields[n])
        lend, bor = g('lending_rate_apr'), g('borrowing_rate_apr')
        gsum = g('group_fee_apr') + g('insurance_fee_apr') + g('protocol_fee_apr')
        ob.prove(eng3, r, [some], A_ * lend <= base * L_, 'Ld1 (MIR): A*lend <= base*L (lenders receive at most what borrowers pay at base)')
        ob.prove(eng3, r, [some], lend <= base, 'Ld2 (MIR): lend <= base')
        ob.prove(eng3, r, [some], bor >= base + gsum, 'Le (MIR): borrow >= base + sum of fee aprs')
    # ---- spec-level arithmetic lemmas on the exact forms established above
    A, L, asv, lsv, TAS, TLS, sdt = z3.Ints('sA sL sasv slsv sTAS sTLS sdt')
    irl, irb = z3.Ints('sirl sirb')
    hyp = [A > 0, L > 0, L <= A, A < B64, asv > 0, lsv > 0, asv < (1 << 20) * W, lsv < (1 << 20) * W, TAS >= 0, TLS >= 0,
           A == (TAS * asv) / W, L == (TLS * lsv) / W, irl >= 0, irb >= 0, irl <= 400 * W, irb <= 400 * W]
    da = (asv * irl) / W; dl = (lsv * irb) / W
    dA = (TAS * (asv + da)) / W - A; dL = (TLS * (lsv + dl)) / W - L

    def prove(label, hyps, goal, to=60000):
        s = z3.Solver(); s.set('timeout', to)
        for h_ in hyps: s.add(h_)
        ob.queries += 1
        if len(ob.samples) < 1: pass
        s.push(); w = s.check(); s.pop()
        if w == z3.sat: ob.witness_sat += 1
        s.add(z3.Not(goal)); t = time.time(); rr = s.check(); ob.solver_s += time.time() - t; ob.queries += 1
        if rr == z3.unsat: ob.unsat += 1
        elif rr == z3.sat: ob.sat += 1; ob.cex.append({'ob': ob.oid, 'label': label, 'role': 'chain:' + label[:20], 'model': model_dict(s.model()), 'replay': None})
        else: ob.unknown += 1; ob.notes.append('UNKNOWN ' + label)
    prove('La: dA*2^48 <= (A+1)*ir_l + 2^48', hyp, dA * W <= (A + 1) * irl + W)
    prove('Lb: dL*2^48 >= L*ir_b - TLS - 2^48', hyp, dL * W >= L * irb - TLS - W)
    lend, bor, bdt = z3.Ints('slend sbor sbdt')
    prove('Lc1: S*floor(lend*dt/S) <= lend*dt', [lend >= 0, sdt >= 1], S_YEAR * ((lend * sdt) / S_YEAR) <= lend * sdt)
    prove('Lc2: S*floor(bor*dt/S) >= bor*dt - S + 1', [bor >= 0, sdt >= 1], S_YEAR * ((bor * sdt) / S_YEAR) >= bor * sdt - S_YEAR + 1)
    # ---- combination on abstract variables constrained only by the proved conclusions
    vA, vL, vTLS, vbase, vdt, vlend, vbor, virl, virb, vdA, vdL, vG, vF = z3.Ints('vA vL vTLS vbase vdt vlend vbor virl virb vdA vdL vG vF')
    nonneg = [x >= 0 for x in (vA, vL, vTLS, vbase, vdt, vlend, vbor, virl, virb, vG, vF)] + [vdt >= 1]
    Wc, Sc = W, S_YEAR
    aLa = vdA * Wc <= (vA + 1) * virl + Wc
    aLb = vdL * Wc >= vL * virb - vTLS - Wc
    aLc1 = Sc * virl <= vlend * vdt
    aLc2 = Sc * virb >= vbor * vdt - Sc + 1
    aLc3 = Sc * Wc * vF <= vL * vG * vdt
    aLd1 = vA * vlend <= vbase * vL
    aLd2 = vlend <= vbase
    aLe = vbor >= vbase + vG
    M1 = vdA * Wc * Sc <= (vA + 1) * vlend * vdt + Wc * Sc
    M2 = (vA + 1) * vlend * vdt <= (vbase * vL + vbase) * vdt
    M3 = vdL * Wc * Sc >= vL * vbor * vdt - vL * Sc - vTLS * Sc - Wc * Sc
    M4 = vL * vbor * vdt >= vL * vbase * vdt + vL * vG * vdt
    prove('M1 from La,Lc1', nonneg + [aLa, aLc1], M1)
    prove('M2 from Ld1,Ld2', nonneg + [aLd1, aLd2], M2)
    prove('M3 from Lb,Lc2', nonneg + [aLb, aLc2], M3)
    prove('M4 from Le', nonneg + [aLe], M4)
    FINAL = (vdA + vF) * Wc * Sc <= vdL * Wc * Sc + vL * Sc + vTLS * Sc + 2 * Wc * Sc + vbase * vdt
    prove('FINAL: (dA + fees) <= dL + (L + TLS)/2^48 + 2 + base*dt/(2^48*S)', nonneg + [M1, M2, M3, M4, aLc3], FINAL)
    ob.need_witness()
    return [ob]


def t_accrue(world):
    eng = world.engine(merge=True, opaque=[r'calc_interest_rate_accrual_state_changes', r'create_interest_rate_calculator', r'emit|Event'])
    f = world.fn(r'bank\.rs[^>]*>::accrue_interest$')
    args = [eng.ex.fresh(f.params[0][1], 'bank'), eng.ex.fresh('i64', 'now'), eng.ex.fresh(f.params[2][1], 'group')] + [eng.ex.fresh(ty, 'x%d' % i) for i, (_, ty) in enumerate(f.params[3:])]
    res = eng.run_fn(f, args)
    ob = Ob('C06.d', 'Bank::accrue_interest: same-timestamp call is the identity; last_update := now; empty side only moves last_update; share values / fees come from the accrual kernel',
            [f.name], 'loop-free; merged paths; accrual kernel opaque (decided in C06.a/c)'); ob.paths = len(res)
    now = args[1].e
    lu0 = fsym('bank*', 'Bank', 'last_update')
    FR = ['asset_share_value', 'liability_share_value', 'total_asset_shares', 'total_liability_shares', 'collected_insurance_fees_outstanding',
          'collected_group_fees_outstanding', 'collected_program_fees_outstanding', 'last_update', 'flags', 'config.deposit_limit', 'config.borrow_limit']
    for r, okc in ok_paths(res):
        b1 = r['roots'][0]
        cur = lambda n: ev(fget(eng, b1, 'Bank', n))
        if ob.witness(eng, r, [okc]) is False: continue
        ob.prove(eng, r, [okc, now == lu0], z3.And([cur(n) == fsym('bank*', 'Bank', n) for n in FR]), 'time delta 0 => bank state unchanged (accruing twice at the same time is a no-op)')
        ob.prove(eng, r, [okc], cur('last_update') == now, 'Ok => last_update == now')
        ob.prove(eng, r, [okc], now >= lu0, 'Ok => now >= previous last_update (a negative delta panics: fail closed)')
        tas, asv = fsym('bank*', 'Bank', 'total_asset_shares'), fsym('bank*', 'Bank', 'asset_share_value')
        tls, lsv = fsym('bank*', 'Bank', 'total_liability_shares'), fsym('bank*', 'Bank', 'liability_share_value')
        empty = z3.Or((tas * asv) / W == 0, (tls * lsv) / W == 0)
        ob.prove(eng, r, [okc, empty], z3.And([cur(n) == fsym('bank*', 'Bank', n) for n in FR if n != 'last_update']), 'empty deposits or empty debt => only last_update moves')
        ob.prove(eng, r, [okc], z3.And(cur('total_asset_shares') == tas, cur('total_liability_shares') == tls), 'accrual never changes share counts')
        ob.prove(eng, r, [okc], z3.And(cur('collected_insurance_fees_outstanding') >= fsym('bank*', 'Bank', 'collected_insurance_fees_outstanding'),
                                       cur('collected_group_fees_outstanding') >= fsym('bank*', 'Bank', 'collected_group_fees_outstanding'),
                                       cur('collected_program_fees_outstanding') >= fsym('bank*', 'Bank', 'collected_program_fees_outstanding')), 'fee buckets never decrease on accrual')
        # kernel wiring: the kernel is called with (dt = now - last_update, total assets, total liabilities, calc, asv, lsv)
        ks = calls(r, r'calc_interest_rate_accrual_state_changes')
        if len(ks) > 1: ob.fail('more than one kernel call on a path')
        for k in ks:
            a = k[2]
            ob.prove(eng, r, [okc], z3.And(a[0].e == now - lu0, a[1].e == (tas * asv) / W, a[2].e == (tls * lsv) / W, a[4].e == asv, a[5].e == lsv),
                     'kernel receives (now - last_update, total deposits, total debt, current share values)')
            # ... and what it returns is exactly what is booked: both share values, and each fee bucket grows by its own (positive) fee figure
            out = k[3].payload.get(1, {}).get(0) if isinstance(k[3], EnumV) else None
            if not isinstance(out, StructV): ob.fail('kernel result not visible'); continue
            SC = STRUCTS['InterestRateStateChanges']
            o = lambda n: ev(eng.get_path(out, (('f', SC.index(n), I80),)))
            pos = lambda x: z3.If(x > 0, x, 0)
            b0 = lambda n: fsym('bank*', 'Bank', n)
            ob.prove(eng, r, [okc], z3.And(cur('asset_share_value') == o('new_asset_share_value'), cur('liability_share_value') == o('new_liability_share_value')), 'the new share values are the kernel\'s', role='accrual-booking:share-values')
            ob.prove(eng, r, [okc], z3.And(cur('collected_insurance_fees_outstanding') - b0('collected_insurance_fees_outstanding') == pos(o('insurance_fees_collected')),
                                           cur('collected_group_fees_outstanding') - b0('collected_group_fees_outstanding') == pos(o('group_fees_collected')),
                                           cur('collected_program_fees_outstanding') - b0('collected_program_fees_outstanding') == pos(o('protocol_fees_collected'))),
                     'each fee bucket grows by exactly the kernel\'s figure for THAT bucket (insurance / group / program)', role='accrual-booking:fees')
    ob.need_witness()
    return [ob]


def tasks(tier):
    from specs.flows import flow_task, FLOWS, INTEGRATION_FLOWS
    return [('state_changes', t_state_changes), ('lemma_chain', t_lemma_chain), ('accrue', t_accrue)] + [(f'flow:{n}', flow_task(n, ('C06',))) for n in FLOWS if n not in INTEGRATION_FLOWS]
