"""Shared symbolic executions of the BankAccountWrapper operations (used by C01, C02, C03, C16, C17, C19)."""
import z3
from mirsym.harness import *

# pub wrapper entry points -> (kind, mode)
OPS = {
    'deposit': ('inc', 'DepositOnly'), 'deposit_no_repay': ('inc', 'DepositOnly'), 'repay': ('inc', 'RepayOnly'),
    'deposit_ignore_deposit_cap': ('inc', 'BypassDepositLimit'),
    'withdraw': ('dec', 'WithdrawOnly'), 'borrow': ('dec', 'BorrowOnly'), 'withdraw_ignore_borrow_cap': ('dec', 'BypassBorrowLimit'),
    'withdraw_all': ('all', None), 'repay_all': ('all', None), 'close_balance': ('close', None),
}
EXTRA_OPS = ('claim_emissions', 'settle_emissions_and_get_transfer_amount')

BAL = 'w*.0*'; BANK = 'w*.1*'


class OpRun:
    def __init__(self, world, op, opaque=(), merge=True):
        self.op = op
        self.eng = eng = world.engine(merge=merge, opaque=[r'Clock'] + list(opaque))
        self.f = f = world.fn(r'marginfi_account\.rs[^>]*BankAccountWrapper[^>]*>::%s$|marginfi_account\.rs[^>]*>::%s$' % (op, op))
        self.args = [eng.ex.fresh(f.params[0][1], 'w')] + [eng.ex.fresh(ty, 'x%d' % i) for i, (n, ty) in enumerate(f.params[1:])]
        self.res = eng.run_fn(f, self.args)
        self.paths = len(self.res)
        self.ok = ok_paths(self.res)
        self.err = ok_paths(self.res, 1)
        self.amount = self.args[1].e if len(self.args) > 1 and isinstance(self.args[1], IntV) else None
        # pre-state symbols
        P = self.pre = {}
        for k, (root, sn, fld) in FIELDS.items():
            P[k] = fsym(root, sn, fld)

    def post(self, r, k):
        root, sn, fld = FIELDS[k]
        w = self.eng.deref_val(r['roots'][0])
        tgt = w.fields[0] if root == BAL else w.fields[1]
        return ev(fget(self.eng, tgt, sn, fld))

    def base_hyps(self):
        P = self.pre
        return [P['asv'] > 0, P['lsv'] > 0, P['ash'] >= 0, P['lsh'] >= 0, P['tas'] >= P['ash'], P['tls'] >= P['lsh'],
                P['ins'] >= 0]


FIELDS = {
    'ash': (BAL, 'Balance', 'asset_shares'), 'lsh': (BAL, 'Balance', 'liability_shares'), 'active': (BAL, 'Balance', 'active'),
    'eo': (BAL, 'Balance', 'emissions_outstanding'), 'blu': (BAL, 'Balance', 'last_update'), 'btag': (BAL, 'Balance', 'bank_asset_tag'),
    'bpk': (BAL, 'Balance', 'bank_pk'),
    'asv': (BANK, 'Bank', 'asset_share_value'), 'lsv': (BANK, 'Bank', 'liability_share_value'),
    'tas': (BANK, 'Bank', 'total_asset_shares'), 'tls': (BANK, 'Bank', 'total_liability_shares'),
    'ins': (BANK, 'Bank', 'collected_insurance_fees_outstanding'), 'grp': (BANK, 'Bank', 'collected_group_fees_outstanding'),
    'prg': (BANK, 'Bank', 'collected_program_fees_outstanding'),
    'dlim': (BANK, 'Bank', 'config.deposit_limit'), 'blim': (BANK, 'Bank', 'config.borrow_limit'),
    'atag': (BANK, 'Bank', 'config.asset_tag'), 'dec': (BANK, 'Bank', 'mint_decimals'), 'flags': (BANK, 'Bank', 'flags'),
    'erate': (BANK, 'Bank', 'emissions_rate'), 'erem': (BANK, 'Bank', 'emissions_remaining'),
    'lpc': (BANK, 'Bank', 'lending_position_count'), 'bpc': (BANK, 'Bank', 'borrowing_position_count'),
    'opstate': (BANK, 'Bank', 'config.operational_state'), 'blast': (BANK, 'Bank', 'last_update'),
}

ZAT = 28147497671   # ZERO_AMOUNT_THRESHOLD bits (0.0001); cross-checked against the type crate MIR in C02
EMPTY = W           # EMPTY_BALANCE_THRESHOLD = 1 share


def fmul(a, b):
    return (a * b) / W


# ---------------------------------------------------------------- goals over placeholders, native replay, translation validation
import random
Q = {k: z3.Int('post.' + k) for k in FIELDS}
RET = z3.Int('post.ret')
AMT = z3.Int('x0')
CLOCK = z3.Int('clock.unix_timestamp')


def _binds(R, r, goal_and_hyps):
    names = set()
    for g in goal_and_hyps:
        names |= set(free_consts(g))
    b = []
    for k in FIELDS:
        if 'post.' + k in names:
            b.append(Q[k] == R.post(r, k))
    if 'post.ret' in names:
        rv = r['ret'].payload[0][0]
        b.append(RET == rv.e)
    return b


def wprove(ob, R, r, hyps, goal, label, role=None, timeout=30000):
    """prove goal (over pre symbols P, post placeholders Q, RET, AMT) on path r; CEX are replayed natively"""
    b = _binds(R, r, [goal] + list(hyps))
    return ob.prove(R.eng, r, list(hyps) + b, goal, label, role=role, timeout=timeout,
                    replay={'kind': 'wrapper', 'op': R.op, 'goal': goal.sexpr(), 'hyps': [h.sexpr() for h in hyps if not free_consts(h).keys() - KNOWN_NAMES]})


KNOWN_NAMES = set()


def _init_known():
    for k, (root, sn, fld) in FIELDS.items():
        KNOWN_NAMES.add(fsym(root, sn, fld).decl().name()); KNOWN_NAMES.add('post.' + k)
    KNOWN_NAMES.update(['post.ret', 'x0', 'clock.unix_timestamp'])


_init_known()


def request_from_env(op, env):
    bank = {}; bal = {}
    for k, (root, sn, fld) in FIELDS.items():
        n = fsym(root, sn, fld).decl().name()
        v = env.get(n, 0)
        (bank if root == BANK else bal)[fld] = str(int(v))
    req = {'fn': 'wrapper_op', 'op': op, 'bank': bank, 'balance': bal, 'clock': str(int(env.get('clock.unix_timestamp', 0)))}
    if 'x0' in env: req['amount'] = str(int(env['x0']))
    if op == 'claim_emissions': req['now'] = req.get('amount', '0')     # the operation's argument is the current timestamp
    return req


def env_after(env, out):
    """extend env with native post values"""
    e = dict(env)
    for k, (root, sn, fld) in FIELDS.items():
        src = out['bank'] if root == BANK else out['balance']
        if fld in src: e['post.' + k] = int(src[fld])
        elif k == 'bpk': e['post.bpk'] = env.get(fsym(root, sn, fld).decl().name(), 0) if out['balance'].get('active') == '1' else 0
    if out.get('ret') is not None and not isinstance(out.get('ret'), bool):
        e['post.ret'] = int(out['ret'])
    return e


def replay_wrapper(model, spec):
    """native replay of a wrapper counterexample: (reproduced?, detail)"""
    env = {k: v for k, v in model.items() if isinstance(v, (int, bool))}
    req = request_from_env(spec['op'], env)
    out = native([req])[0]
    detail = {'request': req, 'native': out}
    if out.get('panic') or not out.get('ok'):
        detail['verdict'] = 'native call did not return Ok for the model inputs (encoding/native mismatch)'
        return False, detail
    e2 = env_after(env, out)
    # encoder agreement: the model's post.* must equal the native outputs
    mism = {k: (model[k], e2[k]) for k in model if k.startswith('post.') and k in e2 and int(model[k]) != int(e2[k])}
    detail['encoder_mismatch'] = mism
    ctx = z3.main_ctx()
    decls = {n: z3.Int(n) for n in KNOWN_NAMES}
    goal = z3.parse_smt2_string(f'(assert {spec["goal"]})', decls=decls)[0]
    gv = subst_eval(goal, e2)
    detail['goal_on_native_outputs'] = gv
    if mism:
        detail['verdict'] = 'native outputs differ from the encoding prediction'
        return False, detail
    hv = []
    for h in spec.get('hyps', []):
        hv.append(subst_eval(z3.parse_smt2_string(f'(assert {h})', decls=decls)[0], e2))
    detail['hyps_on_native'] = hv
    ok = (gv is False) and all(x is True for x in hv)
    detail['verdict'] = 'property violated on the real code with these inputs' if ok else 'goal not falsified natively'
    return ok, detail


def rand_bits(rng, kind):
    c = rng.random()
    if kind == 'sv':      # share value around 1.0 .. 2^6
        return rng.choice([W, W + 1, W + rng.randrange(1, W), rng.randrange(1, 64) * W + rng.randrange(W), rng.randrange(W // 2, W)])
    if kind == 'shares':
        return rng.choice([0, 1, rng.randrange(W), W, rng.randrange(1, 1 << 20) * W + rng.randrange(W), rng.randrange(1, 1 << 50) * W + rng.randrange(W), rng.randrange(1 << 110)])
    if kind == 'amount':
        return rng.choice([0, W, rng.randrange(1, 1 << 20) * W, rng.randrange(1, 1 << 63) * W, rng.randrange(1, 1 << 40) * W])
    if kind == 'u64':
        return rng.choice([0, 1, U64_MAX, rng.randrange(1 << 63), rng.randrange(1 << 30)])
    return 0


def tv_wrapper(R, n, seed):
    """translation validation: n seeded inputs through the real function and through the encoding"""
    import zlib
    rng = random.Random(seed * 7919 + zlib.crc32(R.op.encode()) % 1000)
    envs = []
    for i in range(n):
        P = {}
        asv = rand_bits(rng, 'sv'); lsv = rand_bits(rng, 'sv')
        ash = rand_bits(rng, 'shares'); lsh = 0 if rng.random() < .5 else rand_bits(rng, 'shares')
        if rng.random() < .5 and lsh: ash = rng.choice([0, rng.randrange(W)])
        tas = ash + rand_bits(rng, 'shares'); tls = lsh + rand_bits(rng, 'shares')
        vals = {'asv': asv, 'lsv': lsv, 'ash': ash, 'lsh': lsh, 'tas': tas, 'tls': tls, 'active': 1,
                'eo': rng.choice([0, rng.randrange(W), rng.randrange(1 << 60)]), 'blu': rng.choice([0, 1700000000, 1790000000]),
                'btag': 0, 'bpk': 7, 'ins': rng.randrange(1 << 60), 'grp': 0, 'prg': 0,
                'dlim': rng.choice([0, U64_MAX, rng.randrange(1, 1 << 62)]), 'blim': rng.choice([0, U64_MAX, rng.randrange(1, 1 << 62)]),
                'atag': rng.choice([0, 0, 1, 2, 3, 4, 5]), 'dec': rng.choice([0, 6, 9, 12]), 'flags': rng.choice([0, 1, 2, 3, 16]),
                'erate': rng.choice([0, 1000000]), 'erem': rng.choice([0, rng.randrange(1 << 80)]),
                'lpc': rng.randrange(100), 'bpc': rng.randrange(100), 'opstate': 1, 'blast': 1790000000}
        env = {fsym(*FIELDS[k]).decl().name(): v for k, v in vals.items()}
        env['clock.unix_timestamp'] = rng.choice([1790000000, 1790003600, 1800000000])
        if R.amount is not None:
            env['x0'] = rand_bits(rng, 'amount') if rng.random() < .7 else fmul_i(rng.choice([ash, lsh]), rng.choice([asv, lsv]))
        envs.append(env)
    outs = native([request_from_env(R.op, e) for e in envs])
    agree = 0; dis = []; n_ok = 0
    for env, out in zip(envs, outs):
        # evaluate the encoding
        enc_ok = None; enc_r = None
        for r in R.res:
            if r['status'] != 'return': continue
            pcv = subst_eval(z3.And(r['pc']) if r['pc'] else z3.BoolVal(True), env)
            if pcv is True:
                enc_r = r; break
            if pcv is None:
                enc_ok = 'noneval'
        nat_ok = bool(out.get('ok')) and not out.get('panic')
        if enc_r is None:
            if out.get('panic') and enc_ok != 'noneval': agree += 1
            else: dis.append({'env': env, 'native': out, 'enc': 'no feasible returned path' if enc_ok != 'noneval' else 'path condition not evaluable'})
            continue
        d = subst_eval(zint(enc_r['ret'].disc), env)
        if d is None: dis.append({'env': env, 'native': out, 'enc': 'disc not evaluable'}); continue
        if (d == 0) != nat_ok:
            dis.append({'env': env, 'native': out, 'enc_ok': d == 0}); continue
        if d == 0:
            n_ok += 1
            e2 = env_after(env, out); bad = {}
            for k in FIELDS:
                if 'post.' + k not in e2: continue
                pv = subst_eval(R.post(enc_r, k), env)
                if pv is None or int(pv) != int(e2['post.' + k]): bad[k] = (pv, e2['post.' + k])
            if 'post.ret' in e2:
                pv = subst_eval(enc_r['ret'].payload[0][0].e, env)
                if pv is None or int(pv) != e2['post.ret']: bad['ret'] = (pv, e2['post.ret'])
            if bad: dis.append({'env': env, 'native': out, 'mismatch': bad}); continue
        agree += 1
    return {'op': R.op, 'inputs': n, 'agree': agree, 'native_ok': n_ok, 'disagreements': dis[:3], 'n_disagree': len(dis)}


def fmul_i(a, b):
    return (a * b) >> 48


# ---------------------------------------------------------------- the wrapper obligations, grouped by property
def AV(sh, P): return fmul(sh, P['asv'])
def LV(sh, P): return fmul(sh, P['lsv'])


def equity_delta(P):
    """ΔE of the bank's book equity (deposits − loans + uncollected fees), in I80F48 bits, over placeholders"""
    return (AV(Q['tas'], P) - AV(P['tas'], P)) - (LV(Q['tls'], P) - LV(P['tls'], P)) + (Q['ins'] - P['ins']) + (Q['grp'] - P['grp']) + (Q['prg'] - P['prg'])


def position_delta(P):
    """Δ(net position value) = Δ asset value − Δ liability value of the user's position"""
    return (AV(Q['ash'], P) - AV(P['ash'], P)) - (LV(Q['lsh'], P) - LV(P['lsh'], P))


DRIFT_TAG = 4


def goals_for(op, P, props):
    """list of (property, oid-suffix, label, role, extra_hyps, goal)"""
    kind, mode = OPS[op]
    G = []
    eps = P['asv'] / W + P['lsv'] / W + 4
    if kind == 'inc':
        G.append(('C03', 'b', f'{op}: value credited to the position <= amount paid in + 2 ulps', 'credit<=paid', [AMT >= 0], position_delta(P) <= AMT + 2))
        G.append(('C01', 'a', f'{op}: bank book equity rises by at most the amount received + 2 ulps', 'equity<=in', [AMT >= 0], equity_delta(P) <= AMT + 2))
        if mode in ('DepositOnly', 'RepayOnly'):
            G.append(('C16', 'c', f'{op}: never leaves a non-dust deposit and a non-dust debt in the same position', 'one-sided',
                      [AMT >= 0, z3.Not(z3.And(AV(P['ash'], P) >= ZAT, LV(P['lsh'], P) >= ZAT))],
                      z3.Not(z3.And(AV(Q['ash'], P) >= 2 * ZAT, LV(Q['lsh'], P) >= 2 * ZAT))))
        if mode == 'DepositOnly':
            G.append(('C16', 'c', f'{op}: a deposit never repays more than dust of a liability', 'deposit-no-repay', [AMT >= 0],
                      LV(P['lsh'], P) - LV(Q['lsh'], P) <= ZAT + 1))
            G.append(('C17', 'a', f'{op}: after a successful deposit that adds shares, total deposits < deposit limit (non-Drift banks)', 'deposit-cap',
                      [AMT >= 0, Q['tas'] > P['tas'], P['dlim'] != U64_MAX, P['atag'] != DRIFT_TAG], AV(Q['tas'], P) < P['dlim'] * W))
        if mode == 'RepayOnly':
            G.append(('C16', 'c', f'{op}: a repay never creates more than dust of a deposit', 'repay-no-deposit', [AMT >= 0],
                      AV(Q['ash'], P) - AV(P['ash'], P) <= ZAT + 1))
            G.append(('C05', 'd', f'{op}: RepayOnly cannot flip a debt into a deposit', 'repay-no-flip', [AMT >= 0], Q['ash'] - P['ash'] <= fdiv_i(ZAT, P['asv']) + 1))
    if kind == 'dec':
        G.append(('C03', 'a', f'{op}: value removed from the position >= amount paid out − (asv+lsv)/2^48 − 4 ulps', 'debit>=paid', [AMT >= 0], -position_delta(P) >= AMT - eps))
        G.append(('C01', 'a', f'{op}: bank book equity falls by at least the amount paid out − eps', 'equity>=out', [AMT >= 0], -equity_delta(P) >= AMT - eps))
        if mode != 'BypassBorrowLimit':
            G.append(('C17', 'c', f'{op}: total deposits >= total debt afterwards', 'utilization', [AMT >= 0], AV(Q['tas'], P) >= LV(Q['tls'], P)))
            G.append(('C16', 'c', f'{op}: never leaves a non-dust deposit and a non-dust debt in the same position', 'one-sided',
                      [AMT >= 0, z3.Not(z3.And(AV(P['ash'], P) >= ZAT, LV(P['lsh'], P) >= ZAT))],
                      z3.Not(z3.And(AV(Q['ash'], P) >= 2 * ZAT, LV(Q['lsh'], P) >= 2 * ZAT))))
        if mode == 'BorrowOnly':
            G.append(('C17', 'a', f'{op}: after a successful borrow that adds debt shares, total debt < borrow limit', 'borrow-cap',
                      [AMT >= 0, Q['tls'] > P['tls'], P['blim'] != U64_MAX], LV(Q['tls'], P) < P['blim'] * W))
        if mode == 'WithdrawOnly':
            G.append(('C16', 'c', f'{op}: a withdraw never creates more than dust of a debt', 'withdraw-no-borrow', [AMT >= 0], LV(Q['lsh'], P) - LV(P['lsh'], P) <= ZAT + 1))
    # the four legs of a liquidation (C05): what the wrappers in their liquidation modes guarantee
    if mode == 'BypassBorrowLimit':
        G.append(('C05', 'f', f'{op}: seizing / paying no more than the position\'s deposit never creates a debt (collateral cannot flip into a liability)', 'seize-no-debt',
                  [AMT >= 0, AMT <= AV(P['ash'], P)], z3.And(Q['lsh'] == P['lsh'], Q['tls'] == P['tls'])))
        G.append(('C05', 'f', f'{op}: the position is debited at least the amount taken − eps (liquidator pays / liquidatee loses what is booked)', 'debit>=paid', [AMT >= 0], -position_delta(P) >= AMT - eps))
        G.append(('C05', 'f', f'{op}: the position is debited at most the amount taken + eps (never more than the computed seizure)', 'debit<=paid', [AMT >= 0], -position_delta(P) <= AMT + eps))
    if mode == 'BypassDepositLimit':
        G.append(('C05', 'f', f'{op}: the liquidator is credited at most the collateral seized + 2 ulps', 'credit<=paid', [AMT >= 0], position_delta(P) <= AMT + 2))
        G.append(('C05', 'f', f'{op}: the liquidator is credited at least the collateral seized − eps', 'credit>=paid', [AMT >= 0], position_delta(P) >= AMT - eps))
    if mode == 'RepayOnly':
        G.append(('C05', 'f', f'{op}: the liquidatee\'s debt falls by at most the amount repaid + 2 ulps and at least the amount − eps', 'repay-exact', [AMT >= 0],
                  z3.And(position_delta(P) <= AMT + 2, position_delta(P) >= AMT - eps)))
    if op == 'withdraw_all':
        val = AV(P['ash'], P)
        G.append(('C03', 'c', 'withdraw_all pays out exactly floor(position value) (rounded against the user)', 'payout=floor', [], RET * W == (val / W) * W))
        G.append(('C03', 'c', 'withdraw_all: payout <= position value', 'payout<=value', [], RET * W <= val))
        G.append(('C01', 'a', 'withdraw_all: sub-unit dust is booked to outstanding insurance fees', 'dust-booked', [], Q['ins'] == P['ins'] + (val - RET * W)))
        G.append(('C01', 'a', 'withdraw_all: book equity falls by at least the tokens paid out', 'equity>=out', [], -equity_delta(P) >= RET * W))
        G.append(('C17', 'c', 'withdraw_all: total deposits >= total debt afterwards', 'utilization', [], AV(Q['tas'], P) >= LV(Q['tls'], P)))
        G.append(('C16', 'c', 'withdraw_all: position slot is cleared', 'closed', [], z3.And(Q['ash'] == 0, Q['lsh'] == 0, Q['active'] == 0)))
    if op == 'repay_all':
        val = LV(P['lsh'], P)
        G.append(('C03', 'c', 'repay_all charges exactly ceil(debt value) (rounded against the user)', 'charge=ceil', [], z3.And(RET * W >= val, RET * W < val + W)))
        G.append(('C01', 'a', 'repay_all: rounding surplus is booked to outstanding insurance fees', 'dust-booked', [], Q['ins'] == P['ins'] + (RET * W - val)))
        G.append(('C01', 'a', 'repay_all: book equity rises by at most the tokens received + 1 ulp', 'equity<=in', [], equity_delta(P) <= RET * W + 1))
        G.append(('C16', 'c', 'repay_all: position slot is cleared', 'closed', [], z3.And(Q['ash'] == 0, Q['lsh'] == 0, Q['active'] == 0)))
    if op == 'close_balance':
        T = 28147497671          # ZERO_AMOUNT_THRESHOLD = 0.0001 native units in I80F48 bits: what a close may abandon (0.0001 of the smallest unit, nothing a user could repay)
        G.append(('C03', 'g', 'close_balance: Ok => the debt written off with the slot is below 0.0001 native units (no residual debt is erased unpaid)', 'close-debt', [], LV(P['lsh'], P) < T))
        G.append(('C03', 'g', 'close_balance: Ok => the deposit abandoned with the slot is below 0.0001 native units', 'close-asset', [], AV(P['ash'], P) < T))
    return [g for g in G if g[0] in props]


def fdiv_i(a, b):
    return (a * W) / b


def wrapper_task(op, prop, tv_n=40):
    def task(world):
        R = OpRun(world, op)
        P = R.pre
        obs = {}
        gl = goals_for(op, P, (prop,))
        if not gl: return []
        for r, okc in R.ok:
            for (pp, sub, label, role, xh, goal) in gl:
                oid = f'{pp}.{sub}.{op}'
                ob = obs.get(oid)
                if ob is None:
                    ob = obs[oid] = Ob(oid, label.split(':')[0] + ': wrapper arithmetic obligations', [R.f.name], 'loop-free; state-merged paths; all i128/u64 values (share values > 0, shares >= 0, position <= bank total)')
                    ob.paths = R.paths
                h = R.base_hyps() + [okc] + list(xh)
                w = ob.witness(R.eng, r, h + _binds(R, r, h))
                if w is False: continue
                wprove(ob, R, r, h, goal, label, role=role)
        for ob in obs.values(): ob.need_witness()
        # translation validation of this op's encoding against the real code (sampling: validates the encoder only)
        tv = tv_wrapper(R, tv_n, int(os.environ.get('VERIF_SEED', '0') or 0))
        first = next(iter(obs.values()))
        if tv['n_disagree']:
            # an encoder defect is deterministic; a disagreement that does not survive a fresh exploration + fresh native run was an artefact of the run
            # (observed once on a heavily loaded machine) and must not turn a clean tree into exit 2
            tv2 = tv_wrapper(OpRun(world, op), tv_n, int(os.environ.get('VERIF_SEED', '0') or 0))
            first.notes.append(f"translation validation {op}: first attempt had {tv['n_disagree']} disagreements, repeated on a fresh exploration: {tv2['n_disagree']} disagreements")
            tv = tv2
        first.notes.append(f"translation validation {op}: {tv['agree']}/{tv['inputs']} inputs agree with the native function ({tv['native_ok']} native Ok)")
        if tv['n_disagree']:
            json.dump(tv['disagreements'], open(f'/verif/.cache/tv_disagreement_{op}.json', 'w'), default=str)
            first.fail(f"encoder/native disagreement on {tv['n_disagree']} inputs: {json.dumps(tv['disagreements'][:1], default=str)[:600]}")
        return list(obs.values())
    return task


OpPre = {k: fsym(*v) for k, v in FIELDS.items()}
