"""C20 — Integration exchange-rate math never overstates value and fails closed."""
import z3
from mirsym.harness import *

WORLD = ('marginfi', 'typecrate', 'drift', 'kamino', 'solend')
ASSUMPTIONS = ['exchange ratios / supplies non-negative (they are unsigned quantities converted to I80F48)',
               'Drift: decimals 0..=19 enumerated concretely; cumulative interest any u128']
I64 = INT_RANGES['i64']; U64 = INT_RANGES['u64']


def run_tc(world, name_re, names, crate='typecrate', opaque=()):
    eng = world.engine(primary=crate, extra=('typecrate',), opaque=opaque)
    f = world.fn(name_re, crate)
    args = [eng.ex.fresh(ty, n) for n, (_, ty) in zip(names, f.params)]
    res = eng.run_fn(f, args)
    return eng, f, args, res


def some_paths(res):
    """(r, cond_some, value) for Option-returning functions"""
    out = []
    for r in returned(res):
        v = r['ret']
        c = z3.simplify(disc_is(v, 1))
        val = v.payload.get(1, {}).get(0)
        out.append((r, c, val))
    return out


def t_adjust(world):
    obs = []
    for fname, ty in (('adjust_u64', 'u64'), ('adjust_i64', 'i64'), ('adjust_i128', 'i128')):
        eng, f, args, res = run_tc(world, r'(^|::)%s$' % fname, ['raw', 'ratio'])
        ob = Ob(f'C20.a.{fname}', f'{fname}: Some(y) => y = floor(raw*ratio) exactly, in range, y <= raw*ratio; None only on overflow; monotone',
                [f.name], 'loop-free; all raw values of the type, all ratio >= 0 (i128 bits)'); ob.paths = len(res)
        raw, ratio = args[0].e, args[1].e
        lo, hi = INT_RANGES[ty]
        exact = (raw * ratio) / W   # floor of the exact product, in integer units
        for r, some, y in some_paths(res):
            h = [ratio >= 0]
            if y is not None and ob.witness(eng, r, h + [some]) is not False:
                ob.prove(eng, r, h + [some], y.e == exact, 'Some(y) => y == floor(raw*ratio/2^48)')
                ob.prove(eng, r, h + [some], z3.And(y.e >= lo, y.e <= hi), 'Some(y) => y within the return type (no wrapped value)')
                ob.prove(eng, r, h + [some], y.e * W <= raw * ratio, 'Some(y) => y never exceeds raw times the exact ratio')
            # None only when the exact result does not fit (or the fixed-point product overflows i128)
            none = z3.Not(some)
            fits = z3.And(exact >= lo, exact <= hi, raw * ratio >= I128_MIN, raw * ratio <= I128_MAX, raw * W >= I128_MIN, raw * W <= I128_MAX)
            ob.prove(eng, r, h + [none], z3.Not(fits), 'None => the result does not fit (overflow), never a silent wrap')
        ob.need_witness()
        # monotone in raw and ratio: two executions side by side
        eng2, f2, args2, res2 = run_tc(world, r'(^|::)%s$' % fname, ['raw2', 'ratio2'])
        for r1, s1, y1 in some_paths(res):
            for r2, s2, y2 in some_paths(res2):
                if y1 is None or y2 is None: continue
                s = z3.Solver(); s.set('timeout', 30000)
                for a in eng.ex.assumptions + eng2.ex.assumptions: s.add(a)
                for c in r1['pc'] + r2['pc']: s.add(c)
                s.add(s1, s2, ratio >= 0, args2[1].e >= ratio, args2[0].e >= raw, raw >= 0)
                s.add(z3.Not(y2.e >= y1.e))
                t = time.time(); rr = s.check(); ob.solver_s += time.time() - t; ob.queries += 1
                if rr == z3.unsat: ob.unsat += 1
                elif rr == z3.sat: ob.sat += 1; ob.cex.append({'ob': ob.oid, 'label': 'monotone in raw and ratio', 'role': 'monotone', 'model': model_dict(s.model()), 'replay': None})
                else: ob.unknown += 1; ob.notes.append('UNKNOWN monotone')
        obs.append(ob)
    return obs


def t_i80_from_i128(world):
    eng, f, args, res = run_tc(world, r'(^|::)i80_from_i128_checked$', ['x'])
    ob = Ob('C20.a.i80_from_i128_checked', 'Some(v) => v.bits == x*2^48 exactly; None iff x*2^48 does not fit i128', [f.name], 'loop-free; all i128'); ob.paths = len(res)
    x = args[0].e
    for r, some, y in some_paths(res):
        if y is not None and ob.witness(eng, r, [some]) is not False:
            ob.prove(eng, r, [some], y.e == x * W, 'Some => bits == x << 48 without wrap')
        ob.prove(eng, r, [z3.Not(some)], z3.Or(x * W > I128_MAX, x * W < I128_MIN), 'None => out of range')
    ob.need_witness()
    return [ob]


def t_scaled(world):
    obs = []
    runs = {}
    for fname in ('collateral_to_liquidity_from_scaled', 'liquidity_to_collateral_from_scaled'):
        tag = 'c2l' if fname.startswith('coll') else 'l2c'
        eng, f, args, res = run_tc(world, r'(^|::)%s$' % fname, [tag + '_x', tag + '_tl', tag + '_tc'])
        runs[tag] = (eng, f, args, res)
        ob = Ob(f'C20.a.{tag}', f'{fname}: Some(y) => y*den <= x*num (never rounds in the user\'s favour), fits u64; None on zero divisor',
                [f.name], 'loop-free; all u64 amounts, all supplies in [0, i128 max] bits'); ob.paths = len(res)
        x, tl, tc = [a.e for a in args]
        num, den = (tl, tc) if tag == 'c2l' else (tc, tl)
        for r, some, y in some_paths(res):
            h = [tl >= 0, tc >= 0]
            if y is not None and ob.witness(eng, r, h + [some]) is not False:
                ob.prove(eng, r, h + [some], y.e * den <= x * num, 'Some(y) => y <= x*num/den exactly (rounded down)')
                ob.prove(eng, r, h + [some], z3.And(y.e >= 0, y.e <= U64_MAX), 'Some(y) fits u64')
                ob.prove(eng, r, h + [some], den != 0, 'Some => divisor non-zero')
                ob.prove(eng, r, h + [some], (y.e + 1) * den + den / W + 1 > x * num, 'Some(y) => result is tight (y+1 would overshoot, up to 1 ulp of the quotient)')
            ob.prove(eng, r, h + [den == 0], z3.Not(some), 'zero divisor => None')
        ob.need_witness()
        obs.append(ob)
    # round trips
    for first, second in (('l2c', 'c2l'), ('c2l', 'l2c')):
        e1, f1, a1, r1s = runs[first]; e2, f2, a2, r2s = runs[second]
        ob = Ob(f'C20.a.roundtrip.{first}-{second}', f'{second}({first}(x)) <= x at the same supplies (deposit-then-withdraw never yields more)',
                [f1.name, f2.name], 'loop-free; sequential composition of the two encodings; supplies > 0')
        for r1, s1, y1 in some_paths(r1s):
            for r2, s2, y2 in some_paths(r2s):
                if y1 is None or y2 is None: continue
                s = z3.Solver(); s.set('timeout', 60000)
                for a in e1.ex.assumptions + e2.ex.assumptions: s.add(a)
                for c in r1['pc'] + r2['pc']: s.add(c)
                s.add(s1, s2, a1[1].e > 0, a1[2].e > 0, a2[1].e == a1[1].e, a2[2].e == a1[2].e, a2[0].e == y1.e)
                ob.queries += 1
                if s.check() == z3.sat: ob.witness_sat += 1
                s.add(z3.Not(y2.e <= a1[0].e))
                t = time.time(); rr = s.check(); ob.solver_s += time.time() - t; ob.queries += 1
                if rr == z3.unsat: ob.unsat += 1
                elif rr == z3.sat: ob.sat += 1; ob.cex.append({'ob': ob.oid, 'label': 'round trip', 'role': 'roundtrip', 'model': model_dict(s.model()), 'replay': None})
                else: ob.unknown += 1; ob.notes.append('UNKNOWN roundtrip')
        ob.need_witness()
        obs.append(ob)
    return obs


def t_ratio(world):
    obs = []
    for fname, num_i, den_i in (('liq_to_col_ratio', 0, 1), ('col_to_liq_ratio', 1, 0)):
        eng, f, args, res = run_tc(world, r'(^|::)%s$' % fname, ['tl', 'tc'])
        ob = Ob(f'C20.a.{fname}', f'{fname}: Some(r) => r = trunc(num/den) <= exact ratio; zero divisor => None', [f.name], 'loop-free; supplies >= 0'); ob.paths = len(res)
        num, den = args[num_i].e, args[den_i].e
        for r, some, y in some_paths(res):
            h = [num >= 0, den >= 0]
            if y is not None and ob.witness(eng, r, h + [some]) is not False:
                ob.prove(eng, r, h + [some], z3.And(y.e * den <= num * W, (y.e + 1) * den > num * W), 'Some(r) => r == floor(num*2^48/den)')
            ob.prove(eng, r, h + [den == 0], z3.Not(some), 'zero divisor => None')
        ob.need_witness(); obs.append(ob)
    return obs


def tasks(tier):
    return [('adjust', t_adjust), ('i80_from_i128', t_i80_from_i128), ('scaled', t_scaled), ('ratio', t_ratio)]


# ---------------------------------------------------------------- Drift (u128 checked arithmetic)
def run_drift(world, fname, argnames, selfname='mkt'):
    eng = world.engine(primary='drift', extra=('typecrate',))
    f = world.fn(r'MinimalSpotMarket[^:]*>::%s$|state::<impl at [^>]*>::%s$' % (fname, fname), 'drift')
    args = [eng.ex.fresh(f.params[0][1], selfname)] + [eng.ex.fresh(ty, n) for n, (_, ty) in zip(argnames, f.params[1:])]
    res = eng.run_fn(f, args)
    return eng, f, args, res


def _pair_queries(ob, e1, e2, r1s, r2s, link, hyps, goal_fn, label, need=(0, 0)):
    """goal over all pairs of paths of two executions sharing `self` (same symbols)"""
    for r1, c1 in ok_paths(r1s, need[0]):
        for r2, c2 in ok_paths(r2s, need[1]):
            s = z3.Solver(); s.set('timeout', 60000)
            for a in e1.ex.assumptions + e2.ex.assumptions: s.add(a)
            for c in r1['pc'] + r2['pc']: s.add(c)
            s.add(c1, c2); s.add(*hyps); s.add(*link(r1, r2))
            ob.queries += 1
            w = s.check()
            if w == z3.unsat: continue
            if w == z3.sat: ob.witness_sat += 1
            s.add(z3.Not(goal_fn(r1, r2)))
            t = time.time(); rr = s.check(); ob.solver_s += time.time() - t; ob.queries += 1
            if rr == z3.unsat: ob.unsat += 1
            elif rr == z3.sat: ob.sat += 1; ob.cex.append({'ob': ob.oid, 'label': label, 'role': label, 'model': model_dict(s.model()), 'replay': None})
            else: ob.unknown += 1; ob.notes.append('UNKNOWN ' + label)


def t_drift(world):
    obs = []
    ei, fi, ai, ri = run_drift(world, 'get_scaled_balance_increment', ['amt'])
    ed, fd, ad, rd = run_drift(world, 'get_scaled_balance_decrement', ['amt'])
    ew, fw, aw, rw = run_drift(world, 'get_withdraw_token_amount', ['sb'])
    val = lambda r: r['ret'].payload[0][0].e
    ob = Ob('C20.c.drift-inc-dec', 'Drift: decrement(a) >= increment(a), = increment+1 unless 0 (a withdrawal burns at least what a deposit mints)',
            [fi.name, fd.name], 'loop-free; all u64 amounts, all u128 cumulative interest, decimals 0..=19 (symbolic index into EXP_10)')
    ob.paths = len(ri) + len(rd)
    _pair_queries(ob, ei, ed, ri, rd, lambda a, b: [], [], lambda a, b: z3.And(val(b) >= val(a), z3.If(val(a) == 0, val(b) == 0, val(b) == val(a) + 1)), 'dec>=inc')
    ob.need_witness(); obs.append(ob)
    ob = Ob('C20.c.drift-roundtrip', 'Drift: withdraw_amount(increment(a)) <= a (deposit then withdraw never yields more)', [fi.name, fw.name],
            'loop-free; sequential composition; all u64 / u128')
    _pair_queries(ob, ei, ew, ri, rw, lambda a, b: [aw[1].e == val(a)], [], lambda a, b: val(b) <= ai[1].e, 'roundtrip')
    ob.need_witness(); obs.append(ob)
    PREC = 10 ** 10   # SPOT_CUMULATIVE_INTEREST_PRECISION (cross-checked below)
    for fname, ty in (('adjust_u64', 'u64'), ('adjust_i64', 'i64'), ('adjust_i128', 'i128')):
        e, f, a, res = run_drift(world, fname, ['raw'])
        ob = Ob(f'C20.c.drift-{fname}', f'Drift {fname}: Ok(y) => y = floor(raw*cum_interest/precision) exactly and fits; negative raw => Err; never wraps', [f.name], 'loop-free; all inputs')
        ob.paths = len(res)
        raw = a[1].e; ci = z3.Int('mkt*.%d.le' % STRUCTS['MinimalSpotMarket'].index('cumulative_deposit_interest'))
        lo, hi = INT_RANGES[ty]
        for r, okc in ok_paths(res):
            if ob.witness(e, r, [okc]) is False: continue
            y = r['ret'].payload[0][0].e
            ob.prove(e, r, [okc], z3.And(raw >= 0, y >= lo, y <= hi), 'Ok => raw >= 0 and result fits')
            ob.prove(e, r, [okc], z3.And(y * PREC <= raw * ci, (y + 1) * PREC > raw * ci), 'Ok(y) => y == floor(raw*ci/PRECISION)')
        for r, errc in ok_paths(res, 1):
            ob.prove(e, r, [errc, raw >= 0], z3.Or(raw * ci > 2**128 - 1, (raw * ci) / PREC > hi), 'Err on non-negative raw only on overflow')
        ob.need_witness(); obs.append(ob)
    e, f, a, res = run_drift(world, 'is_stale', ['now'])
    ob = Ob('C20.c.drift-is_stale', 'Drift market is stale iff last_interest_ts < now', [f.name], 'loop-free'); ob.paths = len(res)
    ts = z3.Int('mkt*.%d' % STRUCTS['MinimalSpotMarket'].index('last_interest_ts'))
    for r in returned(res):
        if ob.witness(e, r, []) is False: continue
        ob.prove(e, r, [ts <= 2**63 - 1], r['ret'].e == (ts < a[1].e), 'stale <=> last_interest_ts < now')
    ob.need_witness(); obs.append(ob)
    return obs


_t0 = tasks
def tasks(tier):
    return _t0(tier) + [('drift', t_drift)]


# ---------------------------------------------------------------- Kamino / Solend (own MIR of the mocks crates)
def t_kamino_solend(world):
    obs = []
    # Kamino is_stale
    eng = world.engine(primary='kamino', extra=('typecrate',))
    f = world.fn(r'MinimalReserve[^:]*>::is_stale$|state::<impl at [^>]*>::is_stale$', 'kamino')
    args = [eng.ex.fresh(f.params[0][1], 'rsv'), eng.ex.fresh('u64', 'cur_slot')]
    res = eng.run_fn(f, args)
    ob = Ob('C20.b.kamino-is_stale', 'Kamino reserve is stale iff its last-update slot < current slot', [f.name], 'loop-free'); ob.paths = len(res)
    slot = fsym('rsv*', 'MinimalReserve', 'slot')
    for r in returned(res):
        if ob.witness(eng, r, []) is False: continue
        ob.prove(eng, r, [], r['ret'].e == (slot < args[1].e), 'stale <=> slot < current_slot')
    ob.need_witness(); obs.append(ob)
    # u68f60_to_i80f48
    eng = world.engine(primary='kamino', extra=('typecrate',))
    f = world.fn(r'(^|::)u68f60_to_i80f48$', 'kamino')
    a = eng.ex.fresh(f.params[0][1], 'bits')
    res = eng.run_fn(f, [a])
    ob = Ob('C20.b.u68f60', 'u68f60_to_i80f48: result = floor(raw / 2^12) (never above the exact value, never negative)', [f.name], 'loop-free; all u128'); ob.paths = len(res)
    raw = z3.Int('bits.le')
    for r in returned(res):
        if ob.witness(eng, r, []) is False: continue
        ob.prove(eng, r, [], z3.And(r['ret'].e == raw / 4096, r['ret'].e >= 0), 'bits == raw >> 12')
    ob.need_witness(); obs.append(ob)
    # Solend CollateralExchangeRate round trip
    def run_rate(fname, nm):
        eng = world.engine(primary='solend', extra=('typecrate',))
        f = world.fn(r'solend-mocks/src/state\.rs[^>]*>::%s$' % fname, 'solend', pred=lambda f_: 'CollateralExchangeRate' in f_.params[0][1])
        args = [eng.ex.fresh(f.params[0][1], 'rate'), eng.ex.fresh('u64', nm)]
        return eng, f, args, eng.run_fn(f, args)
    e1, f1, a1, r1 = run_rate('liquidity_to_collateral', 'liq')
    e2, f2, a2, r2 = run_rate('collateral_to_liquidity', 'col')
    ob = Ob('C20.b.solend-rate-roundtrip', 'Solend CollateralExchangeRate: c2l(l2c(x)) <= x and each direction rounds down', [f1.name, f2.name], 'loop-free; all u64, all rates > 0')
    val = lambda r: r['ret'].payload[0][0].e
    rate = z3.Int('rate*.0')
    for r, okc in ok_paths(r1):
        if ob.witness(e1, r, [okc, rate > 0]) is False: continue
        ob.prove(e1, r, [okc, rate > 0], val(r) * W <= a1[1].e * rate, 'l2c rounds down: col <= liq*rate')
    for r, okc in ok_paths(r2):
        if ob.witness(e2, r, [okc, rate > 0]) is False: continue
        ob.prove(e2, r, [okc, rate > 0], val(r) * rate <= a2[1].e * W, 'c2l rounds down: liq*rate <= col')
    _pair_queries(ob, e1, e2, r1, r2, lambda x, y: [a2[1].e == val(x)], [rate > 0], lambda x, y: val(y) <= a1[1].e, 'roundtrip')
    ob.need_witness(); obs.append(ob)
    return obs


_t1 = tasks
def tasks(tier):
    return _t1(tier) + [('kamino_solend', t_kamino_solend)]


# ---------------------------------------------------------------- C20.d: the adapter applies the adjusters to the right fields (shared with C09.g)
def t_adjust_wiring(world):
    import specs.C09 as C09
    return C09.t_adjust(world, 'C20.d')


_t2 = tasks
def tasks(tier):
    return _t2(tier) + [('adjust_wiring', t_adjust_wiring)]


# ---------------------------------------------------------------- C20.b (reserve level): which reserve fields make up the venue's total liquidity, and that the conversions use exactly that total
def t_reserve_totals(world):
    obs = []
    # Kamino: total = available + borrowed - protocol fees - accumulated referrer fees - PENDING referrer fees (each 68.60 field floored to 48 fractional bits)
    eng = world.engine(primary='kamino', extra=('typecrate',))
    f = world.fn(r'::calculate_total_supply_i80f48$', 'kamino')
    a = eng.ex.fresh(f.params[0][1], 'rsv')
    res = eng.run_fn(f, [a])
    ob = Ob('C20.b.kamino-total-supply', 'Kamino reserve: total liquidity == available + borrowed - accumulated protocol fees - accumulated referrer fees - pending referrer fees, each read from ITS OWN field '
            '(an omitted or double-counted fee term overstates the exchange rate)', [f.name], 'loop-free; magnitudes: every 68.60 field below 2^120, available u64 (no i128 wrap inside that domain)'); ob.paths = len(res)
    R = STRUCTS['MinimalReserve']
    fld = lambda n: z3.Int(f'rsv*.{R.index(n)}.le')
    avail = fsym('rsv*', 'MinimalReserve', 'available_amount')
    names = ('borrowed_amount_sf', 'accumulated_protocol_fees_sf', 'accumulated_referrer_fees_sf', 'pending_referrer_fees_sf')
    dom = [z3.And(fld(n) >= 0, fld(n) < (1 << 120)) for n in names]
    ref = avail * W + fld('borrowed_amount_sf') / 4096 - fld('accumulated_protocol_fees_sf') / 4096 - fld('accumulated_referrer_fees_sf') / 4096 - fld('pending_referrer_fees_sf') / 4096
    for r in returned(res):
        if ob.witness(eng, r, dom) is False: continue
        ob.prove(eng, r, dom, r['ret'].e == ref, 'total == available + borrowed - the three fee accumulators (each from its own field)', role='total-supply-terms')
    ob.need_witness(); obs.append(ob)
    # ... and the public conversions are computed from exactly that total and the collateral mint supply
    for fname in ('scaled_supplies', 'collateral_to_liquidity', 'liquidity_to_collateral'):
        eng = world.engine(primary='kamino', extra=('typecrate',), opaque=[r'::calculate_total_supply_i80f48$', r'(^|::)scale_supplies$', r'_from_scaled$'])
        f = world.fn(r'kamino-mocks/src/state\.rs[^>]*>::%s$' % fname, 'kamino', pred=lambda f_: 'MinimalReserve' in f_.params[0][1])
        args = [eng.ex.fresh(f.params[0][1], 'rsv')] + [eng.ex.fresh(ty, 'x%d' % i) for i, (_, ty) in enumerate(f.params[1:])]
        res = eng.run_fn(f, args)
        ob = Ob('C20.b.kamino-' + fname, f'Kamino reserve {fname}: uses calculate_total_supply (once), the collateral mint supply and the mint decimals of THIS reserve; conversion errors propagated', [f.name],
                'loop-free; callees opaque (decided in C20.a / C20.b.kamino-total-supply)'); ob.paths = len(res)
        for r, okc in ok_paths(res):
            if ob.witness(eng, r, [okc]) is False: continue
            Ev = [e for e in flat_events(r['events']) if e[0] == 'call']
            ts = [e for e in Ev if re.search(r'::calculate_total_supply_i80f48$', e[1])]; ss = [e for e in Ev if re.search(r'(^|::)scale_supplies$', e[1])]
            if len(ts) != 1 or len(ss) != 1: ob.shape(min(len(ts), len(ss)), 1, f'{len(ts)} total-supply / {len(ss)} scale_supplies calls on an accepting path', 'wiring'); continue
            ob.prove(eng, r, [okc], z3.And(ss[0][2][0].e == ts[0][3].e, ss[0][2][1].e == fsym('rsv*', 'MinimalReserve', 'mint_total_supply'), ss[0][2][2].e == fsym('rsv*', 'MinimalReserve', 'mint_decimals') % 256,
                                           zint(ss[0][3].disc) == 1), 'scale_supplies(total supply, collateral mint supply, mint decimals as u8) and None propagated', role='scale-args')
            cv = [e for e in Ev if re.search(r'_from_scaled$', e[1])]
            if fname != 'scaled_supplies':
                if len(cv) != 1 or (fname.split('_')[0] not in cv[0][1].split('::')[-1]): ob.structural(f'{fname}: wrong / missing conversion kernel {[e[1][-40:] for e in cv]}', 'conversion-kernel'); continue
                tup = ss[0][3].payload[1][0]
                ob.prove(eng, r, [okc], z3.And(cv[0][2][0].e == args[1].e, cv[0][2][1].e == ev(eng.get_path(tup, (('f', 0, I80),))), cv[0][2][2].e == ev(eng.get_path(tup, (('f', 1, I80),))),
                                               zint(cv[0][3].disc) == 1, r['ret'].payload[0][0].e == cv[0][3].payload[1][0].e),
                         'conversion kernel gets (amount, scaled total liquidity, scaled total collateral) in that order; its result is returned, None becomes an error', role='conversion-args')
        ob.need_witness(); obs.append(ob)
    return obs


_t_rt = tasks
def tasks(tier):
    return _t_rt(tier) + [('reserve_totals', t_reserve_totals)]


def t_solend_total(world):
    eng = world.engine(primary='solend', extra=('typecrate',), opaque=[r'(^|::)decimal_to_i80f48$'])
    f = world.fn(r'::calculate_total_liquidity$', 'solend')
    a = eng.ex.fresh(f.params[0][1], 'rsv')
    res = eng.run_fn(f, [a])
    ob = Ob('C20.b.solend-total-liquidity', 'Solend reserve: total liquidity == available + borrowed - accumulated protocol fees, the two WAD fields decoded from their own bytes, decoder errors propagated',
            [f.name], 'loop-free; decimal_to_i80f48 opaque (decided in C20.b); results below 2^100 (no i128 wrap)'); ob.paths = len(res)
    R = STRUCTS['SolendMinimalReserve']
    for r, okc in ok_paths(res):
        if ob.witness(eng, r, [okc]) is False: continue
        dc = [e for e in flat_events(r['events']) if e[0] == 'call' and re.search(r'decimal_to_i80f48$', e[1])]
        if len(dc) != 2: ob.shape(len(dc), 2, f'{len(dc)} decoder calls', 'total-liquidity-terms'); continue
        src = [getattr(eng.deref_val(e[2][0]), 'name', '?') for e in dc]
        ob.queries += 1
        want = [f'rsv*.{R.index("liquidity_borrowed_amount_wads")}', f'rsv*.{R.index("liquidity_accumulated_protocol_fees_wads")}']
        if src == want: ob.unsat += 1
        else: ob.sat += 1; ob.cex.append({'ob': ob.oid, 'label': f'decoded fields are {src} (expected borrowed, then protocol fees: {want})', 'role': 'total-liquidity-terms', 'model': {}, 'replay': None}); continue
        b, fe = dc[0][3].payload[0][0].e, dc[1][3].payload[0][0].e
        dom = [b >= 0, b < (1 << 100) * W, fe >= 0, fe < (1 << 100) * W]
        ob.prove(eng, r, [okc] + dom, z3.And(zint(dc[0][3].disc) == 0, zint(dc[1][3].disc) == 0, r['ret'].payload[0][0].e == fsym('rsv*', 'SolendMinimalReserve', 'liquidity_available_amount') * W + b - fe),
                 'total == available + borrowed - fees; decoder errors propagated', role='total-liquidity-terms')
    ob.need_witness()
    return [ob]


_t_st = tasks
def tasks(tier):
    return _t_st(tier) + [('solend_total', t_solend_total)]


def t_solend_stale(world):
    eng = world.engine(primary='solend', extra=('typecrate',))
    f = world.fn(r'SolendMinimalReserve[^:]*>::is_stale$|solend-mocks/src/state\.rs[^>]*>::is_stale$', 'solend', pred=lambda f_: 'SolendMinimalReserve' in f_.params[0][1])
    a = eng.ex.fresh(f.params[0][1], 'rsv')
    res = eng.run_fn(f, [a])
    ob = Ob('C20.b.solend-is_stale', 'Solend reserve is stale iff its last-update slot < the current slot (a rate not refreshed in this slot is never accepted)', [f.name], 'loop-free; clock = symbolic sysvar'); ob.paths = len(res)
    slot = fsym('rsv*', 'SolendMinimalReserve', 'last_update_slot')
    for r, okc in ok_paths(res):
        if ob.witness(eng, r, [okc]) is False: continue
        ob.prove(eng, r, [okc], ev(r['ret'].payload[0][0]) == (slot < z3.Int('clock.slot')), 'stale <=> last_update_slot < clock.slot', role='solend-stale')
    ob.need_witness()
    return [ob]


_t_ss = tasks
def tasks(tier):
    return _t_ss(tier) + [('solend_stale', t_solend_stale)]


# ---------------------------------------------------------------- C20.a/b (leaves used as opaque summaries above): scale_supplies, convert_decimals, Solend decimal_to_i80f48
def t_scaling_leaves(world):
    obs = []
    POW = [10 ** k for k in range(24)]
    for dec in (0, 6, 9, 18, 23):
        pass
    # scale_supplies: decimals enumerated (table lookup), values symbolic
    f = world.fn(r'(^|::)scale_supplies$', crate='typecrate')
    ob = Ob('C20.a.scale_supplies', 'scale_supplies(total, collateral supply, decimals): Some((l, c)) => l = trunc(total / 10^d), c = trunc(supply / 10^d) in I80F48 (never above the exact quotients for non-negative inputs); decimals > 23 => None',
            [f.name], 'decimals enumerated 0..=24; total in [0, 2^100), supply any u64')
    for d in list(range(0, 24, 3)) + [23, 24]:
        eng = world.engine(primary='typecrate', extra=())
        tot = eng.ex.fresh(I80, 'tot'); col = eng.ex.fresh('u64', 'col')
        res = eng.run_fn(f, [tot, col, IntV(z3.IntVal(d), 'u8')]); ob.paths += len(res)
        dom = [tot.e >= 0, tot.e < (1 << 100) * W]
        for r in returned(res):
            o = r['ret']; dd = zint(o.disc)
            if ob.witness(eng, r, dom) is False: continue
            if d > 23: ob.prove(eng, r, dom, dd == 0, f'decimals={d}: outside the table => None', role='scale-none'); continue
            sc = POW[d] * W
            if 1 not in o.payload:      # a None-only path (overflow branch): must be infeasible inside the domain
                ob.prove(eng, r, dom, z3.BoolVal(False), f'decimals={d}: no None path inside the domain', role='scale-total'); continue
            tup = o.payload[1][0]
            l = ev(eng.get_path(tup, (('f', 0, I80),))); c = ev(eng.get_path(tup, (('f', 1, I80),)))
            ob.prove(eng, r, dom + [dd == 1], z3.And(l == (tot.e * W) / sc, c == (col.e * W * W) / sc), f'decimals={d}: both quotients are the truncated I80F48 divisions by 10^{d}', role='scale-exact')
            ob.prove(eng, r, dom, dd == 1, f'decimals={d}: Some for every value in the domain', role='scale-total')
    ob.need_witness(); obs.append(ob)
    # Solend WAD decoder
    eng = world.engine(primary='solend', extra=('typecrate',))
    f = world.fn(r'(^|::)decimal_to_i80f48$', 'solend')
    a = eng.ex.fresh(f.params[0][1], 'bits')
    res = eng.run_fn(f, [a])
    ob = Ob('C20.b.solend-decimal', 'Solend decimal_to_i80f48: Ok(v) => v == floor(raw * 2^48 / 10^18) exactly (never above the exact value); Err iff the integer part does not fit 79 bits', [f.name], 'loop-free; all u128'); ob.paths = len(res)
    raw = z3.Int('bits.le'); WAD = 10 ** 18
    for r, okc in ok_paths(res):
        if ob.witness(eng, r, [okc]) is False: continue
        ob.prove(eng, r, [okc], z3.And(r['ret'].payload[0][0].e == (raw * W) / WAD, raw / WAD < (1 << 79)), 'bits == floor(raw * 2^48 / 10^18)', role='wad-exact')
    for r, errc in ok_paths(res, 1):
        ob.prove(eng, r, [errc], raw / WAD >= (1 << 79), 'Err only when the integer part needs 80 bits or more', role='wad-err')
    ob.need_witness(); obs.append(ob)
    return obs


_t_sl = tasks
def tasks(tier):
    return _t_sl(tier) + [('scaling_leaves', t_scaling_leaves)]
