from mirsym.harness import *
from specs.wrappers import *
WORLD = ('marginfi', 'typecrate', 'drift')
REPLAYERS = {'wrapper': replay_wrapper}
ASSUMPTIONS = ['inductive step from an arbitrary pre-state: share values > 0, shares >= 0, position shares <= bank totals',
               'rounding allowance per operation: (asset share value + liability share value)/2^48 + 4 ulps of I80F48 (2^-48 native units)']


def t_borrow_fee(world):
    """C01.b: the borrow handler books amount+origination fee as debt, pays out `amount`, and credits the fee buckets with exactly the difference"""
    import z3
    from specs.handlers import run_handler, KERNELS
    from specs.flows import SUMMARIES, evs
    from specs.C12 import find_accounts
    kernels = [k for k in KERNELS if k != r'BankAccountWrapper']
    eng, f, args, res = run_handler(world, r'borrow::lending_account_borrow$', kernels=kernels, summaries=SUMMARIES)
    ob = Ob('C01.b.borrow', 'borrow handler: booked debt = payout + origination fee; fee buckets (group + program) grow by exactly the origination fee, each by a non-negative share; tokens leaving the vault = the pre-fee amount',
            [f.name], 'handler mode (wrapper op summarised, token CPI opaque); all amounts, fee rates in [0,1], buckets below 2^100 (no saturation)'); ob.paths = len(res)
    n_ok = 0
    for r, okc in ok_paths(res):
        E = evs(r)
        ops = [e for e in E if e[0] == 'wrap_op']
        T = [e for e in E if e[0] == 'call' and re.search(r'withdraw_spl_transfer$', e[1])]
        if [o[1] for o in ops] != ['borrow'] or len(T) != 1:
            ob.fail(f'accepting path with wrapper ops {[o[1] for o in ops]} and {len(T)} transfers'); continue
        if ob.witness(eng, r, [okc]) is False: continue
        n_ok += 1
        accts = {}
        for root in r['roots']: accts.update(find_accounts(eng, root))
        banks = [c for c, sv in accts.items() if re.sub(r'<.*', '', sv.ty).split('::')[-1] == 'Bank']
        grp = [c for c, sv in accts.items() if 'MarginfiGroup' in sv.ty]
        if len(banks) != 1: ob.fail(f'bank account objects: {banks}'); continue
        sv = accts[banks[0]]
        g0 = lambda n: fsym(sv.name, 'Bank', n); g1 = lambda n: ev(fget(eng, sv, 'Bank', n))
        booked = ops[0][3].e; out = T[0][2][1].e
        fee = booked - out * W
        d_grp = g1('collected_group_fees_outstanding') - g0('collected_group_fees_outstanding')
        d_prg = g1('collected_program_fees_outstanding') - g0('collected_program_fees_outstanding')
        rate_names = [n for n in free_consts(z3.And(r['pc'] + [d_grp == 0, d_prg == 0])) if grp and n.startswith(grp[0])]
        dom = [g0('collected_group_fees_outstanding') >= 0, g0('collected_group_fees_outstanding') < (1 << 100) * W,
               g0('collected_program_fees_outstanding') >= 0, g0('collected_program_fees_outstanding') < (1 << 100) * W] + \
              [z3.And(z3.Int(n) >= 0, z3.Int(n) <= W) for n in rate_names] + \
              [fsym(sv.name, 'Bank', 'config.interest_rate_config.protocol_origination_fee') >= 0, fsym(sv.name, 'Bank', 'config.interest_rate_config.protocol_origination_fee') <= W]
        ob.prove(eng, r, [okc] + dom, z3.And(fee >= 0, out >= 0), 'booked debt >= tokens paid out')
        ob.prove(eng, r, [okc] + dom, d_grp + d_prg == fee, 'group + program fee buckets grow by exactly booked debt - payout (the origination fee)', role='fee-split')
        ob.prove(eng, r, [okc] + dom, z3.And(d_grp >= 0, d_prg >= 0), 'neither bucket shrinks', role='fee-split-sign')
        ob.prove(eng, r, [okc], z3.And(ops[0][5] == 0, zint(T[0][3].disc) == 0), 'wrapper / transfer errors propagated')
    ob.notes.append(f'{n_ok} accepting paths')
    ob.need_witness()
    return [ob]


def tasks(tier):
    n = 40 if tier == 'quick' else 1000
    return [('borrow_fee', t_borrow_fee)] + [(f'{op}', wrapper_task(op, 'C01', n)) for op in OPS if goals_for(op, OpPre, ('C01',))]
