from mirsym.harness import *
from specs.wrappers import *
WORLD = ('marginfi', 'typecrate', 'drift')
REPLAYERS = {'wrapper': replay_wrapper}
ASSUMPTIONS = ['inductive step from an arbitrary pre-state: share values > 0, shares >= 0, position shares <= bank totals',
               'rounding allowance per operation: (asset share value + liability share value)/2^48 + 4 ulps of I80F48 (2^-48 native units)']


def t_cache_frame(world):
    """frame lemma used by C01.b: the two cache refreshers write nothing but Bank.cache and Bank.last_update"""
    import z3
    from specs.C12 import leaves, pretty
    obs = []
    for fname, rx in (('update_bank_cache', r'BankImpl for [^>]*Bank>::update_bank_cache$|bank\.rs[^>]*>::update_bank_cache$'), ('update_cache_price', r'BankImpl for [^>]*Bank>::update_cache_price$|bank\.rs[^>]*>::update_cache_price$')):
        eng = world.engine(opaque=[r'calc_interest_rate$', r'create_interest_rate_calculator$'], merge=False, max_paths=5000)
        f = world.fn(rx)
        args = [eng.ex.fresh(ty, n) for n, (_, ty) in zip(['bank', 'x'], f.params)]
        res = eng.run_fn(f, args)
        ob = Ob(f'C01.c.{fname}', f'{fname} writes only Bank.cache and Bank.last_update (frame lemma: lets the handler obligations keep the fee buckets and totals across the cache refresh)',
                [f.name], 'every path; interest-rate calculator opaque (&self)'); ob.paths = len(res)
        for r in returned(res):
            if ob.witness(eng, r, []) is False: continue
            bank = eng.deref_val(r['roots'][0])      # the FINAL state of this path (forks clone the objects)
            lv = []; leaves(eng, bank, '', lv)
            for idxpath, val in lv:
                nm = pretty('Bank', idxpath)
                if nm.startswith('cache') or nm == 'last_update': continue
                init = z3.Int('bank*' + idxpath) if not isinstance(val, BoolV) else z3.Bool('bank*' + idxpath)
                cur = ev(val)
                if cur.eq(init): ob.queries += 1; ob.unsat += 1; continue
                ob.prove(eng, r, [], cur == init, f'{nm} is not written', role='writes:' + nm)
            if bank.name != 'bank*': ob.fail('bank object replaced wholesale')
        ob.need_witness(); obs.append(ob)
    return obs


def sum_cache_refresh(eng, st, callee, args):
    """update_bank_cache / update_cache_price summarised by their frame lemma (C01.c): only Bank.cache and last_update change"""
    import z3
    ref = args[0]
    bi = STRUCTS['Bank']
    for fld, ty in (('cache', 'BankCache'), ('last_update', 'i64')):
        k = bi.index(fld)
        eng.set_path(ref.cell, ref.path + (('f', k, ty),), eng.ex.fresh(ty, eng.ex.fresh_name('refreshed_' + fld)))
    d = z3.Int(eng.ex.fresh_name('cache_refresh_disc')); eng.ex.assumptions.append(z3.And(d >= 0, d <= 1))
    st.events.append(('call', callee, args, EnumV('Result', d, {0: {0: StructV('()', 'unit', {}, lazy=False)}, 1: {0: Opaque('E', 'err')}}), []))
    return EnumV('Result', d, {0: {0: StructV('()', 'unit', {}, lazy=False)}, 1: {0: Opaque('E', 'err')}})


CACHE_SUMMARIES = [(r'::update_bank_cache$', sum_cache_refresh), (r'::update_cache_price$', sum_cache_refresh)]


def t_borrow_fee(world):
    """C01.b: the borrow handler books amount+origination fee as debt, pays out `amount`, and credits the fee buckets with exactly the difference"""
    import z3
    from specs.handlers import run_handler, KERNELS
    from specs.flows import SUMMARIES, evs
    from specs.C12 import find_accounts
    kernels = [k for k in KERNELS if k not in (r'BankAccountWrapper', r'update_bank_cache$', r'update_cache_price$')]
    eng, f, args, res = run_handler(world, r'borrow::lending_account_borrow$', kernels=kernels, summaries=list(SUMMARIES) + CACHE_SUMMARIES)
    ob = Ob('C01.b.borrow', 'borrow handler: booked debt = payout + origination fee; fee buckets (group + program) grow by exactly the origination fee, each by a non-negative share; tokens leaving the vault = the pre-fee amount',
            [f.name], 'handler mode (wrapper op summarised, token CPI opaque); all amounts, fee rates in [0,1], buckets below 2^64 tokens (no saturation)'); ob.paths = len(res)
    n_ok = 0
    for r, okc in ok_paths(res):
        E = evs(r)
        ops = [e for e in E if e[0] == 'wrap_op']
        T = [e for e in E if e[0] == 'call' and re.search(r'withdraw_spl_transfer$', e[1])]
        if [o[1] for o in ops] != ['borrow'] or len(T) != 1:
            ob.fail(f'accepting path with wrapper ops {[o[1] for o in ops]} and {len(T)} transfers'); continue
        if ob.witness(eng, r, [okc]) is False: continue
        n_ok += 1
        accts = {}
        for root in r['roots']: accts.update(find_accounts(eng, root))
        banks = [c for c, sv in accts.items() if re.sub(r'<.*', '', sv.ty).split('::')[-1] == 'Bank']
        grp = [c for c, sv in accts.items() if 'MarginfiGroup' in sv.ty]
        if len(banks) != 1: ob.fail(f'bank account objects: {banks}'); continue
        sv = accts[banks[0]]
        g0 = lambda n: fsym(sv.name, 'Bank', n); g1 = lambda n: ev(fget(eng, sv, 'Bank', n))
        booked = ops[0][3].e; out = T[0][2][1].e
        fee = booked - out * W
        d_grp = g1('collected_group_fees_outstanding') - g0('collected_group_fees_outstanding')
        d_prg = g1('collected_program_fees_outstanding') - g0('collected_program_fees_outstanding')
        # magnitudes: every bank snapshot's fee rate in [0,1], buckets in [0, 2^64 tokens); the group's program fee rate in [0,1]
        suf = lambda fld: str(fsym('X', 'Bank', fld))[1:]
        allc = free_consts(z3.And(r['pc'] + [d_grp == 0, d_prg == 0, fee == 0]))
        dom = []
        for n in allc:
            if n.endswith(suf('config.interest_rate_config.protocol_origination_fee')) or (grp and n.startswith(grp[0]) and 'fee' not in n and False): dom.append(z3.And(z3.Int(n) >= 0, z3.Int(n) <= W))
            if n.endswith(suf('collected_group_fees_outstanding')) or n.endswith(suf('collected_program_fees_outstanding')): dom.append(z3.And(z3.Int(n) >= 0, z3.Int(n) < (1 << 64) * W))
        pfr = fsym(grp[0], 'MarginfiGroup', 'fee_state_cache.program_fee_rate') if grp else None
        if pfr is not None: dom.append(z3.And(pfr >= 0, pfr <= W))
        ob.prove(eng, r, [okc] + dom, z3.And(fee >= 0, out >= 0), 'booked debt >= tokens paid out')
        ob.prove(eng, r, [okc] + dom, d_grp + d_prg == fee, 'group + program fee buckets grow by exactly booked debt - payout (the origination fee)', role='fee-split')
        ob.prove(eng, r, [okc] + dom, z3.And(d_grp >= 0, d_prg >= 0), 'neither bucket shrinks', role='fee-split-sign')
        ob.prove(eng, r, [okc], z3.And(ops[0][5] == 0, zint(T[0][3].disc) == 0), 'wrapper / transfer errors propagated')
    ob.notes.append(f'{n_ok} accepting paths')
    ob.need_witness()
    return [ob]


def mk_flow_tokens(name):
    """C01.b for deposit / withdraw / repay: tokens moved by the SPL transfer cover (in-flows) / do not exceed (out-flows) what the wrapper booked"""
    def t(world):
        import z3
        from specs.flows import run_flow, evs, FLOWS, MACC_FLAGS
        from specs.handlers import short
        eng, f, args, res = run_flow(world, name)
        inflow = name in ('deposit', 'repay')
        ob = Ob(f'C01.b.{name}', f'{name} handler: exactly one balance operation and one token transfer per accepting path (none for a zero deposit / the sanctioned token-less write-off); '
                + ('tokens entering the vault >= amount booked (== it, or the fee-grossed-up amount of exactly it)' if inflow else 'tokens leaving the vault <= amount booked (== it unless the deleverage-complete clamp applies)'),
                [f.name], 'handler mode; wrapper ops summarised (their books are C01.a), transfer-fee calculators opaque; every accepting path'); ob.paths = len(res)
        n_ok = 0
        for r, okc in ok_paths(res):
            E = evs(r)
            ops = [e for e in E if e[0] == 'wrap_op' and e[1] in FLOWS[name]['ops']]
            kind = 'deposit_spl_transfer$' if inflow else 'withdraw_spl_transfer$'
            T = [e for e in E if e[0] == 'call' and re.search(kind, e[1])]
            if ob.witness(eng, r, [okc]) is False: continue
            n_ok += 1
            if not ops:
                if T: ob.structural('tokens are transferred on a path that books nothing', 'transfer-without-booking', {'trace': [x[1] if x[0] != 'call' else short(x[1]) for x in E][:60]})
                else: ob.queries += 1; ob.unsat += 1
                continue
            if len(ops) != 1 or len(T) > 1: ob.fail(f'{len(ops)} balance ops / {len(T)} transfers on one accepting path'); continue
            op = ops[0]
            booked = op[4].e * W if op[4] is not None else op[3].e       # *_all return the whole-token amount; the others book their argument
            if not T:
                if name == 'repay':
                    # the only sanctioned no-transfer path: risk admin, TOKENLESS_REPAYMENTS_ALLOWED (bit 5), repay_all
                    names = free_consts(z3.And(r['pc']))
                    fl = [n for n in names if n.endswith(str(fsym('X', 'Bank', 'flags'))[1:])]
                    ob.queries += 1
                    if op[1] == 'repay_all' and fl: ob.unsat += 1
                    else: ob.sat += 1; ob.cex.append({'ob': ob.oid, 'label': 'debt is written off without tokens outside the sanctioned risk-admin path', 'role': 'no-transfer', 'model': {'op': op[1]}, 'replay': None}); continue
                    ob.prove(eng, r, [okc], z3.Or([(z3.Int(n) / 32) % 2 == 1 for n in fl]), 'token-less repayment only with TOKENLESS_REPAYMENTS_ALLOWED set', role='no-transfer')
                else:
                    ob.structural(f'{name}: balance operation {op[1]} without a token transfer', 'no-transfer', {'trace': [x[1] if x[0] != 'call' else short(x[1]) for x in E][:60]})
                continue
            t_amt = T[0][2][1].e
            ob.prove(eng, r, [okc], z3.And(op[5] == 0, zint(T[0][3].disc) == 0), 'wrapper / transfer errors propagated')
            calc = [(e, cnd) for e, cnd in events_with_cond(r['events']) if e[0] == 'call' and re.search(r'calculate_pre_fee_spl_deposit_amount$', e[1])]
            if inflow:
                alts = [t_amt * W == booked] + [z3.And(cnd, c[2][1].e * W == booked, c[2][2].e == z3.Int('clock.epoch'), zint(c[3].disc) == 0, t_amt == c[3].payload[0][0].e) for c, cnd in calc]
                ob.prove(eng, r, [okc], z3.Or(alts), 'tokens in == booked amount, or == pre-fee amount computed from exactly the booked amount at the current epoch', role='tokens-in')
            else:
                ob.prove(eng, r, [okc], z3.And(t_amt >= 0, t_amt * W <= booked), 'tokens out <= booked amount', role='tokens-out')
                bank_flags = [n for n in free_consts(z3.And(r['pc'])) if n.endswith(str(fsym('X', 'Bank', 'flags'))[1:])]
                noclamp = [(z3.Int(n) / 64) % 2 == 0 for n in bank_flags]
                ob.prove(eng, r, [okc] + noclamp, t_amt * W == booked, 'tokens out == booked amount (no deleverage-complete clamp)', role='tokens-out-exact')
        ob.notes.append(f'{n_ok} accepting paths')
        ob.need_witness()
        return [ob]
    return t


def tasks(tier):
    n = 40 if tier == 'quick' else 1000
    return [('borrow_fee', t_borrow_fee), ('cache_frame', t_cache_frame)] + [(f'tokens_{x}', mk_flow_tokens(x)) for x in ('deposit', 'withdraw', 'repay')] + [(f'{op}', wrapper_task(op, 'C01', n)) for op in OPS if goals_for(op, OpPre, ('C01',))]



# ---------------------------------------------------------------- C01.d: the other instructions that move tokens out of / into the liquidity vault (shared with C19.a, C07.b, C05.c)
def t_collect_fees(world):
    import specs.C19 as C19
    return C19.t_collect(world, 'C01.d.collect_bank_fees')


def t_bankruptcy(world):
    import specs.C07 as C07
    return C07.t_bankruptcy_handler(world, 'C01.d.handle_bankruptcy')


def t_liquidation_fee(world):
    import specs.C05 as C05
    return C05.mk_fee(6, 9, 'C01.d.liquidate.')(world)


_t_c01d = tasks
def tasks(tier):
    # the liquidation fee arithmetic (8 min of path enumeration) is C05.c in the quick tier; C01 re-decides it in the thorough tier only
    return _t_c01d(tier) + [('collect_fees', t_collect_fees), ('bankruptcy', t_bankruptcy)] + ([('liquidation_fee', t_liquidation_fee)] if tier == 'thorough' else [])


# ---------------------------------------------------------------- C01.e: interest accrual moves no tokens, so it must not let the books outgrow the vault (shared with C06.a / C06.c / C06.d)
def _renamed01(task, frm, to):
    def t(world):
        obs = task(world)
        for o in obs:
            if o.oid.startswith(frm): o.oid = to + o.oid[len(frm):]
            for c in o.cex:
                if c.get('ob', '').startswith(frm): c['ob'] = to + c['ob'][len(frm):]
        return obs
    return t


_t_c01e = tasks
def tasks(tier):
    import specs.C06 as C06
    return _t_c01e(tier) + [('accrual_state_changes', _renamed01(C06.t_state_changes, 'C06.', 'C01.e.')), ('accrual_conservation', _renamed01(C06.t_lemma_chain, 'C06.', 'C01.e.')),
                            ('accrual_booking', _renamed01(C06.t_accrue, 'C06.', 'C01.e.'))]


# ---------------------------------------------------------------- C01.f: the two token-transfer helpers move exactly the amount they are given, between the accounts they are given, into the bank's own vault
def t_spl_transfers(world):
    import z3
    obs = []
    for which in ('deposit_spl_transfer', 'withdraw_spl_transfer'):
        eng = world.engine(opaque=[r'invoke_transfer_checked$', r'token::transfer$|(^|::)transfer$', r'CpiContext', r'anchor_lang::', r'anchor_spl::', r'to_account_info'], merge=False, max_paths=2000)
        f = world.fn(r'bank\.rs[^>]*>::%s$' % which)
        names = [n for n, _ in f.params]
        args = [eng.ex.fresh(ty, nm) for nm, (_, ty) in zip(['bank', 'amount', 'from', 'to', 'authority', 'mint', 'program', 'seeds', 'rem'] if which.startswith('withdraw') else ['bank', 'amount', 'from', 'to', 'authority', 'mint', 'program', 'rem'], f.params)]
        res = eng.run_fn(f, args)
        ob = Ob('C01.f.' + which, f'Bank::{which}: Ok => exactly one token transfer was issued, of exactly `amount`, from `from` to `to` under `authority`' +
                ('; the destination is the bank\'s own liquidity vault (a deposit can only land in the vault the books refer to)' if which.startswith('deposit') else '; with the caller\'s signer seeds') + '; transfer errors propagated',
                [f.name], 'loop-free; token-program CPI opaque; both the Token-2022 (mint given) and the classic path'); ob.paths = len(res)
        nm = lambda v: getattr(eng.deref_val(v), 'name', None) or getattr(v, 'name', None)
        for r, okc in ok_paths(res):
            if ob.witness(eng, r, [okc]) is False: continue
            Ev = [e for e in flat_events(r['events']) if e[0] == 'call']
            t22 = [e for e in Ev if re.search(r'invoke_transfer_checked$', e[1])]; tcl = [e for e in Ev if re.search(r'(^|::)transfer$', e[1]) and 'invoke' not in e[1]]
            if len(t22) + len(tcl) != 1: ob.shape(len(t22) + len(tcl), 1, f'{len(t22)} Token-2022 + {len(tcl)} classic transfers on an accepting path', 'transfer-count'); continue
            if t22:
                e = t22[0]; amt = e[2][6].e; route = (nm(e[2][1]), nm(e[2][3]), nm(e[2][4]))
            else:
                e = tcl[0]; amt = e[2][1].e
                ctx = [x for x in Ev if re.search(r'CpiContext.*new_with_signer$', x[1])]
                tr = eng.deref_val(ctx[-1][2][1]) if ctx else None
                route = tuple(nm(tr.fields.get(k)) for k in ('from', 'to', 'authority')) if isinstance(tr, StructV) else (None, None, None)
            ob.prove(eng, r, [okc], z3.And(amt == args[1].e, zint(e[3].disc) == 0), 'the amount transferred is the amount passed in; CPI error propagated', role='transfer-amount')
            ob.queries += 1
            if route == ('from', 'to', 'authority'): ob.unsat += 1
            else: ob.sat += 1; ob.cex.append({'ob': ob.oid, 'label': f'transfer accounts (from, to, authority) are {route}', 'role': 'transfer-route', 'model': {}, 'replay': None})
            if which.startswith('deposit'):
                ob.prove(eng, r, [okc], z3.Int('to.0*') == fsym('bank*', 'Bank', 'liquidity_vault'), 'destination key == bank.liquidity_vault', role='transfer-vault')
        ob.need_witness(); obs.append(ob)
    return obs


_t_c01f = tasks
def tasks(tier):
    return _t_c01f(tier) + [('spl_transfers', t_spl_transfers)]


# ---------------------------------------------------------------- shared with C07.c: the write-off itself. handle_bankruptcy removes the WHOLE bad debt from the loans, so the depositors' claim must fall
# by at least the socialised part - `socialize_loss` must never take less from the depositors than the loss (seed C01-5 spread `loss / shares` truncated per share:
# on a very large bank nothing at all is taken, while the debt is still written off)
_t_c01g = tasks
def tasks(tier):
    import specs.C07 as C07
    return _t_c01g(tier) + [('socialize_loss', renamed(C07.t_socialize, 'C07.c', 'C01.g'))]
