"""C04 — Risk gate: a successful borrow or withdraw leaves the account initially healthy."""
import z3
from mirsym.harness import *
WORLD = ('marginfi', 'typecrate', 'drift')
ASSUMPTIONS = ['end-to-end health (16 positions x oracle bytes) is decided compositionally: handler wiring (C04.g), decision (C04.c), per-position valuation (C04.a/b), accumulation (C04.d), risk tiers (C04.e)']


def tasks(tier):
    from specs.flows import flow_task
    return [(f'flow:{n}', flow_task(n, ('C04',))) for n in ('borrow', 'withdraw', 'liquidate', 'kamino_withdraw', 'solend_withdraw', 'drift_withdraw')]


# ---------------------------------------------------------------- C04.c/d/e/h kernels
import mirsym.engine as E
RT = ENUMS['RiskRequirementType']; WT = ENUMS['RequirementType']


def t_health_decision(world):
    eng = world.engine(opaque=[r'get_account_health_components$', r'check_account_risk_tiers$', r'set_healthy$'])
    f = world.fn(r'::check_account_health$')
    args = [eng.ex.fresh(ty, 'a%d' % i) for i, (n, ty) in enumerate(f.params)]
    res = eng.run_fn(f, args)
    ob = Ob('C04.c', 'check_account_health: Ok => weighted assets >= weighted liabilities (for the requested requirement) and the risk-tier check passed; rejected with non-negative health only because of the tier check or a component error',
            [f.name], 'loop-free; components opaque'); ob.paths = len(res)
    for r in returned(res):
        comp = calls(r, r'get_account_health_components$'); tiers = calls(r, r'check_account_risk_tiers$')
        if len(comp) != 1: continue
        okc = z3.simplify(disc_is(r['ret'], 0)); errc = z3.simplify(disc_is(r['ret'], 1))
        cd = zint(comp[0][3].disc)
        t2 = comp[0][3].payload[0][0]
        a_ = ev(eng.get_path(t2, (('f', 0, I80),))); l_ = ev(eng.get_path(t2, (('f', 1, I80),)))
        if not z3.is_false(okc) and ob.witness(eng, r, [okc]) is not False:
            ob.prove(eng, r, [okc], z3.And(cd == 0, a_ >= l_), 'Ok => assets >= liabilities')
            ob.prove(eng, r, [okc], zint(comp[0][2][1].disc) == zint(args[1].disc), 'components computed for the requested requirement type')
            if tiers: ob.prove(eng, r, [okc], zint(tiers[0][3].disc) == 0, 'Ok => risk-tier check passed')
            else: ob.structural('accepting path without the risk-tier check', 'no-tier-check')
        if not z3.is_false(errc):
            td = zint(tiers[0][3].disc) if tiers else z3.IntVal(0)
            ob.prove(eng, r, [errc, cd == 0, a_ >= l_], td == 1, 'with non-negative health the only rejection is the risk-tier rule (never "insufficient health")')
    ob.need_witness()
    return [ob]


def mk_components(K):
    def t(world):
        E.LIST_K = K
        def sum_cwv(eng, st, callee, args):
            nm = eng.ex.fresh_name('cwv')
            av, lv, pr = [z3.Int(f'{nm}.{x}') for x in ('a', 'l', 'p')]; ec = z3.Int(nm + '.e'); d = z3.Int(nm + '.d')
            eng.ex.assumptions.append(z3.And(d >= 0, d <= 1, ec >= 0, ec < 2**32, av >= I128_MIN, av <= I128_MAX, lv >= I128_MIN, lv <= I128_MAX))
            st.events.append(('cwv', args[1], av, lv, ec, d, eng.deref_val(args[0]).name))
            tup = StructV('tuple', 't', {0: IntV(av, I80), 1: IntV(lv, I80), 2: IntV(pr, I80), 3: IntV(ec, 'u32')}, lazy=False)
            return EnumV('Result', d, {0: {0: tup}, 1: {0: Opaque('E', 'err')}})
        eng = world.engine(opaque=[r'to_le_bytes', r'to_num'], max_paths=100000)
        eng.summaries = [(re.compile(r'calc_weighted_value$'), sum_cwv)]
        f = world.fn(r'::get_account_health_components$')
        args = [eng.ex.fresh(f.params[0][1], 'eng'), eng.ex.fresh(f.params[1][1], 'req'), eng.ex.fresh(f.params[2][1], 'hc')]
        res = eng.run_fn(f, args)
        ob = Ob('C04.d', f'get_account_health_components: totals are the checked sums of the per-position values for the mapped weight type, over every position (lists up to {K}); any per-position error propagates',
                [f.name], f'position list length <= {K} (enumerate/next unrolled), per-position valuation opaque (C04.a/b)'); ob.paths = len(res)
        n = z3.Int('eng*.1.slice.len')
        for r, okc in ok_paths(res):
            if ob.witness(eng, r, [okc]) is False: continue
            cw = [e for e in flat_events(r['events']) if e[0] == 'cwv']
            out = r['ret'].payload[0][0]
            ta = ev(eng.get_path(out, (('f', 0, I80),))); tl = ev(eng.get_path(out, (('f', 1, I80),)))
            ob.prove(eng, r, [okc], z3.And(ta == z3.Sum([e[2] for e in cw] + [z3.IntVal(0)]), tl == z3.Sum([e[3] for e in cw] + [z3.IntVal(0)])), 'totals == sum of per-position asset / liability values')
            ob.prove(eng, r, [okc], z3.And([e[5] == 0 for e in cw] + [n == len(cw)]), 'every position was valued (none skipped), every valuation succeeded')
            want = z3.If(zint(args[1].disc) == RT['Initial'], WT['Initial'], z3.If(zint(args[1].disc) == RT['Maintenance'], WT['Maintenance'], WT['Equity']))
            ob.prove(eng, r, [okc], z3.And([zint(e[1].disc) == want for e in cw] or [z3.BoolVal(True)]), 'each position valued with the weight type matching the requirement')
            names = [e[6] for e in cw]
            if len(set(names)) != len(names): ob.fail('a position was valued twice')
        ob.need_witness()
        return [ob]
    return t


def mk_tiers(K):
    def t(world):
        E.LIST_K = K
        eng = world.engine(max_paths=200000)
        f = world.fn(r'::check_account_risk_tiers$')
        a = [eng.ex.fresh(f.params[0][1], 'eng')]
        res = eng.run_fn(f, a)
        ob = Ob('C04.e', f'check_account_risk_tiers: Ok <=> no isolated-tier debt, or exactly one debt in total ("debt" = >= 1 liability share), for every list of up to {K} positions',
                [f.name], f'position list length <= {K}; each position\'s bank loaded symbolically'); ob.paths = len(res)
        n = z3.Int('eng*.1.slice.len')
        bi = STRUCTS['Balance'].index('liability_shares')
        ri = f"{STRUCTS['Bank'].index('config')}.{STRUCTS['BankConfig'].index('risk_tier')}.tag"
        def liab(k): return z3.And(k < n, z3.Int(f'eng*.1.slice[{k}].2*.{bi}') >= W)
        def iso(k): return z3.Int(f'eng*.1.slice[{k}].0.acct.{ri}') == ENUMS['RiskTier']['Isolated']
        for r in returned(res):
            okc = z3.simplify(disc_is(r['ret'], 0))
            loads = [z3.Int(x) == 0 for x in free_consts(z3.And(r['pc'])) if x.startswith('load_ok')]
            if ob.witness(eng, r, []) is False: continue
            tot = z3.Sum([z3.If(liab(k), 1, 0) for k in range(K)]); isoc = z3.Sum([z3.If(z3.And(liab(k), iso(k)), 1, 0) for k in range(K)])
            ob.prove(eng, r, [okc], z3.Or(isoc == 0, tot == 1), 'Ok => no isolated debt or a single debt')
            ob.prove(eng, r, loads + [z3.Or(isoc == 0, tot == 1)], okc, 'no isolated debt or a single debt (and banks load) => Ok')
        ob.need_witness()
        return [ob]
    return t


def t_is_empty(world):
    eng = world.engine(primary='typecrate', extra=())
    cands = [x for x in world.fns(r'user_account\.rs[^>]*>::is_empty$', 'typecrate')]
    ob = Ob('C04.h', 'Balance::is_empty(side): a side with less than one share counts as empty', [c.name for c in cands], 'loop-free')
    for f in cands:
        a = [eng.ex.fresh(f.params[0][1], 'b'), eng.ex.fresh(f.params[1][1], 'side')]
        res = eng.run_fn(f, a); ob.paths += len(res)
        ash = fsym('b*', 'Balance', 'asset_shares'); lsh = fsym('b*', 'Balance', 'liability_shares')
        for r in returned(res):
            if ob.witness(eng, r, []) is False: continue
            ob.prove(eng, r, [], r['ret'].e == z3.If(zint(a[1].disc) == ENUMS['BalanceSide']['Assets'], ash < W, lsh < W), 'is_empty(side) <=> shares(side) < 1')
    ob.need_witness()
    return [ob]


_t04 = tasks
def tasks(tier):
    K = 4 if tier == 'quick' else 6
    return _t04(tier) + [('health_decision', t_health_decision), ('components', mk_components(K)), ('tiers', mk_tiers(3 if tier == 'quick' else 5)), ('is_empty', t_is_empty)]


# ---------------------------------------------------------------- C04.a/b: per-position weighted values against an independent reference
def exp10_ite(dec):
    e = z3.IntVal(10 ** 23)
    for k in range(22, -1, -1):
        e = z3.If(dec == k, z3.IntVal(10 ** k), e)
    return e


def ref_calc_value(amount, price, dec, weight):
    """calc_value reference: 0 if amount == 0 else trunc(floor(floor(amount*weight)*price) / 10^dec) in I80F48 bits"""
    wa = (amount * weight) / W if weight is not None else amount
    v = tdiv((((wa * price) / W)) * W, exp10_ite(dec) * W)
    return z3.If(amount == 0, 0, v)


def t_asset_value(world, oid='C04.a'):
    eng = world.engine(opaque=[r'try_get_price_feed$', r'find_with_tag$', r'get_price_of_type$'], max_paths=20000)
    f = world.fn(r'::calc_weighted_asset_value$')
    args = [eng.ex.fresh(ty, n) for n, (_, ty) in zip(['pos', 'req', 'bank', 'emode'], f.params)]
    res = eng.run_fn(f, args)
    ob = Ob(oid, 'calc_weighted_asset_value == reference: low-biased price (time-weighted for Initial/Equity, spot for Maintenance), weight = max(bank, e-mode entry) of the requirement, USD-cap discount for Initial, zero for isolated / reduce-only(Initial) / oracle error(Initial); oracle errors propagate otherwise',
            [f.name], 'loop-free; every path; decimals 0..=23 via the constant table; all i128 values (overflow paths are Err/panic)'); ob.paths = len(res)
    req = zint(args[1].disc)
    g = lambda n: fsym('bank*', 'Bank', n)
    tier = g('config.risk_tier'); ops = g('config.operational_state')
    OPS = ENUMS['BankOperationalState']; TIER = ENUMS['RiskTier']; PT = ENUMS['OraclePriceType']; PB = ENUMS['PriceBias']
    shares = z3.Int('pos*.2*.%d' % STRUCTS['Balance'].index('asset_shares'))
    nok = 0
    for r in returned(res):
        okc = z3.simplify(disc_is(r['ret'], 0)); errc = z3.simplify(disc_is(r['ret'], 1))
        Ev = [e for e in flat_events(r['events']) if e[0] == 'call']
        pf = [e for e in Ev if re.search(r'try_get_price_feed$', e[1])]; fw = [e for e in Ev if re.search(r'find_with_tag$', e[1])]; gp = [e for e in Ev if re.search(r'get_price_of_type$', e[1])]
        if not z3.is_false(okc) and ob.witness(eng, r, [okc]) is not False:
            nok += 1
            out = r['ret'].payload[0][0]
            val = ev(eng.get_path(out, (('f', 0, I80),))); prc = ev(eng.get_path(out, (('f', 1, I80),))); code = ev(eng.get_path(out, (('f', 2, 'u32'),)))
            ob.prove(eng, r, [okc, tier == TIER['Isolated']], z3.And(val == 0, prc == 0, code == 0), 'isolated-tier deposits are worth nothing')
            ob.prove(eng, r, [okc, tier == TIER['Collateral'], ops == OPS['ReduceOnly'], req == WT['Initial']], z3.And(val == 0, code == 0), 'reduce-only deposits count for nothing toward new borrowing')
            if pf:
                tup = pf[0][3]
                feed = eng.get_path(tup, (('f', 0, 'Result'),)) if isinstance(tup, StructV) else None
                fdisc = zint(feed.disc) if feed is not None else None
                ecode = ev(eng.get_path(tup, (('f', 1, 'u32'),)))
                if fdisc is not None:
                    ob.prove(eng, r, [okc, fdisc == 1], z3.And(req == WT['Initial'], val == 0, prc == 0, code == ecode), 'oracle error: only for the Initial requirement is the deposit valued at zero (error code reported)')
            if gp:
                e = gp[0]
                ob.prove(eng, r, [okc], z3.And(zint(e[2][1].disc) == z3.If(req == WT['Maintenance'], PT['RealTime'], PT['TimeWeighted']),
                                                zint(e[2][2].disc) == 1, zint(e[2][2].payload[1][0].disc) == PB['Low'], e[2][3].e == g('config.oracle_max_confidence'),
                                                zint(e[3].disc) == 0), 'price: time-weighted for Initial/Equity, spot for Maintenance; LOW bias; the bank\'s max confidence; errors propagated')
                P = e[3].payload[0][0].e
                bank_w = z3.If(req == WT['Initial'], g('config.asset_weight_init'), z3.If(req == WT['Maintenance'], g('config.asset_weight_maint'), W))
                if fw:
                    ent = fw[0][3]
                    has = zint(ent.disc) == 1
                    en = eng.deref_val(ent.payload[1][0]) if 1 in ent.payload else None
                    if en is not None:
                        ei = ev(eng.get_path(en, (('f', STRUCTS['EmodeEntry'].index('asset_weight_init'), 'WrappedI80F48'),)))
                        em = ev(eng.get_path(en, (('f', STRUCTS['EmodeEntry'].index('asset_weight_maint'), 'WrappedI80F48'),)))
                        em_w = z3.If(req == WT['Initial'], ei, z3.If(req == WT['Maintenance'], em, W))
                        w0 = z3.If(has, z3.If(bank_w >= em_w, bank_w, em_w), bank_w)
                    else: w0 = bank_w
                    ob.prove(eng, r, [okc], fw[0][2][1].e == g('emode.emode_tag'), 'e-mode entry looked up by this bank\'s e-mode tag')
                else: w0 = bank_w
                amount = (shares * g('asset_share_value')) / W
                dec = z3.If(g('config.asset_tag') == 4, 9, g('mint_decimals'))
                limit = g('config.total_asset_value_init_limit')
                tot_amt = (g('total_asset_shares') * g('asset_share_value')) / W
                tot_val = ref_calc_value(tot_amt, P, dec, None)
                disc_on = z3.And(req == WT['Initial'], limit != 0, tot_val > limit * W)
                w1 = z3.If(disc_on, (w0 * tdiv(limit * W * W, tot_val)) / W, w0)
                ob.prove(eng, r, [okc, tier == TIER['Collateral'], z3.Not(z3.And(ops == OPS['ReduceOnly'], req == WT['Initial'])), g('mint_decimals') <= 23],
                         z3.And(val == ref_calc_value(amount, P, dec, w1), prc == P, code == 0), 'value == calc_value(shares*asv, low price, decimals, weight incl. e-mode max and USD-cap discount)', timeout=120000)
        if not z3.is_false(errc) and pf:
            pass
    ob.notes.append(f'{nok} accepting paths')
    ob.need_witness()
    return [ob]


def t_liab_value(world, oid='C04.b'):
    eng = world.engine(opaque=[r'try_get_price_feed$', r'get_price_of_type$'], max_paths=20000)
    f = world.fn(r'::calc_weighted_liab_value$')
    args = [eng.ex.fresh(ty, n) for n, (_, ty) in zip(['pos', 'req', 'bank'], f.params)]
    res = eng.run_fn(f, args)
    ob = Ob(oid, 'calc_weighted_liab_value == reference: HIGH-biased price of the requirement\'s type, liability weight of the requirement, oracle errors always propagate',
            [f.name], 'loop-free; every path'); ob.paths = len(res)
    req = zint(args[1].disc); g = lambda n: fsym('bank*', 'Bank', n)
    PT = ENUMS['OraclePriceType']; PB = ENUMS['PriceBias']
    shares = z3.Int('pos*.2*.%d' % STRUCTS['Balance'].index('liability_shares'))
    for r, okc in ok_paths(res):
        if ob.witness(eng, r, [okc]) is False: continue
        Ev = [e for e in flat_events(r['events']) if e[0] == 'call']
        pf = [e for e in Ev if re.search(r'try_get_price_feed$', e[1])]; gp = [e for e in Ev if re.search(r'get_price_of_type$', e[1])]
        if len(pf) != 1 or len(gp) != 1: ob.fail('price feed / price not consulted exactly once'); continue
        feed = eng.get_path(pf[0][3], (('f', 0, 'Result'),))
        ob.prove(eng, r, [okc], zint(feed.disc) == 0, 'an oracle error never yields a debt value (it propagates)')
        e = gp[0]
        ob.prove(eng, r, [okc], z3.And(zint(e[2][1].disc) == z3.If(req == WT['Maintenance'], PT['RealTime'], PT['TimeWeighted']), zint(e[2][2].disc) == 1,
                                        zint(e[2][2].payload[1][0].disc) == PB['High'], e[2][3].e == g('config.oracle_max_confidence'), zint(e[3].disc) == 0), 'HIGH bias, matching price type, bank max confidence')
        P = e[3].payload[0][0].e
        lw = z3.If(req == WT['Initial'], g('config.liability_weight_init'), z3.If(req == WT['Maintenance'], g('config.liability_weight_maint'), W))
        amount = (shares * g('liability_share_value')) / W
        dec = z3.If(g('config.asset_tag') == 4, 9, g('mint_decimals'))
        out = r['ret'].payload[0][0]
        ob.prove(eng, r, [okc, g('mint_decimals') <= 23], z3.And(ev(eng.get_path(out, (('f', 0, I80),))) == ref_calc_value(amount, P, dec, lw), ev(eng.get_path(out, (('f', 1, I80),))) == P),
                 'value == calc_value(shares*lsv, high price, decimals, liability weight)', timeout=120000)
    ob.need_witness()
    return [ob]


_t04b = tasks
def tasks(tier):
    return _t04b(tier) + [('asset_value', t_asset_value), ('liab_value', t_liab_value)]


# ---------------------------------------------------------------- C04.f: reconcile_emode_configs = intersection over the borrowed banks' configs with the least favourable weights
def mk_reconcile(K, m):
    def t(world):
        eng = world.engine(primary='typecrate', extra=('marginfi',), opaque=[r'EmodeConfig::from_entries$'], max_paths=200000)
        f = world.fn(r'(^|::)reconcile_emode_configs$', crate='typecrate')
        ob = Ob(f'C04.f.{K}x{m}', f'reconcile_emode_configs over {K} configs: a collateral tag is in the result iff it is in EVERY config (so a borrowed bank without entries removes every benefit); its init/maint weights and flags are the minimum over the configs; result tags distinct and non-empty',
                [f.name, f.name + '::{closure#0}', f.name + '::{closure#0}::{closure#0}'],
                f'{K} configs of any content with at most {m} non-empty entries each (positions 0..{m - 1}; the entry loop skips empty ones), tags distinct inside one config (validated on write: C13); BTreeMap modelled as an insertion-ordered association list, consuming iteration order not modelled (the result is re-sorted by from_entries)')
        EI = STRUCTS['EmodeEntry']
        cfgs = [eng.ex.fresh('EmodeConfig', f'cfg{c}') for c in range(K)]
        def entry(c, j): return eng.get_path(cfgs[c], (('f', 0, '[EmodeEntry; 10]'), ('i', j)))
        def fld(e, n): return ev(fget(eng, e, 'EmodeEntry', n))
        tag = [[fld(entry(c, j), 'collateral_bank_emode_tag') for j in range(10)] for c in range(K)]
        for c in range(K):
            for j in range(m, 10): eng.ex.assumptions.append(tag[c][j] == 0)
            for j in range(m):
                for l in range(j): eng.ex.assumptions.append(z3.Or(tag[c][j] == 0, tag[c][j] != tag[c][l]))
        # the generic configs iterator `I`: a concrete list of K symbolic configs, with the adaptors a caller-side change could add
        def mk_iter(i=0): return StructV('cfgiter', eng.ex.fresh_name('cfgiter'), {'__cfgiter': True, '__idx': i, '__pred': None}, lazy=False)
        def s_into_iter(e, st, c, a):
            v = a[0]
            return v if isinstance(v, StructV) and '__cfgiter' in v.fields else mk_iter()
        def s_filter(e, st, c, a):
            it = a[0]
            cf = e.closure_fn(c, st, None)
            if cf is None: raise Exception('filter closure not found: ' + c)
            return StructV('cfgiter', e.ex.fresh_name('cfgfilter'), {'__cfgiter': True, '__idx': it.fields['__idx'], '__pred': (cf, a[1]), '__inner_pred': it.fields['__pred']}, lazy=False)
        def s_next(e, st, c, a):
            it = e.deref_val(a[0])
            i = it.fields['__idx']
            if it.fields['__pred'] is None:
                if i >= K: return EnumV('Option', 0, {})
                it.fields['__idx'] = i + 1
                return EnumV('Option', 1, {1: {0: cfgs[i]}})
            if it.fields.get('__inner_pred') is not None: raise Exception('nested iterator adaptors on the configs iterator are not modelled')
            cf, env = it.fields['__pred']
            two = cf.params[1][1].lstrip().startswith('&&')
            def argref(j): return RefV(Cell(RefV(Cell(cfgs[j])))) if two else RefV(Cell(cfgs[j]))
            keep = [e.closure_bool(st, cf, [RefV(Cell(env)), argref(j)]) for j in range(i, K)]
            alts = []
            for n_, j in enumerate(range(i, K)):
                def mk(j):
                    def g(st_, a_):
                        e.deref_val(a_[0]).fields['__idx'] = j + 1
                        return EnumV('Option', 1, {1: {0: cfgs[j]}})
                    return g
                alts.append((z3.And([z3.Not(k) for k in keep[:n_]] + [keep[n_]]), mk(j)))
            alts.append((z3.And([z3.Not(k) for k in keep] + [z3.BoolVal(True)]), lambda st_, a_: EnumV('Option', 0, {})))
            return E.ForkResult(alts)
        def s_index(e, st, c, a):
            arr = e.deref_val(a[0]); n = z3.simplify(a[1].fields[0].e if 0 in a[1].fields else a[1].fields['end'].e)
            if not z3.is_int_value(n): raise Exception('symbolic result length')
            items = [e.get_path(arr, (('i', k),)) for k in range(n.as_long())]
            import copy
            st.events.append(('emode_buf', [copy.deepcopy(x) for x in items]))
            return RefV(Cell(StructV('[EmodeEntry]', e.ex.fresh_name('bufslice'), {}, lazy=True)))
        eng.summaries = [(re.compile(r'^<I as IntoIterator>::into_iter$|^<.*IntoIter.* as IntoIterator>::into_iter$|^<(std::iter::)?Filter<.*> as IntoIterator>::into_iter$'), s_into_iter),
                         (re.compile(r'IntoIter as Iterator>::filter::<'), s_filter),
                         (re.compile(r'^<<I as IntoIterator>::IntoIter as Iterator>::next$|^<(std::iter::)?Filter<<I as IntoIterator>::IntoIter, .*> as Iterator>::next$'), s_next),
                         (re.compile(r'^<\[EmodeEntry; 10\] as Index<RangeTo<usize>>>::index$'), s_index)]
        res = eng.run_fn(f, [StructV('I', 'configs', {'__cfgiter': True, '__idx': 0, '__pred': None}, lazy=False)])
        ob.paths = len(res)
        T = z3.Int('T')
        n_ok = 0
        for r in returned(res):
            bufs = [e for e in flat_events(r['events']) if e[0] == 'emode_buf']
            if len(bufs) != 1: ob.fail(f'{len(bufs)} result buffers on a returning path'); continue
            if ob.witness(eng, r, []) is False: continue
            n_ok += 1
            buf = bufs[0][1]
            h = [T >= 1, T <= 65535]
            in_cfg = [z3.Or([tag[c][j] == T for j in range(m)]) for c in range(K)]
            in_all = z3.And(in_cfg)
            btag = [fld(b, 'collateral_bank_emode_tag') for b in buf]
            in_buf = z3.Or([bt == T for bt in btag] + [z3.BoolVal(False)])
            ob.prove(eng, r, h, in_buf == in_all, 'tag in the result <=> tag present in every config', role='intersection')
            ob.prove(eng, r, [], z3.And([bt != 0 for bt in btag] + [btag[k] != btag[l] for k in range(len(buf)) for l in range(k)] + [z3.BoolVal(True)]), 'result tags non-empty and pairwise distinct', role='distinct')
            for fname in ('asset_weight_init', 'asset_weight_maint', 'flags'):
                for k, b in enumerate(buf):
                    v = fld(b, fname)
                    srcs = [(tag[c][j] == T, fld(entry(c, j), fname)) for c in range(K) for j in range(m)]
                    le_all = z3.And([z3.Implies(cond, v <= x) for cond, x in srcs])
                    attained = z3.Or([z3.And(cond, v == x) for cond, x in srcs])
                    ob.prove(eng, r, h + [btag[k] == T], z3.And(le_all, attained), f'{fname} of a result entry == minimum over the configs\' entries with that tag', role='min-' + fname)
        ob.notes.append(f'{n_ok} returning paths')
        ob.need_witness()
        return [ob]
    return t


_t04c = tasks
def tasks(tier):
    shapes = [(1, 2), (2, 2), (3, 1)] if tier == 'quick' else [(1, 3), (2, 2), (3, 1), (4, 1)]
    return _t04c(tier) + [(f'reconcile{K}x{m}', mk_reconcile(K, m)) for K, m in shapes]


# ---------------------------------------------------------------- C04.i: how the risk engine pairs positions with the bank / oracle accounts it is given (BankAccountWithPriceFeed::load), decided compositionally:
# the per-position closure, the filter closure, and the iterator wiring of `load` itself.  (The iterator chain filter -> map -> collect is trusted std code.)
def t_load_pairing(world, prefix='C04.i'):
    from specs.handlers import short
    obs = []
    eng = world.engine(opaque=[r'anchor_lang::', r'get_remaining_accounts_per_bank$', r'try_from_bank', r'AccountLoader', r'Box::'], merge=False, max_paths=5000)
    f = world.fn(r'marginfi_account\.rs:\d+[^>]*>::load::\{closure#1\}$', pred=lambda f_: 'BankAccountWithPriceFeed' in f_.ret)
    ais = eng.ex.fresh("&[anchor_lang::prelude::AccountInfo<'_>]", 'ais'); idxc = Cell(eng.ex.fresh('usize', 'idx'), name='idx'); clock = eng.ex.fresh('&anchor_lang::prelude::Clock', 'clock')
    env = StructV('closure', 'env', {0: ais, 1: RefV(idxc), 2: clock}, lazy=False)
    bal = eng.ex.fresh('&Balance', 'bal')
    res = eng.run_fn(f, [RefV(Cell(env)), bal])
    ob = Ob(prefix + '.position', 'BankAccountWithPriceFeed::load, per active position: the bank account is remaining_accounts[account_index]; it is accepted only if its key equals the position\'s bank_pk (no substituted bank); '
            'the oracle accounts are exactly remaining_accounts[account_index+1 .. account_index+n) with n = get_remaining_accounts_per_bank(that bank) and the list is long enough; the price adapter is built from that bank, '
            'that slice and the caller\'s clock; account_index advances by n; the entry returned carries THIS position, that bank and that adapter',
            [f.name], 'closure executed from its MIR with a symbolic environment (any account list, any index); Anchor loaders opaque; every accepting path'); ob.paths = len(res)
    idx0 = z3.Int('idx')
    for r, okc in ok_paths(res):
        if ob.witness(eng, r, [okc]) is False: continue
        Ev = [e for e in flat_events(r['events']) if e[0] == 'call']
        def one(pat, what):
            c = [e for e in Ev if re.search(pat, e[1])]
            if len(c) != 1: ob.shape(len(c), 1, f'{len(c)} calls of {what} on an accepting path', 'pairing:' + what, {'trace': [short(e[1]) for e in Ev]}); return None
            return c[0]
        g = one(r'core::slice::<impl \[.*\]>::get::<usize>$|::get::<usize>$', 'remaining_accounts.get'); tf = one(r'AccountLoader.*::try_from$', 'AccountLoader::try_from')
        ld = one(r'AccountLoader.*::load$', 'load'); n_ = one(r'get_remaining_accounts_per_bank$', 'get_remaining_accounts_per_bank')
        sl = one(r'as Index<.*Range<usize>>>::index$|::index$', 'oracle slice'); tb = one(r'try_from_bank$', 'try_from_bank')
        if None in (g, tf, ld, n_, sl, tb): continue
        ob.prove(eng, r, [okc], z3.And(g[2][1].e == idx0, zint(g[3].disc) == 1), 'the bank account is remaining_accounts[account_index] and must exist', role='pairing:bank-index')
        bank_ai = eng.deref_val(g[3].payload[1][0])
        ob.queries += 1
        nm = lambda v: getattr(eng.deref_val(v), 'name', None)        # forks clone objects: identity is the (unique) symbolic name
        if nm(tf[2][0]) == bank_ai.name: ob.unsat += 1
        else: ob.sat += 1; ob.cex.append({'ob': ob.oid, 'label': 'the Bank loader is built from another account than remaining_accounts[account_index]', 'role': 'pairing:bank-loader', 'model': {}, 'replay': None}); continue
        key = z3.Int(f'{bank_ai.name}.0*')
        ob.prove(eng, r, [okc], fsym('bal*', 'Balance', 'bank_pk') == key, 'accepted only if the account\'s key == the position\'s bank_pk (a substituted bank is rejected)', role='pairing:bank-key')
        n = n_[3].payload[0][0].e
        ob.prove(eng, r, [okc], z3.And(zint(tf[3].disc) == 0, zint(n_[3].disc) == 0), 'loader / account-count errors propagated', role='pairing:errors')
        rg = eng.deref_val(sl[2][1])
        st_, en_ = rg.fields.get('start', rg.fields.get(0)), rg.fields.get('end', rg.fields.get(1))
        ob.prove(eng, r, [okc], z3.And(st_.e == idx0 + 1, en_.e == idx0 + n, z3.Int('ais*.len') >= idx0 + n), 'oracle accounts == remaining_accounts[account_index+1 .. account_index+n), and the list is long enough', role='pairing:oracle-slice')
        ob.queries += 1
        same_list = nm(sl[2][0]) == nm(g[2][0]) == 'ais*'
        slice_to_adapter = nm(tb[2][1]) is not None and nm(tb[2][1]) == nm(sl[3])
        clock_ok = nm(tb[2][2]) == 'clock*'
        if same_list and slice_to_adapter and clock_ok: ob.unsat += 1
        else: ob.sat += 1; ob.cex.append({'ob': ob.oid, 'label': f'adapter wiring: same account list {same_list}, slice passed to the adapter {slice_to_adapter}, caller\'s clock {clock_ok}', 'role': 'pairing:adapter-wiring', 'model': {}, 'replay': None})
        envf = eng.deref_val(r['roots'][0])
        idx1 = ev(eng.deref_val(envf.fields[1]))
        ob.prove(eng, r, [okc], idx1 == idx0 + n, 'account_index advances by n', role='pairing:advance')
        out = r['ret'].payload[0][0]
        balf = out.fields.get('balance', out.fields.get(2))
        ob.queries += 1
        if isinstance(balf, RefV) and nm(balf) == 'bal*': ob.unsat += 1
        else: ob.sat += 1; ob.cex.append({'ob': ob.oid, 'label': 'the entry does not carry the position it was built for', 'role': 'pairing:entry-balance', 'model': {}, 'replay': None})
    ob.need_witness(); obs.append(ob)
    # the filter closure: active positions only
    eng2 = world.engine()
    f0 = world.fn(r'marginfi_account\.rs:\d+[^>]*>::load::\{closure#0\}$', pred=lambda f_: f_.ret.strip() == 'bool')
    b2 = eng2.ex.fresh('&Balance', 'bal')
    res0 = eng2.run_fn(f0, [RefV(Cell(StructV('closure', 'env0', {}, lazy=False))), RefV(Cell(b2))])
    ob0 = Ob(prefix + '.filter', 'BankAccountWithPriceFeed::load considers exactly the ACTIVE slots (filter closure == balance.active != 0)', [f0.name], 'loop-free'); ob0.paths = len(res0)
    for r in returned(res0):
        if ob0.witness(eng2, r, []) is False: continue
        ob0.prove(eng2, r, [], r['ret'].e == (fsym('bal*', 'Balance', 'active') != 0), 'filter(balance) <=> balance is active', role='pairing:filter')
    ob0.need_witness(); obs.append(ob0)
    # the wiring of load itself: balances.iter().filter(#0).map(#1 with (remaining_ais, &mut 0, &clock)).collect(), returned as is
    eng3 = world.engine(opaque=[r'as Iterator>::(filter|map|collect)', r'::iter$', r'anchor_lang::'], merge=False, max_paths=2000)
    fl = world.fn(r'marginfi_account\.rs:\d+[^>]*>::load$', pred=lambda f_: 'BankAccountWithPriceFeed' in f_.ret)
    la = eng3.ex.fresh(fl.params[0][1], 'la'); ra = eng3.ex.fresh(fl.params[1][1], 'ais')
    res3 = eng3.run_fn(fl, [la, ra])
    ob3 = Ob(prefix + '.wiring', 'BankAccountWithPriceFeed::load == lending_account.balances.iter().filter(active).map(per-position closure over (remaining accounts, index starting at 0, clock)).collect(), its result returned unchanged',
             [fl.name], 'iterator adaptors opaque (trusted std); every returning path'); ob3.paths = len(res3)
    for r in returned(res3):
        if isinstance(r['ret'], EnumV) and not z3.is_false(z3.simplify(disc_is(r['ret'], 0))):
            okc = z3.simplify(disc_is(r['ret'], 0))
        else: continue
        Ev = [e for e in flat_events(r['events']) if e[0] == 'call']
        if ob3.witness(eng3, r, [okc]) is False: continue
        me = [e for e in Ev if '::map::<' in e[1]]; ce = [e for e in Ev if '::collect::<' in e[1]]
        if len(me) != 1 or len(ce) != 1: ob3.shape(min(len(me), len(ce)), 1, f'{len(me)} map / {len(ce)} collect calls', 'pairing:chain'); continue
        me, ce = me[0], ce[0]
        flt = eng3.deref_val(me[2][0])
        ob3.queries += 1
        bi = STRUCTS['LendingAccount'].index('balances')
        it = flt.fields.get('__iter') if isinstance(flt, StructV) and flt.ty == 'Filter' else None
        src = it.fields.get('__list') if isinstance(it, StructV) else None
        whole = isinstance(src, RefV) and getattr(eng3.deref_val(RefV(src.cell, src.path[:-1])), 'name', None) == 'la*' and src.path[-1][0] == 'f' and src.path[-1][1] == bi and it.fields.get('__idx') == 0
        pred_ok = isinstance(flt, StructV) and str(flt.fields.get('__pred', '')).endswith('load::{closure#0}')
        map_ok = 'load::{closure#1}' in (eng3.closure_fn(me[1]).name if eng3.closure_fn(me[1]) is not None else '') or me[1].count('closure@') >= 2
        menv = eng3.deref_val(me[2][1]) if len(me[2]) > 1 else None
        f1v = eng3.deref_val(menv.fields.get(1)) if isinstance(menv, StructV) and menv.fields.get(1) is not None else None
        env_ok = isinstance(menv, StructV) and getattr(eng3.deref_val(menv.fields.get(0)), 'name', None) == 'ais*' and isinstance(f1v, IntV) and z3.is_int_value(z3.simplify(f1v.e)) and z3.simplify(f1v.e).as_long() == 0
        coll_in = getattr(eng3.deref_val(ce[2][0]), 'name', 'x') == getattr(me[3], 'name', 'y') if not isinstance(me[3], (RefV,)) else False
        ret_ok = isinstance(ce[3], EnumV) and isinstance(r['ret'], EnumV) and str(r['ret'].disc) == str(ce[3].disc)
        if whole and pred_ok and map_ok and env_ok and ret_ok: ob3.unsat += 1
        else: ob3.sat += 1; ob3.cex.append({'ob': ob3.oid, 'label': f'load wiring: iterates the whole balances array from slot 0: {whole}; filter closure is the activity test: {pred_ok}; map closure is the per-position closure: {map_ok}; its environment = (remaining accounts, index 0, clock): {env_ok}; collect result returned: {ret_ok}', 'role': 'pairing:wiring', 'model': {}, 'replay': None})
    ob3.need_witness(); obs.append(ob3)
    # how many accounts each position consumes
    eng4 = world.engine(merge=True)
    fc = world.fn(r'(^|::)get_remaining_accounts_per_bank$')
    bk = eng4.ex.fresh(fc.params[0][1], 'bank')
    res4 = eng4.run_fn(fc, [bk])
    ob4 = Ob(prefix + '.count', 'get_remaining_accounts_per_bank: 1 for a fixed-price bank, else by asset tag: 2 (default, SOL: bank + oracle), 3 (Kamino, Drift, Solend: + reserve / market), 4 (staked: + LST mint + SOL pool); unknown tag => error',
             [fc.name], 'loop-free; all tags and oracle setups'); ob4.paths = len(res4)
    tag = fsym('bank*', 'Bank', 'config.asset_tag'); setup = fsym('bank*', 'Bank', 'config.oracle_setup')
    FIXED = ENUMS['OracleSetup']['Fixed']
    table = z3.If(z3.Or(tag == 0, tag == 1), 2, z3.If(z3.Or(tag == 3, tag == 4, tag == 5), 3, z3.If(tag == 2, 4, -1)))
    want = z3.If(setup == FIXED, 1, table)
    for r in returned(res4):
        if ob4.witness(eng4, r, []) is False: continue
        ob4.prove(eng4, r, [], z3.If(want == -1, zint(r['ret'].disc) == 1, z3.And(zint(r['ret'].disc) == 0, r['ret'].payload[0][0].e == want)), 'equals the reference table', role='pairing:count')
    ob4.need_witness(); obs.append(ob4)
    return obs


_t_lp = tasks
def tasks(tier):
    return _t_lp(tier) + [('load_pairing', t_load_pairing)]


# ---------------------------------------------------------------- C04.j: the e-mode entry lookup the valuation relies on (opaque in C04.a): find_with_tag / has_entries over all 10 entries
def t_emode_lookup(world):
    obs = []
    eng = world.engine(primary='typecrate', extra=())
    f = world.fn(r'(^|::)find_with_tag$', crate='typecrate')
    cfg = eng.ex.fresh(f.params[0][1], 'cfg'); tag = eng.ex.fresh('u16', 'tag')
    res = eng.run_fn(f, [cfg, tag])
    ob = Ob('C04.j.find_with_tag', 'EmodeConfig::find_with_tag(tag): None for the empty tag 0; otherwise the FIRST of the 10 entries whose collateral tag equals `tag`, None if there is none',
            [f.name], '10 entries unrolled (closure of find() executed from its MIR); all u16 tags'); ob.paths = len(res)
    ei = STRUCTS['EmodeConfig'].index('entries'); ti = STRUCTS['EmodeEntry'].index('collateral_bank_emode_tag')
    et = [z3.Int(f'cfg*.{ei}[{k}].{ti}') for k in range(10)]
    T = tag.e
    for r in returned(res):
        if ob.witness(eng, r, []) is False: continue
        o = r['ret']; d = zint(o.disc)
        first = [z3.And(T != 0, et[k] == T, z3.And([et[j] != T for j in range(k)])) for k in range(10)]
        ob.prove(eng, r, [], (d == 1) == z3.Or(first), 'Some iff the tag is non-zero and some entry carries it', role='emode-lookup')
        if 1 in o.payload and 0 in o.payload[1]:
            hit = eng.deref_val(o.payload[1][0])
            nm = getattr(hit, 'name', '') or ''
            mk = re.search(r'\[(\d+)\]$', nm)
            if mk:
                k = int(mk.group(1))
                ob.prove(eng, r, [d == 1], first[k], f'the entry returned (slot {k}) is the first one carrying the tag', role='emode-lookup-first')
            else:
                ob.fail(f'returned entry not identifiable ({nm})')
    ob.need_witness(); obs.append(ob)
    return obs


_t_el = tasks
def tasks(tier):
    return _t_el(tier) + [('emode_lookup', t_emode_lookup)]



# ---------------------------------------------------------------- C04.k: the prices the health figures are built from (shared with C09.d: EMA vs spot, confidence band of the SAME message, bias) and the helpers that fetch them (C09.j)
_t_c04k = tasks
def tasks(tier):
    import specs.C09 as C09
    return _t_c04k(tier) + [('price_pyth', renamed(C09.t_pyth, 'C09.d.', 'C04.k.')), ('price_switchboard', renamed(C09.t_switchboard, 'C09.d.', 'C04.k.'))]
