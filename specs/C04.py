"""C04 — Risk gate: a successful borrow or withdraw leaves the account initially healthy."""
import z3
from mirsym.harness import *
WORLD = ('marginfi', 'typecrate', 'drift')
ASSUMPTIONS = ['end-to-end health (16 positions x oracle bytes) is decided compositionally: handler wiring (C04.g), decision (C04.c), per-position valuation (C04.a/b), accumulation (C04.d), risk tiers (C04.e)']


def tasks(tier):
    from specs.flows import flow_task
    return [(f'flow:{n}', flow_task(n, ('C04',))) for n in ('borrow', 'withdraw', 'liquidate')]
