"""C15 — Emergency pause is bounded: users always regain access within a fixed time."""
import z3
from mirsym.harness import *

ASSUMPTIONS = ['one inductive step from an arbitrary PanicState satisfying Inv, at any later time; timestamps in [0, 2^62)',
               'Inv: daily <= 3, consecutive <= 2, last_reset <= now, paused => (consecutive >= 1 and start <= now + 1800*(consecutive-1)), not paused => consecutive = 0']
PS = 'PanicState'
DAY = 86400; DUR = 1800


def syms(root):
    g = lambda n: fsym(root, PS, n)
    return g('pause_flags'), g('daily_pause_count'), g('consecutive_pause_count'), g('pause_start_timestamp'), g('last_daily_reset_timestamp')


def inv(flags, daily, consec, start, reset, now):
    paused = flags % 2 == 1
    return z3.And(daily <= 3, daily >= 0, consec <= 2, consec >= 0, reset <= now, reset >= 0, start >= 0, flags >= 0, flags <= 1,
                  z3.Implies(paused, z3.And(consec >= 1, start <= now + DUR * (consec - 1))),
                  z3.Implies(z3.Not(paused), consec == 0))


def post(eng, r):
    s1 = r['roots'][0]
    g = lambda n: ev(fget(eng, s1, PS, n))
    return g('pause_flags'), g('daily_pause_count'), g('consecutive_pause_count'), g('pause_start_timestamp'), g('last_daily_reset_timestamp')


def replay_pause(model, spec=None):
    f = lambda n, d=0: int(model.get(fsym('ps*', PS, n).decl().name(), d))
    st = {'pause_flags': f('pause_flags'), 'daily_pause_count': f('daily_pause_count'), 'consecutive_pause_count': f('consecutive_pause_count'),
          'pause_start_timestamp': f('pause_start_timestamp'), 'last_daily_reset_timestamp': f('last_daily_reset_timestamp')}
    later = int(model.get('later', 0)); now = int(model.get('now', 0))
    out = native([{'fn': 'panic_step', 'op': (spec or {}).get('op', 'pause'), 'state': st, 'now': later}])[0]
    s1 = out['state']
    paused1 = s1['pause_flags'] % 2 == 1
    bad = []
    if paused1 and not (s1['consecutive_pause_count'] >= 1 and s1['pause_start_timestamp'] <= later + DUR * (s1['consecutive_pause_count'] - 1)): bad.append('Inv: start bounded by consecutive count')
    if paused1 and s1['pause_start_timestamp'] + DUR > later + 2 * DUR: bad.append('scheduled to stay paused more than 60 min beyond the present')
    if s1['daily_pause_count'] > 3 or s1['consecutive_pause_count'] > 2: bad.append('pause counters exceed their limits')
    if not paused1 and s1['consecutive_pause_count'] != 0: bad.append('Inv: not paused => consecutive = 0')
    paused0 = st['pause_flags'] % 2 == 1
    if out.get('ok') and (spec or {}).get('op', 'pause') == 'pause':
        old_exp = st['pause_start_timestamp'] + DUR if (paused0 and later - st['pause_start_timestamp'] < DUR and later >= st['pause_start_timestamp']) else later
        if s1['pause_start_timestamp'] + DUR - max(old_exp, later) > DUR: bad.append('expiry pushed forward by more than 30 minutes')
    return bool(bad), {'pre': st, 'now': now, 'later': later, 'native': out, 'violated': bad, 'verdict': '; '.join(bad) if bad else 'not reproduced'}


REPLAYERS = {'panic': replay_pause}


def t_step(world):
    obs = []
    for op, fre, nargs in (('pause', r'panic_state\.rs[^>]*>::pause$', 1), ('unpause', r'panic_state\.rs[^>]*>::unpause$', 0), ('unpause_if_expired', r'panic_state\.rs[^>]*>::unpause_if_expired$', 1)):
        eng = world.engine(merge=True)
        f = world.fn(fre)
        ps = eng.ex.fresh('&mut PanicState', 'ps'); later = eng.ex.fresh('i64', 'later')
        res = eng.run_fn(f, [ps] + ([later] if nargs else []))
        ob = Ob('C15.a.' + op, f'PanicState::{op}: one step from any state satisfying Inv at any later time preserves Inv; pause bounds hold', [f.name],
                'loop-free; all u8 counters, timestamps in [0, 2^62); arbitrary pre-state satisfying the invariant', role='pause-' + op)
        ob.paths = len(res)
        fl0, d0, c0, st0, rs0 = syms('ps*'); now = z3.Int('now')
        H = [inv(fl0, d0, c0, st0, rs0, now), now >= 0, later.e >= now, later.e < 2**62, st0 < 2**62]
        rp = {'kind': 'panic', 'op': op}
        for r in returned(res):
            okc = z3.simplify(disc_is(r['ret'], 0)) if isinstance(r['ret'], EnumV) else z3.BoolVal(True)
            if z3.is_false(okc): continue
            if ob.witness(eng, r, H + [okc]) is False: continue
            fl1, d1, c1, st1, rs1 = post(eng, r)
            ob.prove(eng, r, H + [okc], inv(fl1, d1, c1, st1, rs1, later.e), 'Inv is preserved', replay=rp)
            paused1 = fl1 % 2 == 1
            ob.prove(eng, r, H + [okc, paused1], st1 + DUR <= later.e + 2 * DUR, 'never scheduled to remain paused more than 60 minutes beyond the present', replay=rp)
            if op == 'pause':
                active0 = z3.And(fl0 % 2 == 1, later.e >= st0, later.e - st0 < DUR)
                old_exp = z3.If(active0, st0 + DUR, later.e)
                ob.prove(eng, r, H + [okc], st1 + DUR - old_exp <= DUR, 'a successful pause pushes the paused-until time forward by at most 30 minutes', replay=rp)
                ob.prove(eng, r, H + [okc], paused1, 'a successful pause sets the flag')
                ob.prove(eng, r, H + [okc], z3.And(d1 <= 3, z3.Or(d1 == d0 + 1, z3.And(d1 == 1, later.e - rs0 >= DAY))), 'daily counter: +1, or reset to 1 only when >= 24h since the last reset', replay=rp)
                ob.prove(eng, r, H + [okc], z3.Or(rs1 == rs0, z3.And(rs1 == later.e, later.e - rs0 >= DAY)), 'the daily reset timestamp moves only when >= 24h have passed')
            if op == 'unpause':
                ob.prove(eng, r, H, z3.And(fl1 % 2 == 0, c1 == 0), 'unpause clears the flag and the consecutive counter')
            if op == 'unpause_if_expired':
                expired = z3.And(fl0 % 2 == 1, later.e >= st0, later.e - st0 >= DUR)
                ob.prove(eng, r, H, z3.If(expired, fl1 % 2 == 0, z3.And(fl1 == fl0, st1 == st0, c1 == c0)), 'clears exactly the expired pauses')
        if op == 'pause':
            # error path leaves counters unchanged except for the lazy expiry/reset bookkeeping, and never sets the flag
            for r in returned(res):
                errc = z3.simplify(disc_is(r['ret'], 1))
                if z3.is_false(errc): continue
                fl1, d1, c1, st1, rs1 = post(eng, r)
                ob.prove(eng, r, H + [errc], z3.Or(c1 >= 2, d1 >= 3), 'pause is refused only at the consecutive (2) or daily (3) limit')
        ob.need_witness(); obs.append(ob)
    return obs


def t_expiry(world):
    obs = []
    eng = world.engine(merge=True)
    f = world.fn(r'panic_state_cache\.rs:5[0-9]:[^>]*>::is_expired$|panic_state_cache\.rs:7[0-9]:[^>]*>::is_expired$', 'typecrate') if False else None
    cands = [x for x in world.fns(r'::is_expired$', 'typecrate')]
    for f in cands:
        eng = world.engine(primary='typecrate', extra=(), merge=True)
        a = [eng.ex.fresh(f.params[0][1], 's'), eng.ex.fresh('i64', 'now')]
        res = eng.run_fn(f, a)
        sn = 'PanicStateCache' if 'PanicStateCache' in f.params[0][1] else 'PanicState'
        ob = Ob(f'C15.b.is_expired.{sn}', f'{sn}::is_expired depends only on (flag, start, now): expired <=> not flagged or (now >= start and now - start >= 1800)', [f.name], 'loop-free; all i64'); ob.paths = len(res)
        fl = fsym('s*', sn, 'pause_flags'); st = fsym('s*', sn, 'pause_start_timestamp')
        for r in returned(res):
            if ob.witness(eng, r, []) is False: continue
            ob.prove(eng, r, [], r['ret'].e == z3.Or(fl % 2 == 0, z3.And(a[1].e >= st, a[1].e - st >= DUR)), 'reference predicate')
            used = set(free_consts(r['ret'].e))
            if not used <= {fl.decl().name(), st.decl().name(), 'now'}: ob.fail(f'is_expired depends on other state: {used}')
        ob.need_witness(); obs.append(ob)
    return obs


def tasks(tier):
    return [('step', t_step), ('expiry', t_expiry)]


# ---------------------------------------------------------------- C15.c: the four pause instructions (handler mode, PanicState functions inlined)
from specs.C12 import find_accounts, WS_OPAQUE
WORLD = ('marginfi', 'typecrate', 'drift')
FS_PS = STRUCTS['FeeState'].index('panic_state')


def run_h(world, fre):
    eng = world.engine(opaque=WS_OPAQUE, merge=True)
    f = world.fn(fre)
    args = [eng.ex.fresh(ty, 'a%d' % i) for i, (n, ty) in enumerate(f.params)]
    return eng, f, args, eng.run_fn(f, args)


def t_handlers(world):
    obs = []
    now = z3.Int('clock.unix_timestamp')
    # admin unpause: never fails while a pause flag is set
    eng, f, args, res = run_h(world, r'panic_unpause::panic_unpause$')
    ob = Ob('C15.c.panic_unpause', 'admin unpause: whenever the pause flag is set (and the account loads) the instruction succeeds and clears the flag', [f.name], 'handler mode; clock any i64'); ob.paths = len(res)
    for r in returned(res):
        accts = {}
        for root in r['roots']: accts.update(find_accounts(eng, root))
        fs = [c for c, sv in accts.items() if 'FeeState' in sv.ty]
        if not fs: continue
        b = fs[0]; fl0 = fsym(b, 'FeeState', 'panic_state.pause_flags'); st0 = fsym(b, 'FeeState', 'panic_state.pause_start_timestamp')
        loads = [z3.Int(n) == 0 for n in free_consts(z3.And(r['pc'])) if n.startswith('load_ok')]
        errc = z3.simplify(disc_is(r['ret'], 1))
        if ob.witness(eng, r, loads + [fl0 % 2 == 1]) is False: continue
        ob.prove(eng, r, loads + [fl0 % 2 == 1, st0 >= 0, now >= 0, now < 2**62, st0 < 2**62], z3.Not(errc), 'flag set => unpause does not fail')
        fl1 = ev(fget(eng, accts[b], 'FeeState', 'panic_state.pause_flags'))
        ob.prove(eng, r, loads + [z3.Not(errc)], fl1 % 2 == 0, 'Ok => flag cleared')
    ob.need_witness(); obs.append(ob)
    # permissionless unpause: Ok <=> flag and expired
    eng, f, args, res = run_h(world, r'panic_unpause_permissionless::panic_unpause_permissionless$')
    ob = Ob('C15.c.panic_unpause_permissionless', 'permissionless unpause: succeeds iff the flag is set and the 30 minutes have run out; clears the flag', [f.name], 'handler mode'); ob.paths = len(res)
    for r in returned(res):
        accts = {}
        for root in r['roots']: accts.update(find_accounts(eng, root))
        fs = [c for c, sv in accts.items() if 'FeeState' in sv.ty]
        if not fs: continue
        b = fs[0]; fl0 = fsym(b, 'FeeState', 'panic_state.pause_flags'); st0 = fsym(b, 'FeeState', 'panic_state.pause_start_timestamp')
        loads = [z3.Int(n) == 0 for n in free_consts(z3.And(r['pc'])) if n.startswith('load_ok')]
        okc = z3.simplify(disc_is(r['ret'], 0))
        dom = [st0 >= 0, now >= 0, now < 2**62, st0 < 2**62]
        if ob.witness(eng, r, loads + dom) is False: continue
        ob.prove(eng, r, loads + dom, okc == z3.And(fl0 % 2 == 1, now >= st0, now - st0 >= DUR), 'Ok <=> flag set and expired (anyone may clear a pause that has run out)')
        fl1 = ev(fget(eng, accts[b], 'FeeState', 'panic_state.pause_flags'))
        ob.prove(eng, r, loads + dom + [okc], fl1 % 2 == 0, 'Ok => flag cleared')
    ob.need_witness(); obs.append(ob)
    # pause: delegates to PanicState::pause at the current clock
    eng, f, args, res = run_h(world, r'panic_pause::panic_pause$')
    ob = Ob('C15.c.panic_pause', 'panic_pause applies PanicState::pause at the current clock (so the bounds of C15.a carry over)', [f.name], 'handler mode'); ob.paths = len(res)
    for r, okc in ok_paths(res):
        accts = {}
        for root in r['roots']: accts.update(find_accounts(eng, root))
        fs = [c for c, sv in accts.items() if 'FeeState' in sv.ty]
        if not fs: continue
        b = fs[0]
        g0 = lambda n: fsym(b, 'FeeState', 'panic_state.' + n); g1 = lambda n: ev(fget(eng, accts[b], 'FeeState', 'panic_state.' + n))
        H = [inv(g0('pause_flags'), g0('daily_pause_count'), g0('consecutive_pause_count'), g0('pause_start_timestamp'), g0('last_daily_reset_timestamp'), now), now >= 0, now < 2**62, g0('pause_start_timestamp') < 2**62, okc]
        if ob.witness(eng, r, H) is False: continue
        ob.prove(eng, r, H, inv(g1('pause_flags'), g1('daily_pause_count'), g1('consecutive_pause_count'), g1('pause_start_timestamp'), g1('last_daily_reset_timestamp'), now), 'Inv preserved by the instruction')
        ob.prove(eng, r, H, z3.And(g1('pause_flags') % 2 == 1, g1('pause_start_timestamp') + DUR <= now + 2 * DUR), 'paused-until never more than 60 minutes ahead')
    ob.need_witness(); obs.append(ob)
    # propagate: copies (flags, start) verbatim into the group cache
    eng, f, args, res = run_h(world, r'propagate_fee_state::propagate_fee$')
    ob = Ob('C15.c.propagate_fee', 'propagate_fee copies the pause flag and start time verbatim into the group cache', [f.name], 'handler mode'); ob.paths = len(res)
    for r, okc in ok_paths(res):
        accts = {}
        for root in r['roots']: accts.update(find_accounts(eng, root))
        fs = [c for c, sv in accts.items() if 'FeeState' in sv.ty]; gs = [c for c, sv in accts.items() if 'MarginfiGroup' in sv.ty]
        if not fs or not gs: continue
        if ob.witness(eng, r, [okc]) is False: continue
        ob.prove(eng, r, [okc], z3.And(ev(fget(eng, accts[gs[0]], 'MarginfiGroup', 'panic_state_cache.pause_flags')) == fsym(fs[0], 'FeeState', 'panic_state.pause_flags'),
                                       ev(fget(eng, accts[gs[0]], 'MarginfiGroup', 'panic_state_cache.pause_start_timestamp')) == fsym(fs[0], 'FeeState', 'panic_state.pause_start_timestamp')), 'cache == fee state (flags, start)')
    ob.need_witness(); obs.append(ob)
    return obs


_t15 = tasks
def tasks(tier):
    return _t15(tier) + [('handlers', t_handlers)]


def kani(tier):
    if tier != 'thorough': return []
    return [dict(harness='panic_inductive', oid='C15.k', covers=1, stubs=5, desc='SECOND ENGINE (Kani/CBMC on the compiled code): PanicState::{pause, unpause, unpause_if_expired} - one step from any state satisfying Inv at any later time preserves Inv; each pause pushes the paused-until time by <= 30 min, never > 60 min ahead; an expired pause never blocks',
                 functions=['marginfi::state::panic_state::PanicStateImpl::{pause, unpause, unpause_if_expired}', 'PanicState::{can_pause, is_expired}'], bounds='timestamps in [0, 2^40); all counter values; loop-free')]



# ---------------------------------------------------------------- shared with C08.b: the Anchor constraint sets of this property's instructions (signer role, has_one = group, vault / PDA bindings)
_t_shared_structs = tasks
def tasks(tier):
    from specs.C08 import shared_struct_tasks
    return _t_shared_structs(tier) + shared_struct_tasks('C15.d.', ['PanicPause', 'PanicUnpause', 'PanicUnpausePermissionless', 'PropagateFee'])
