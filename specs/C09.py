"""C09 — Oracle safety: only fresh, authentic, confident prices, biased conservatively."""
import z3
from mirsym.harness import *

WORLD = ('marginfi', 'typecrate', 'drift', 'kamino', 'solend', 'pyth')
ASSUMPTIONS = ['the oracle programs, borsh/bytemuck decoding of their accounts and Switchboard result semantics are trusted: decoded feeds are arbitrary symbolic structs',
               'magnitudes: |switchboard value|, std_dev < 2^79 (I80F48::from_num domain; beyond it the conversion panics = fail closed); pyth price/conf are i64/u64, exponent in [-18, 18]']
PT = ENUMS['OraclePriceType']; PB = ENUMS['PriceBias']
SWB_DIV = 10 ** 18


def consts(eng):
    c = {}
    for n in ('STD_DEV_MULTIPLE', 'MAX_CONF_INTERVAL', 'CONF_INTERVAL_MULTIPLE', 'U32_MAX', 'U32_MAX_DIV_10'):
        v = eng.const_val(None, 'marginfi_type_crate::constants::' + n)
        c[n] = z3.simplify(v.e).as_long() if isinstance(v, IntV) and z3.is_int_value(z3.simplify(v.e)) else None
    return c


def ref_conf(price, raw_conf, omc, C):
    """reference of get_confidence_interval: (error condition, confidence)"""
    omc_w = z3.If(omc > 0, omc * W, C['U32_MAX_DIV_10'])
    max_conf = tdiv(((price * omc_w) / W) * W, C['U32_MAX'])
    cap = (price * C['MAX_CONF_INTERVAL']) / W
    return raw_conf > max_conf, z3.If(raw_conf <= cap, raw_conf, cap)


def t_switchboard(world):
    eng = world.engine(max_paths=20000)
    f = world.fn(r'price\.rs[^>]*>::get_price_of_type$', pred=lambda f_: 'SwitchboardPullPriceFeed' in f_.params[0][1])
    args = [eng.ex.fresh(ty, n) for n, (_, ty) in zip(['feed', 'ptype', 'bias', 'omc'], f.params)]
    res = eng.run_fn(f, args)
    ob = Ob('C09.d.switchboard', 'Switchboard get_price_of_type: price = value/10^18; confidence = min(1.96*std_dev, 5% of price); error iff 1.96*std_dev > price*max_conf (10% default); Low = price - conf <= price <= High = price + conf',
            [f.name], 'loop-free; every path'); ob.paths = len(res)
    C = consts(eng)
    if None in C.values(): ob.fail(f'constants not evaluable: {C}'); return [ob]
    ob.notes.append(f'constants (bits): {C}')
    if abs(C['STD_DEV_MULTIPLE'] - round(1.96 * W)) > 1 or abs(C['MAX_CONF_INTERVAL'] - round(0.05 * W)) > 1: ob.fail('STD_DEV_MULTIPLE / MAX_CONF_INTERVAL are not 1.96 / 0.05')
    names = free_consts(z3.And([c for r in res for c in r['pc']] + [z3.BoolVal(True)]))
    val = next((z3.Int(n) for n in names if re.search(r'feed\*.*\.0$', n) or n.endswith('.value')), None)
    # locate value / std_dev symbols through the struct layout
    li = STRUCTS.get('LitePullFeedAccountData'); cr = STRUCTS.get('CurrentResult') or STRUCTS.get('LiteCurrentResult')
    omc = args[3].e
    for r, okc in ok_paths(res):
        fc = free_consts(z3.And(r['pc'] + [okc, r['ret'].payload[0][0].e == 0]))
        vs = sorted(n for n in fc if n.startswith('feed*') )
        if len(vs) < 1: continue
        if ob.witness(eng, r, [okc]) is False: continue
        # the two feed scalars read on this path: value (always) and std_dev (only with a bias)
        vsym = [n for n in vs if n.endswith('.0') ] or vs
        value = z3.Int(vsym[0]); price = tdiv(value * W * W, SWB_DIV * W)
        out = r['ret'].payload[0][0].e
        nob = zint(args[2].disc) == 0
        ob.prove(eng, r, [okc, nob], out == price, 'unbiased price == value / 10^18')
        stds = [n for n in vs if n != vsym[0]]
        if stds:
            std = z3.Int(stds[0]); raw = (tdiv(std * W * W, SWB_DIV * W) * C['STD_DEV_MULTIPLE']) / W
            err, conf = ref_conf(price, raw, omc, C)
            b = zint(args[2].payload[1][0].disc) if 1 in args[2].payload else None
            ob.prove(eng, r, [okc, z3.Not(nob)], z3.Not(err), 'accepted => confidence within the bank\'s maximum')
            ob.prove(eng, r, [okc, z3.Not(nob)], z3.And(conf >= 0, price >= 0), 'accepted => price and confidence non-negative (negative inputs hit the assert = fail closed)')
            if b is not None:
                ob.prove(eng, r, [okc, z3.Not(nob), b == PB['Low']], out == price - conf, 'Low = price - min(1.96*std_dev, 5% price)')
                ob.prove(eng, r, [okc, z3.Not(nob), b == PB['High']], out == price + conf, 'High = price + min(1.96*std_dev, 5% price)')
                ob.prove(eng, r, [okc, z3.Not(nob)], z3.If(b == PB['Low'], out <= price, out >= price), 'collateral at or below, debt at or above the reported price')
    ob.need_witness()
    return [ob]


SCALE = z3.Function('pyth_scale', z3.IntSort(), z3.IntSort(), z3.IntSort())
SCALE_OK = z3.Function('pyth_scale_ok', z3.IntSort(), z3.IntSort(), z3.BoolSort())


def to_i80_ref(xw, expo):
    """reference of pyth_price_components_to_i80f48 on an I80F48 (bits) input"""
    sc = z3.IntVal(10 ** 18)
    for k in range(17, -1, -1): sc = z3.If(z3.Or(expo == k, expo == -k), z3.IntVal(10 ** k), sc)
    return z3.If(expo == 0, xw, z3.If(expo < 0, tdiv(xw * W, sc * W), (xw * sc * W) / W))


def t_scale(world):
    """leaf: pyth_price_components_to_i80f48 per concrete exponent (the table lookup is the only non-linear part)"""
    f = world.fn(r'(^|::)pyth_price_components_to_i80f48$')
    ob = Ob('C09.e.scale', 'pyth_price_components_to_i80f48(x, e): Ok => value == x * 10^e (division truncating toward zero), sign preserved, 0 -> 0; monotone in x; every exponent in [-18, 18]',
            [f.name], 'exponent enumerated over all 37 values of [-18, 18] (outside it the table index panics or the feed is not a Pyth price); x any I80F48 from an i64/u64')
    for e in range(-18, 19):
        eng = world.engine(max_paths=2000)
        x = eng.ex.fresh(I80, 'x'); ex = IntV(z3.IntVal(e), 'i32')
        res = eng.run_fn(f, [x, ex]); ob.paths += len(res)
        xe = x.e
        for r, okc in ok_paths(res):
            if ob.witness(eng, r, [okc]) is False: continue
            out = r['ret'].payload[0][0].e
            ref = xe * 10 ** e if e >= 0 else tdiv(xe * W, 10 ** (-e) * W)
            ob.prove(eng, r, [okc], out == ref, f'e={e}: value == x*10^e')
            ob.prove(eng, r, [okc], z3.And(z3.Implies(xe >= 0, out >= 0), z3.Implies(xe <= 0, out <= 0)), f'e={e}: sign preserved')
    ob.need_witness()
    return [ob]


def scale_summary(eng, st, callee, args):
    x, e = args[0].e, args[1].e
    d = z3.If(SCALE_OK(x, e), 0, 1)
    st.events.append(('scale', x, e))
    return EnumV('Result', d, {0: {0: IntV(SCALE(x, e), I80)}, 1: {0: Opaque('E', 'err')}})


def t_pyth(world):
    eng = world.engine(max_paths=50000)
    eng.summaries = [(re.compile(r'(^|::)pyth_price_components_to_i80f48$'), scale_summary)]
    f = world.fn(r'price\.rs[^>]*>::get_price_of_type$', pred=lambda f_: 'PythPushOraclePriceFeed' in f_.params[0][1])
    args = [eng.ex.fresh(ty, n) for n, (_, ty) in zip(['feed', 'ptype', 'bias', 'omc'], f.params)]
    res = eng.run_fn(f, args)
    ob = Ob('C09.d.pyth', 'Pyth get_price_of_type: EMA price iff TimeWeighted; confidence = min(2.12*conf, 5% of price) of the same (ema/spot) message; error iff 2.12*conf > price*max_conf; Low/High = price -/+ confidence',
            [f.name], 'every path; the scaling leaf is replaced by an uninterpreted function (its contract is C09.e.scale), so the claim covers every exponent the leaf accepts'); ob.paths = len(res)
    C = consts(eng)
    if None in C.values(): ob.fail(f'constants not evaluable: {C}'); return [ob]
    if abs(C['CONF_INTERVAL_MULTIPLE'] - round(2.12 * W)) > 1: ob.fail('CONF_INTERVAL_MULTIPLE is not 2.12')
    omc = args[3].e; ptype = zint(args[1].disc)
    n_ok = 0
    for r, okc in ok_paths(res):
        sc = [e for e in flat_events(r['events']) if e[0] == 'scale']
        if not sc: ob.fail('price not scaled on an accepting path'); continue
        if ob.witness(eng, r, [okc]) is False: continue
        n_ok += 1
        out = r['ret'].payload[0][0].e
        nob = zint(args[2].disc) == 0
        # which message (ema / spot) do the scale calls read?  Price {price: i64, conf: u64, exponent: i32, publish_time}
        fi = STRUCTS['PythPushOraclePriceFeed']
        def fld(k): return z3.If(ptype == PT['TimeWeighted'], z3.Int('feed*.%d.0.0.*.%d' % (fi.index('ema_price'), k)), z3.Int('feed*.%d.0.0.*.%d' % (fi.index('price'), k)))
        ob.prove(eng, r, [okc], z3.And(sc[0][1] == fld(0) * W, sc[0][2] == fld(2)), 'price operand: EMA message iff the time-weighted price is requested, spot message otherwise')
        price = SCALE(sc[0][1], sc[0][2])
        ob.prove(eng, r, [okc, nob], out == price, 'unbiased price == scaled price of the selected message')
        ob.prove(eng, r, [okc], z3.And([e[2] == sc[0][2] for e in sc]), 'one exponent for price and confidence')
        if len(sc) >= 3:
            # get_confidence_interval: scale(conf), scale(price) again
            craw = SCALE(sc[1][1], sc[1][2]); p2 = SCALE(sc[2][1], sc[2][2])
            ob.prove(eng, r, [okc], z3.And(sc[2][1] == sc[0][1], sc[2][2] == sc[0][2], sc[1][1] == fld(1) * W, sc[1][2] == fld(2)), 'confidence is the conf field of the same message as the price, bounded against the same price')
            raw = (craw * C['CONF_INTERVAL_MULTIPLE']) / W
            err, conf = ref_conf(price, raw, omc, C)
            b = zint(args[2].payload[1][0].disc)
            ob.prove(eng, r, [okc, z3.Not(nob)], z3.Not(err), 'accepted => 2.12*conf <= price * max_conf (10% default)')
            ob.prove(eng, r, [okc, z3.Not(nob)], z3.And(conf >= 0, price >= 0), 'accepted with a bias => price and confidence non-negative')
            ob.prove(eng, r, [okc, z3.Not(nob), b == PB['Low']], out == price - conf, 'Low = price - min(2.12*conf, 5% price)')
            ob.prove(eng, r, [okc, z3.Not(nob), b == PB['High']], out == price + conf, 'High = price + min(2.12*conf, 5% price)')
            ob.prove(eng, r, [okc, z3.Not(nob)], z3.If(b == PB['Low'], out <= price, out >= price), 'collateral at or below, debt at or above the reported price')
    ob.notes.append(f'{n_ok} accepting paths')
    ob.need_witness()
    return [ob]


def t_swb_load(world):
    eng = world.engine(opaque=[r'parse_swb_ignore_alignment$', r'borrow$', r'LitePullFeedAccountData as From'])
    f = world.fn(r'price\.rs[^>]*>::load_checked$', pred=lambda f_: 'Clock' not in f_.params[1][1])
    args = [eng.ex.fresh(ty, n) for n, (_, ty) in zip(['ai', 'now', 'max_age'], f.params)]
    res = eng.run_fn(f, args)
    ob = Ob('C09.a', 'Switchboard load_checked: accepted => owner is the Switchboard on-demand program, the account parses, now - last_update <= max_age (boundary accepted, +1 rejected)',
            [f.name], 'byte parsing opaque (returns an arbitrary feed); all i64 clocks, all u64 max ages'); ob.paths = len(res)
    now = args[1].e; age = args[2].e
    for r, okc in ok_paths(res):
        if ob.witness(eng, r, [okc]) is False: continue
        ps = calls(r, r'parse_swb_ignore_alignment$')
        if len(ps) != 1: ob.fail('account not parsed exactly once'); continue
        ob.prove(eng, r, [okc], zint(ps[0][3].disc) == 0, 'parse (discriminator / size) errors propagate')
        feed = ps[0][3].payload[0][0]
        names = [n for n in free_consts(z3.And(r['pc'])) if n.startswith(feed.name)]
        if not names: ob.fail('last_update_timestamp is not consulted'); continue
        lu = z3.Int(names[0])
        sat_sub = z3.If(now - lu > 2**63 - 1, 2**63 - 1, z3.If(now - lu < -2**63, -2**63, now - lu))
        ob.prove(eng, r, [okc, age < 2**63], sat_sub <= age, 'now - last_update <= max_age')
        own = [n for n in free_consts(z3.And(r['pc'])) if n.startswith('ai*') and n.endswith('*')]
        swb = eng.const_val(None, 'constants::SWITCHBOARD_PULL_ID')
        if isinstance(swb, IntV) and own:
            ob.prove(eng, r, [okc], z3.Or([z3.Int(n) == swb.e for n in own]), 'owner == Switchboard pull program')
        else: ob.fail('owner comparison not found')
    ob.need_witness()
    # boundary: exactly max_age old is accepted when everything else is fine
    for r, okc in ok_paths(res):
        pass
    return [ob]


PYTH_RECEIVER = z3.Int('pyth_solana_receiver_sdk::ID')
ADAPTER_OPAQUE = [r'PythPushOraclePriceFeed::load_checked$', r'SwitchboardPullPriceFeed::load_checked$', r'Account::<[^>]*>::try_from', r'try_from_slice_unchecked', r'AccountLoader::<[^>]*>::try_from',
                  r'is_stale$', r'scaled_supplies$', r'adjust_i64$', r'adjust_u64$', r'adjust_i128$', r'borrow$']
COUNT = {'PythPushOracle': 1, 'SwitchboardPull': 1, 'StakedWithPythPush': 3, 'KaminoPythPush': 2, 'KaminoSwitchboardPull': 2, 'Fixed': 0,
         'DriftPythPull': 2, 'DriftSwitchboardPull': 2, 'SolendPythPull': 2, 'SolendSwitchboardPull': 2}
PYTH_KINDS = ('PythPushOracle', 'StakedWithPythPush', 'KaminoPythPush', 'DriftPythPull', 'SolendPythPull')
COMPANION = {'Kamino': r'MinimalReserve[^:]*::is_stale$', 'Drift': r'MinimalSpotMarket[^:]*::is_stale$', 'Solend': r'SolendMinimalReserve[^:]*::is_stale$'}


def t_adapter(world, oid='C09.b'):
    import mirsym.engine as E
    from specs.handlers import short
    E.LIST_K = 4
    OS = ENUMS['OracleSetup']
    eng = world.engine(opaque=ADAPTER_OPAQUE, max_paths=20000)
    eng.summaries = [(re.compile(r'^pyth_solana_receiver_sdk::id$'), lambda e, st, c, a: IntV(PYTH_RECEIVER, 'Pubkey'))]
    f = world.fn(r'price\.rs[^>]*>::try_from_bank_with_max_age$')
    args = [eng.ex.fresh(ty, n) for n, (_, ty) in zip(['bank', 'ais', 'clock', 'max_age'], f.params)]
    res = eng.run_fn(f, args)
    ob = Ob(oid, 'try_from_bank_with_max_age: a feed is produced only for a supported setup, with exactly the configured number of accounts, each key equal to the configured oracle key at its index, Pyth accounts owned by the Pyth receiver '
            '(or the mock id outside mainnet builds), exactly one load_checked on account 0 with the caller\'s clock and max age, its error propagated; companion reserve/spot-market staleness checked; fixed price >= 0 returned as is',
            [f.name], 'feed loaders, companion-account decoding and exchange-rate adjusters opaque (C09.a/c, C20.d); oracle account list of any length (indices < 4 materialised; every setup needs <= 3)'); ob.paths = len(res)
    setup = fsym('bank*', 'Bank', 'config.oracle_setup'); n = z3.Int('ais*.len')
    key = lambda i: z3.Int(f'ais*[{i}].0*'); cfgkey = lambda i: fsym('bank*', 'Bank', f'config.oracle_keys[{i}]') if False else z3.Int('%s[%d]' % (str(fsym('bank*', 'Bank', 'config.oracle_setup')).replace('.7.tag', '.8'), i))
    ki = STRUCTS['BankConfig'].index('oracle_keys'); si = STRUCTS['BankConfig'].index('oracle_setup')
    cfgkey = lambda i: z3.Int(str(setup).replace(f'.{si}.tag', f'.{ki}') + f'[{i}]')
    pyth_mock = eng.const_val(None, 'constants::PYTH_ID')
    n_ok = 0
    for r, okc in ok_paths(res):
        if ob.witness(eng, r, [okc]) is False: continue
        n_ok += 1
        E_ = [e for e in flat_events(r['events']) if e[0] == 'call']
        lc = [e for e in E_ if re.search(r'load_checked$', e[1])]
        ob.prove(eng, r, [okc], z3.Or([setup == OS[k] for k in COUNT]), 'accepted => supported oracle setup (None / legacy setups never produce a feed)')
        for k, cnt in COUNT.items():
            h = [okc, setup == OS[k]]
            s_ = ob._solver(eng, r, h, 5000)
            if s_.check() != z3.sat: continue
            ob.prove(eng, r, h, n == cnt, f'{k}: exactly {cnt} oracle accounts')
            if cnt: ob.prove(eng, r, h, z3.And([key(i) == cfgkey(i) for i in range(cnt)]), f'{k}: every account key == configured oracle key at its index', role='oracle-key')
            if k == 'Fixed':
                ob.queries += 1
                if lc: ob.sat += 1; ob.cex.append({'ob': ob.oid, 'label': 'fixed setup consults a feed', 'role': 'fixed', 'model': {}, 'replay': None})
                else: ob.unsat += 1
                fp = fsym('bank*', 'Bank', 'config.fixed_price')
                ob.prove(eng, r, h, fp >= 0, 'Fixed: negative configured price rejected')
                continue
            if len(lc) != 1:
                ob.queries += 1; ob.sat += 1; ob.cex.append({'ob': ob.oid, 'label': f'{k}: {len(lc)} feed loads on an accepting path', 'role': 'loads', 'model': {}, 'replay': None}); continue
            e = lc[0]; is_pyth = 'PythPush' in e[1]
            ob.queries += 1
            if is_pyth == (k in PYTH_KINDS): ob.unsat += 1
            else: ob.sat += 1; ob.cex.append({'ob': ob.oid, 'label': f'{k}: wrong feed loader {short(e[1])}', 'role': 'loader', 'model': {}, 'replay': None})
            a0 = eng.deref_val(e[2][0])
            ob.queries += 1
            if getattr(a0, 'name', None) == 'ais*[0]': ob.unsat += 1
            else: ob.sat += 1; ob.cex.append({'ob': ob.oid, 'label': f'{k}: feed loaded from {getattr(a0, "name", a0)} instead of oracle account 0', 'role': 'load-target', 'model': {}, 'replay': None})
            ob.prove(eng, r, h, z3.And(e[2][2].e == args[3].e, zint(e[3].disc) == 0), f'{k}: load uses the caller\'s max age; load error propagated', role='max-age-arg')
            if is_pyth:
                ca = eng.deref_val(e[2][1])
                ob.queries += 1
                if getattr(ca, 'name', None) == 'clock*': ob.unsat += 1
                else: ob.sat += 1; ob.cex.append({'ob': ob.oid, 'label': f'{k}: load uses a different clock', 'role': 'clock', 'model': {}, 'replay': None})
                own = z3.Int('ais*[0].3*')
                allowed = [own == PYTH_RECEIVER] + ([own == pyth_mock.e] if isinstance(pyth_mock, IntV) else [])
                ob.prove(eng, r, h, z3.Or(allowed), f'{k}: oracle account owned by the Pyth receiver program (or the localnet mock id in non-mainnet builds)', role='pyth-owner')
            else:
                ci = STRUCTS['Clock'].index('unix_timestamp') if 'Clock' in STRUCTS else 4
                ob.prove(eng, r, h, e[2][1].e == z3.Int(f'clock*.{ci}'), f'{k}: load uses the caller\'s clock timestamp')
            for fam, rx in COMPANION.items():
                if k.startswith(fam):
                    st_ = [x for x in E_ if re.search(r'is_stale$', x[1])]
                    ob.queries += 1
                    if len(st_) == 1: ob.unsat += 1
                    else: ob.sat += 1; ob.cex.append({'ob': ob.oid, 'label': f'{k}: companion staleness not checked exactly once', 'role': 'companion-stale', 'model': {}, 'replay': None}); continue
                    rv = st_[0][3]
                    stale = rv.e if isinstance(rv, BoolV) else z3.Or(zint(rv.disc) != 0, rv.payload[0][0].e)
                    ob.prove(eng, r, h, z3.Not(stale), f'{k}: stale companion account rejected', role='companion-stale')
    ob.notes.append(f'{n_ok} accepting paths')
    ob.need_witness()
    return [ob]


WITHDRAWS = {'marginfi': r'marginfi_account::withdraw::lending_account_withdraw$', 'kamino': r'kamino::withdraw::kamino_withdraw$', 'drift': r'drift::withdraw::drift_withdraw$', 'solend': r'solend::withdraw::solend_withdraw$'}


def mk_zero_price(which):
    def t(world):
        from specs.handlers import run_handler, KERNELS, short
        from specs.flows import SUMMARIES, evs, MACC_FLAGS, F_RECV, F_DELEV
        kernels = [k for k in KERNELS if k != r'BankAccountWrapper']
        from specs.flows import INTEGRATION_OPAQUE
        eng, f, args, res = run_handler(world, WITHDRAWS[which], kernels=kernels, summaries=SUMMARIES, extra_opaque=list(INTEGRATION_OPAQUE), max_paths=20000)
        ob = Ob(f'C09.f.{which}', f'{which} withdraw from an account in receivership: the collateral price is fetched (low bias) before the position changes, a zero or negative price is rejected, and the deleverage equity accounting uses that price',
                [f.name], 'handler mode; kernels opaque; every accepting path'); ob.paths = len(res)
        n_ok = 0
        for r, okc in ok_paths(res):
            E_ = evs(r)
            loads = [e for e in E_ if e[0] == 'call' and 'AccountLoader' in e[1] and 'MarginfiAccount' in e[1]]
            ops = [i for i, e in enumerate(E_) if e[0] == 'wrap_op']
            if not loads or not ops: continue
            flags = z3.Int(f'{loads[0][2][0]}.acct.{MACC_FLAGS}')
            recv = (flags / F_RECV) % 2 == 1
            if ob.witness(eng, r, [okc, recv]) is False: continue
            n_ok += 1
            fp = [(i, e) for i, e in enumerate(E_) if e[0] == 'call' and re.search(r'fetch_asset_price_for_bank_low_bias$', e[1])]
            pre = [(i, e) for i, e in fp if i < min(ops)]
            if len(pre) != 1:
                ob.queries += 1; ob.sat += 1
                ob.cex.append({'ob': ob.oid, 'label': f'{len(pre)} low-bias price fetches before the withdrawal of an account in receivership', 'role': 'no-price', 'model': {'trace': [short(x[1]) if x[0] == 'call' else x[1] for x in E_][:50]}, 'replay': None}); continue
            pr = pre[0][1][3]
            ob.prove(eng, r, [okc, recv], z3.And(zint(pr.disc) == 0, pr.payload[0][0].e > 0), 'price error propagated; price strictly positive', role='zero-price')
            cv = [e for e in E_ if e[0] == 'call' and re.search(r'calc_value$', e[1])]
            for e in cv:
                ob.prove(eng, r, [okc, recv], e[2][1].e == pr.payload[0][0].e, 'withdrawn equity valued at the fetched price', role='equity-price')
        ob.notes.append(f'{n_ok} accepting receivership paths')
        ob.need_witness()
        return [ob]
    return t


def _nav(eng, v, toks):
    for t in toks:
        if isinstance(v, RefV): v = eng.deref_val(v)
        if t == '*':
            v = v.fields['__pointee'].val
        else:
            v = v.fields[int(t)]
    return eng.deref_val(v) if isinstance(v, RefV) else v


def t_adjust(world, oid='C09.g'):
    """exchange-rate-adjusted variants: every price/confidence field of the loaded feed is replaced by adjust(<that same field>, <one ratio>)"""
    import mirsym.engine as E
    from specs.handlers import short
    E.LIST_K = 4
    OS = ENUMS['OracleSetup']
    eng = world.engine(opaque=ADAPTER_OPAQUE, max_paths=20000)
    eng.summaries = [(re.compile(r'^pyth_solana_receiver_sdk::id$'), lambda e, st, c, a: IntV(PYTH_RECEIVER, 'Pubkey'))]
    f = world.fn(r'price\.rs[^>]*>::try_from_bank_with_max_age$')
    args = [eng.ex.fresh(ty, n) for n, (_, ty) in zip(['bank', 'ais', 'clock', 'max_age'], f.params)]
    res = eng.run_fn(f, args)
    ob = Ob(oid, 'exchange-rate-adjusted oracle setups (Kamino, Drift, Solend x Pyth/Switchboard; staked): each field of the loaded feed (spot price, EMA price, spot conf, EMA conf / value, std_dev) is replaced by the adjuster applied to THAT field with one common rate; adjuster errors propagate; adjustment skipped only for an empty reserve; staked: both prices scaled by (stake - 1 SOL)/supply',
            [f.name], 'adjusters and feed loaders opaque (their arithmetic is C20.a-c, the loaders C09.a/c); every accepting path'); ob.paths = len(res)
    setup = fsym('bank*', 'Bank', 'config.oracle_setup')
    FI = STRUCTS['PythPushOraclePriceFeed']
    n_ok = 0
    for r, okc in ok_paths(res):
        E_ = [e for e in flat_events(r['events']) if e[0] == 'call']
        lc = [e for e in E_ if re.search(r'load_checked$', e[1])]
        if len(lc) != 1: continue
        fam = None
        for k in COUNT:
            if k in ('PythPushOracle', 'SwitchboardPull', 'Fixed'): continue
            s_ = ob._solver(eng, r, [okc, setup == OS[k]], 5000)
            if s_.check() == z3.sat: fam = k
        if fam is None: continue
        if ob.witness(eng, r, [okc]) is False: continue
        n_ok += 1
        is_pyth = 'PythPush' in lc[0][1]
        feed = lc[0][3].payload[0][0]; base = feed.name
        out = r['ret'].payload[0][0]
        outfeed = list(out.payload.values())[0][0] if isinstance(out, EnumV) else out
        adj = [e for e in E_ if re.search(r'adjust_(i64|u64|i128)$', e[1])]
        want = ({f'{b}.0.0.*.{k}' for b in (0, 1) for k in (0, 1)} if is_pyth else {'0.0.0.*.0.0', '0.0.0.*.0.1'}) if fam != 'StakedWithPythPush' else set()
        if fam == 'StakedWithPythPush':
            # inline arithmetic: price' = trunc(price * (stake - 1e9) / supply) for both messages
            try:
                names = free_consts(z3.And(r['pc']))
                for b in (0, 1):
                    orig = z3.Int(f'{base}.{b}.0.0.*.0')
                    fin = ev(_nav(eng, outfeed, [str(b), '0', '0', '*', '0']))
                    others = [z3.Int(n) for n in free_consts(fin) if n != str(orig)]
                    ob.prove(eng, r, [okc], z3.Or([fin == tdiv(orig * x, y) for x in others for y in others if str(x) != str(y)] + [fin == tdiv(orig * (x - 10**9), y) for x in others for y in others if str(x) != str(y)]),
                             f'staked: message {b} price == trunc(price * (stake - 1 SOL) / LST supply) of the same message', role='staked-adjust')
                    try: cfin = ev(_nav(eng, outfeed, [str(b), '0', '0', '*', '1']))
                    except KeyError: cfin = None      # never materialised = never read or written on this path
                    if cfin is None: ob.queries += 1; ob.unsat += 1
                    else: ob.prove(eng, r, [okc], cfin == z3.Int(f'{base}.{b}.0.0.*.1'), f'staked: message {b} confidence unchanged (conservative: not scaled down)', role='staked-conf')
            except Exception as ex:
                ob.fail(f'staked feed not readable: {ex!r}')
            continue
        if not adj:
            ss = [e for e in E_ if re.search(r'scaled_supplies$', e[1])]
            if fam.startswith('Drift') or len(ss) != 1:
                ob.queries += 1; ob.sat += 1; ob.cex.append({'ob': ob.oid, 'label': f'{fam}: accepting path without any adjustment', 'role': 'no-adjust', 'model': {'trace': [short(e[1]) for e in E_]}, 'replay': None}); continue
            tup = ss[0][3].payload[0][0]
            col = ev(eng.get_path(tup, (('f', 1, I80),)))
            ob.prove(eng, r, [okc], col <= 0, f'{fam}: adjustment skipped only when the reserve has no collateral supply', role='no-adjust')
            continue
        seen = set(); ratios = []
        for e in adj:
            method = 'MinimalSpotMarket' in e[1]
            inp = e[2][1] if method else e[2][0]
            ratios.append(cellname_(eng, e[2][0]) if method else str(z3.simplify(e[2][1].e)))
            nm = str(inp.e)
            if not nm.startswith(base + '.'):
                ob.queries += 1; ob.sat += 1; ob.cex.append({'ob': ob.oid, 'label': f'{fam}: adjuster applied to {nm}, which is not a field of the loaded feed', 'role': 'adjust-input', 'model': {}, 'replay': None}); continue
            path = nm[len(base) + 1:]
            seen.add(path)
            try: fin = ev(_nav(eng, outfeed, path.split('.')))
            except Exception as ex: ob.fail(f'{fam}: cannot read field {path} of the returned feed: {ex!r}'); continue
            res_ = e[3]
            okd = 0 if 'Result' in res_.ty else 1
            ob.prove(eng, r, [okc], z3.And(zint(res_.disc) == okd, fin == res_.payload[okd][0].e), f'{fam}: field {path} of the returned feed == adjuster(output) of that same field; adjuster error propagated', role='adjust-wiring')
        ob.queries += 1
        if seen == want and len(adj) == len(want) and len(set(ratios)) == 1: ob.unsat += 1
        else: ob.sat += 1; ob.cex.append({'ob': ob.oid, 'label': f'{fam}: adjusted fields {sorted(seen)} (expected {sorted(want)}), {len(adj)} adjuster calls, {len(set(ratios))} distinct rates', 'role': 'adjust-wiring', 'model': {}, 'replay': None})
    ob.notes.append(f'{n_ok} accepting paths of adjusted setups')
    ob.need_witness()
    return [ob]


def cellname_(eng, v):
    from specs.flows import cellname
    n = cellname(v)
    if n: return n
    d = eng.deref_val(v) if isinstance(v, RefV) else v
    return getattr(d, 'name', str(d))


def t_pyth_account(world):
    from specs.handlers import short
    eng = world.engine(opaque=[r'deserialize$', r'try_borrow_data$'], max_paths=2000)
    eng.summaries = [(re.compile(r'^pyth_solana_receiver_sdk::id$'), lambda e, st, c, a: IntV(PYTH_RECEIVER, 'Pubkey'))]
    f = world.fn(r'(^|::)load_price_update_v2_checked$')
    ai = eng.ex.fresh(f.params[0][1], 'ai'); res = eng.run_fn(f, [ai])
    ob = Ob('C09.c.pyth_account', 'load_price_update_v2_checked: accepted => account owned by the Pyth receiver program (mock id only in non-mainnet builds), first 8 data bytes == PriceUpdateV2 discriminator, payload decoded from byte 8; borrow / decode errors propagate',
            [f.name], 'borsh decoding opaque; byte comparison structural (the compared operands are identified, the memcmp itself is trusted)'); ob.paths = len(res)
    pyth_mock = eng.const_val(None, 'constants::PYTH_ID')
    own = z3.Int('ai*.3*')
    for r, okc in ok_paths(res):
        if ob.witness(eng, r, [okc]) is False: continue
        E_ = [e for e in flat_events(r['events']) if e[0] == 'call']
        ob.prove(eng, r, [okc], z3.Or([own == PYTH_RECEIVER] + ([own == pyth_mock.e] if isinstance(pyth_mock, IntV) else [])), 'owner == Pyth receiver program', role='pyth-owner')
        ne = [e for e in E_ if re.search(r'<&?\[u8\] as PartialEq>::(ne|eq)$', e[1])]
        ix = [e for e in E_ if re.search(r'<\[u8\] as Index<std::ops::Range<usize>>>::index$', e[1])]
        bd = [e for e in E_ if re.search(r'try_borrow_data$', e[1])]
        de = [e for e in E_ if re.search(r'deserialize$', e[1])]
        ok_struct = False; why = 'discriminator comparison not found'
        if len(ne) == 1 and len(ix) >= 1 and len(bd) == 1 and len(de) == 1:
            a0 = eng.deref_val(ne[0][2][0]); a1 = eng.deref_val(ne[0][2][1])
            rng = ix[0][2][1]
            src = eng.deref_val(ix[0][2][0])
            from_ix = isinstance(a0, IntV) and str(a0.e).startswith(str(eng.deref_val(ix[0][3]).e) if isinstance(eng.deref_val(ix[0][3]), IntV) else '##')
            is_disc = isinstance(a1, Opaque) and 'PriceUpdateV2 as anchor_lang::Discriminator>::DISCRIMINATOR' in str(a1)
            r08 = isinstance(rng, StructV) and z3.is_int_value(z3.simplify(rng.fields[0].e)) and z3.simplify(rng.fields[0].e).as_long() == 0 and z3.simplify(rng.fields[1].e).as_long() == 8
            from_data = isinstance(src, IntV) and 'try_borrow_data' in str(src.e)
            ok_struct = bool(from_ix and is_disc and r08 and from_data)
            why = f'compared operand from data[0..8]: {from_ix and r08 and from_data}; against PriceUpdateV2::DISCRIMINATOR: {is_disc}'
        ob.queries += 1
        if ok_struct: ob.unsat += 1
        else: ob.sat += 1; ob.cex.append({'ob': ob.oid, 'label': 'discriminator check: ' + why, 'role': 'discriminator', 'model': {'trace': [short(e[1]) for e in E_]}, 'replay': None}); continue
        res_ne = ne[0][3].e if ne[0][1].endswith('ne') else z3.Not(ne[0][3].e)
        ob.prove(eng, r, [okc], z3.And(z3.Not(res_ne), zint(bd[0][3].disc) == 0, zint(de[0][3].disc) == 0), 'mismatching discriminator / borrow error / decode error rejected', role='discriminator')
    ob.need_witness()
    return [ob]


def t_pyth_age(world):
    eng = world.engine(extra=('typecrate', 'drift', 'pyth'), opaque=[r'load_price_update_v2_checked$'], max_paths=2000)
    f = world.fn(r'price\.rs[^>]*>::load_checked$', pred=lambda f: 'Clock' in f.params[1][1])
    args = [eng.ex.fresh(ty, n) for n, (_, ty) in zip(['ai', 'clock', 'max_age'], f.params)]
    res = eng.run_fn(f, args)
    ob = Ob('C09.c.pyth_age', 'Pyth load_checked (with the receiver SDK\'s get_price_no_older_than_with_custom_verification_level executed from its own MIR): accepted => the update is fully verified, publish_time + max_age >= now (saturating; boundary accepted, one second older rejected), '
            'spot = (price, conf, exponent) and EMA = (ema_price, ema_conf, exponent) of the same verified message',
            [f.name, 'pyth_solana_receiver_sdk::price_update::PriceUpdateV2::get_price_no_older_than_with_custom_verification_level', 'VerificationLevel::gte', 'PriceUpdateV2::get_price_unchecked'],
            'account decoding opaque (arbitrary PriceUpdateV2); all i64 clocks / publish times, all u64 max ages'); ob.paths = len(res)
    PM = STRUCTS['PriceFeedMessage']; PU = STRUCTS['PriceUpdateV2']; FI = STRUCTS['PythPushOraclePriceFeed']
    ci = STRUCTS['Clock'].index('unix_timestamp') if 'Clock' in STRUCTS else 4
    now = z3.Int(f'clock*.{ci}'); age = args[2].e
    n_ok = 0
    for r, okc in ok_paths(res):
        if ob.witness(eng, r, [okc]) is False: continue
        n_ok += 1
        ld = calls(r, r'load_price_update_v2_checked$')
        if len(ld) != 1: ob.fail('account not loaded exactly once'); continue
        upd = ld[0][3].payload[0][0]
        a0 = eng.deref_val(ld[0][2][0])
        ob.queries += 1
        if getattr(a0, 'name', None) == 'ai*': ob.unsat += 1
        else: ob.sat += 1; ob.cex.append({'ob': ob.oid, 'label': 'a different account is loaded', 'role': 'load-target', 'model': {}, 'replay': None})
        base = upd.name
        msg = lambda fld: z3.Int(f'{base}.{PU.index("price_message")}.{PM.index(fld)}')
        vl = z3.Int(f'{base}.{PU.index("verification_level")}.tag')
        ob.prove(eng, r, [okc], z3.And(zint(ld[0][3].disc) == 0, vl == ENUM_VARIANTS_IDX('VerificationLevel', 'Full')), 'load error propagated; verification level is Full', role='verification-level')
        pt = msg('publish_time')
        sat = z3.If(pt + age > 2**63 - 1, 2**63 - 1, pt + age)
        ob.prove(eng, r, [okc, age <= 2**63 - 1], sat >= now, 'publish_time + max_age >= now (saturating)', role='staleness')
        out = r['ret'].payload[0][0]
        def outf(which, k):
            v = eng.get_path(out, (('f', FI.index(which), 'Box<Price>'),))
            v = eng.deref_val(v) if isinstance(v, RefV) else v
            if isinstance(v, StructV) and '__pointee' in v.fields: v = v.fields['__pointee'].val
            return ev(eng.get_path(v, (('f', k, 'i64'),)))
        try:
            ob.prove(eng, r, [okc], z3.And(outf('price', 0) == msg('price'), outf('price', 1) == msg('conf'), outf('price', 2) == msg('exponent'),
                                           outf('ema_price', 0) == msg('ema_price'), outf('ema_price', 1) == msg('ema_conf'), outf('ema_price', 2) == msg('exponent')),
                     'feed fields are those of the verified message (spot and EMA, one exponent)', role='message-fields')
        except Exception as ex:
            ob.fail(f'cannot read the returned feed: {ex!r}')
    # boundary witnesses: exactly max_age old is accepted
    for r, okc in ok_paths(res):
        ld = calls(r, r'load_price_update_v2_checked$')
        if len(ld) != 1: continue
        base = ld[0][3].payload[0][0].name
        pt = z3.Int(f'{base}.{PU.index("price_message")}.{PM.index("publish_time")}')
        ob.witness(eng, r, [okc, now - pt == age, age > 0, age < 1000])
    ob.notes.append(f'{n_ok} accepting paths')
    ob.need_witness()
    return [ob]


def ENUM_VARIANTS_IDX(en, var):
    import mirsym.engine as E
    return E.ENUM_VARIANTS[en].index(var)


def t_max_age(world):
    eng = world.engine(merge=True)
    f = world.fn(r'bank_config\.rs[^>]*>::get_oracle_max_age$')
    cfg = eng.ex.fresh(f.params[0][1], 'cfg'); res = eng.run_fn(f, [cfg])
    ob = Ob('C09.c.max_age', 'get_oracle_max_age: the configured age, or 60 s when 0 is configured for Pyth push', [f.name], 'loop-free'); ob.paths = len(res)
    a = fsym('cfg*', 'BankConfig', 'oracle_max_age'); s = fsym('cfg*', 'BankConfig', 'oracle_setup')
    for r in returned(res):
        if ob.witness(eng, r, []) is False: continue
        ob.prove(eng, r, [], r['ret'].e == z3.If(z3.And(a == 0, s == ENUMS['OracleSetup']['PythPushOracle']), 60, a), 'reference')
    ob.need_witness()
    return [ob]


def t_valuation_asset(world):
    import specs.C04 as C04
    return C04.t_asset_value(world, 'C09.h.asset')


def t_valuation_liab(world):
    import specs.C04 as C04
    return C04.t_liab_value(world, 'C09.h.liab')


def tasks(tier):
    return [('valuation_asset', t_valuation_asset), ('valuation_liab', t_valuation_liab), ('switchboard', t_switchboard), ('scale', t_scale), ('pyth', t_pyth), ('swb_load', t_swb_load), ('adapter', t_adapter), ('adjust', t_adjust), ('pyth_account', t_pyth_account), ('pyth_age', t_pyth_age), ('max_age', t_max_age)] + [(f'zero_price_{w}', mk_zero_price(w)) for w in WITHDRAWS]


def kani(tier):
    if tier != 'thorough': return []
    return [dict(harness='swb_load_checked', oid='C09.k', covers=1, stubs=5, timeout=1500, desc='SECOND ENGINE (Kani/CBMC on the compiled code, REAL byte-level parsing of a symbolic 3.2 KB account): SwitchboardPullPriceFeed::load_checked accepts => owner is the Switchboard program, discriminator matches, now - last_update <= max_age, decoded value/std_dev are the account bytes',
                 functions=['marginfi::state::price::SwitchboardPullPriceFeed::load_checked', 'parse_swb_ignore_alignment', 'LitePullFeedAccountData::from'], bounds='account of exact PullFeedAccountData size with symbolic discriminator, timestamp, value, std_dev; all i64 clocks; max_age <= 65535; unwind 34')]



# ---------------------------------------------------------------- shared with C04.i: how the risk engine pairs positions with the bank / oracle accounts it is handed (a substituted or shifted account is rejected)
def t_load_pairing_shared(world):
    import specs.C04 as C04
    return C04.t_load_pairing(world, 'C09.i')


_t_lps = tasks
def tasks(tier):
    return _t_lps(tier) + [('load_pairing', t_load_pairing_shared)]


# ---------------------------------------------------------------- C09.j: the price helpers used by liquidate / receivership withdraw / bankruptcy go through the confidence-checked getters with the bank's own limits
def t_fetch_helpers(world, prefix='C09.j'):
    from specs.handlers import short
    obs = []
    OPT = ENUMS['OraclePriceType']; BIAS = ENUMS['PriceBias']
    for fname, getter, biased in (('fetch_asset_price_for_bank_low_bias', r'::get_price_of_type$', True), ('fetch_unbiased_price_for_bank', r'::get_price_and_confidence_of_type$', False)):
        eng = world.engine(opaque=[r'oracle_accounts_for_bank$', r'try_from_bank', r'get_price_of_type', r'get_price_and_confidence_of_type', r'OraclePriceFeedAdapter'], merge=False, max_paths=2000)
        f = world.fn(r'(^|::)%s$' % fname)
        args = [eng.ex.fresh(ty, n) for n, (_, ty) in zip(['bank_key', 'bank', 'clock', 'ais'], f.params)]
        res = eng.run_fn(f, args)
        ob = Ob(f'{prefix}.{fname}', f'{fname}: the oracle accounts are located for THIS bank, the adapter is built from this bank, those accounts and the caller\'s clock, and the price comes from the confidence-checked getter '
                f'({"get_price_of_type(RealTime, Some(Low), bank.config.oracle_max_confidence)" if biased else "get_price_and_confidence_of_type(RealTime, bank.config.oracle_max_confidence)"}); every error propagated',
                [f.name], 'loop-free; adapter and getters opaque (C09.b/d decide them); every accepting path'); ob.paths = len(res)
        omc = fsym('bank*', 'Bank', 'config.oracle_max_confidence')
        for r, okc in ok_paths(res):
            if ob.witness(eng, r, [okc]) is False: continue
            Ev = [e for e in flat_events(r['events']) if e[0] == 'call']
            oa = [e for e in Ev if re.search(r'oracle_accounts_for_bank$', e[1])]; tb = [e for e in Ev if re.search(r'try_from_bank$', e[1])]
            gp = [e for e in Ev if re.search(r'::get_price\w*$', e[1])]
            if len(oa) != 1 or len(tb) != 1 or len(gp) != 1:
                ob.shape(min(len(oa), len(tb), len(gp)), 1, f'calls on an accepting path: {[short(e[1]) for e in Ev]}', 'fetch-shape'); continue
            ob.queries += 1
            if re.search(getter, gp[0][1]): ob.unsat += 1
            else: ob.sat += 1; ob.cex.append({'ob': ob.oid, 'label': f'the price is read through {short(gp[0][1])} (the confidence limit is not enforced on this path)', 'role': 'fetch-getter', 'model': {}, 'replay': None}); continue
            nm = lambda v: getattr(eng.deref_val(v), 'name', None)
            ob.queries += 1
            if nm(oa[0][2][1]) == 'bank*' and nm(tb[0][2][0]) == 'bank*' and nm(tb[0][2][2]) == 'clock*' and nm(oa[0][2][2]) == 'ais*': ob.unsat += 1
            else: ob.sat += 1; ob.cex.append({'ob': ob.oid, 'label': 'oracle accounts / adapter are not built from this bank, the given account list and the caller\'s clock', 'role': 'fetch-wiring', 'model': {}, 'replay': None})
            a = gp[0][2]
            conds = [zint(oa[0][3].disc) == 0, zint(tb[0][3].disc) == 0, zint(gp[0][3].disc) == 0, zint(a[1].disc) == OPT['RealTime']]
            if biased: conds += [zint(a[2].disc) == 1, zint(a[2].payload[1][0].disc) == BIAS['Low'], a[3].e == omc]
            else: conds += [a[2].e == omc]
            ob.prove(eng, r, [okc], z3.And(conds), 'real-time price' + (', low bias' if biased else '') + ', the bank\'s own max confidence; errors propagated', role='fetch-args')
        ob.need_witness(); obs.append(ob)
    return obs


_t_fh = tasks
def tasks(tier):
    return _t_fh(tier) + [('fetch_helpers', t_fetch_helpers)]


def t_oracle_accounts_for_bank(world, oid='C09.j.oracle_accounts_for_bank'):
    import mirsym.engine as E
    E.LIST_K = 4
    eng = world.engine(opaque=[r'get_remaining_accounts_per_bank$', r'anchor_lang::'], merge=False, max_paths=5000)
    f = world.fn(r'(^|::)oracle_accounts_for_bank$')
    args = [eng.ex.fresh(ty, n) for n, (_, ty) in zip(['bank_key', 'bank', 'ais'], f.params)]
    res = eng.run_fn(f, args)
    ob = Ob(oid, 'oracle_accounts_for_bank: the bank is located by ITS key (first match), and the oracle accounts returned are the n-1 accounts right after it (n = accounts per bank), which must exist',
            [f.name], 'account list of length <= 4 (list model, closure of position() executed from its MIR); every accepting path'); ob.paths = len(res)
    n_ok = 0
    bk = args[0]
    for r, okc in ok_paths(res):
        if ob.witness(eng, r, [okc]) is False: continue
        n_ok += 1
        Ev = [e for e in flat_events(r['events']) if e[0] == 'call']
        cnt = [e for e in Ev if re.search(r'get_remaining_accounts_per_bank$', e[1])]
        sl = [e for e in Ev if re.search(r'::index$', e[1])]
        if len(cnt) != 1 or len(sl) != 1: ob.shape(min(len(cnt), len(sl)), 1, 'count / slice calls missing', 'locate-shape'); continue
        n = cnt[0][3].payload[0][0].e
        rg = eng.deref_val(sl[0][2][1]); st_, en_ = rg.fields.get('start', rg.fields.get(0)).e, rg.fields.get('end', rg.fields.get(1)).e
        key = lambda i: z3.Int(f'ais*[{i}].0*'); ln = z3.Int('ais*.len'); bkey = eng.deref_val(bk).e
        first = z3.Or([z3.And(st_ == i + 1, i < ln, key(i) == bkey, z3.And([key(j) != bkey for j in range(i)])) for i in range(4)])
        ob.prove(eng, r, [okc], z3.And(first, en_ == st_ + n - 1, en_ <= ln, zint(cnt[0][3].disc) == 0), 'slice == accounts[idx+1 .. idx+n) with idx the first account whose key is the bank key; long enough; count error propagated', role='locate')
    ob.notes.append(f'{n_ok} accepting paths')
    ob.need_witness()
    return [ob]


_t_oab = tasks
def tasks(tier):
    return _t_oab(tier) + [('oracle_accounts_for_bank', t_oracle_accounts_for_bank)]
