"""Handler-level obligations shared by C01.b, C04.g, C06.e, C11.e, C14.b, C16.f: which guard dominates which effect, with what arguments."""
import z3
from mirsym.harness import *
from specs.handlers import *

KIND = ENUMS['InstructionKind']
MACC_FLAGS = STRUCTS['MarginfiAccount'].index('account_flags')
F_DISABLED, F_FLASH, F_RECV, F_DELEV, F_FROZEN = 1, 2, 16, 32, 64


def cellname(v):
    while isinstance(v, RefV):
        n = getattr(v.cell, 'name', None)
        if n: return n
        v = v.cell.val
    if isinstance(v, StructV):
        t = v.fields.get('__target')
        if t is not None: return cellname(t)
        return v.name
    return None


def sum_find(eng, st, callee, args):
    """BankAccountWrapper::find / find_or_create: the wrapper aliases the given bank; the lending account may be modified"""
    kind = 'find_or_create' if 'find_or_create' in callee else 'find'
    bank_ref = args[1]; la = args[2]
    bal = Cell(eng.ex.fresh('Balance', eng.ex.fresh_name('bal')), name=eng.ex.fresh_name('balcell'))
    if isinstance(la, RefV):
        try: eng.set_path(la.cell, la.path, eng.ex.fresh('LendingAccount', eng.ex.fresh_name('havoc_la')))
        except Exception: pass
    w = StructV('BankAccountWrapper', eng.ex.fresh_name('wrapper'), {0: RefV(bal), 1: bank_ref, 'bank': bank_ref, 'balance': RefV(bal)}, lazy=False)
    d = z3.Int(eng.ex.fresh_name(kind + '_disc')); eng.ex.assumptions.append(z3.And(d >= 0, d <= 1))
    st.events.append(('wrap_find', kind, cellname(bank_ref), cellname(la), args[0]))
    return EnumV('Result', d, {0: {0: w}, 1: {0: Opaque('E', 'err')}})


WRAP_OPS = r'BankAccountWrapper::<[^>]*>::(deposit|deposit_no_repay|repay|withdraw|borrow|deposit_ignore_deposit_cap|withdraw_ignore_borrow_cap|withdraw_all|repay_all|close_balance|claim_emissions|settle_emissions_and_get_transfer_amount)$'


def sum_wrap_op(eng, st, callee, args):
    op = re.search(WRAP_OPS, callee).group(1)
    w = eng.deref_val(args[0])
    bank_ref = w.fields.get(1) if isinstance(w, StructV) else None
    bal_ref = w.fields.get(0) if isinstance(w, StructV) else None
    bn = cellname(bank_ref) if bank_ref is not None else None
    for ref, ty in ((bank_ref, 'Bank'), (bal_ref, 'Balance')):
        if isinstance(ref, RefV):
            try: eng.set_path(ref.cell, ref.path, eng.ex.fresh(ty, eng.ex.fresh_name('havoc_' + ty)))
            except Exception: pass
    d = z3.Int(eng.ex.fresh_name(op + '_disc')); eng.ex.assumptions.append(z3.And(d >= 0, d <= 1))
    if op in ('withdraw_all', 'repay_all', 'settle_emissions_and_get_transfer_amount'):
        rv = eng.ex.fresh('u64', eng.ex.fresh_name(op + '_ret')); pay = {0: {0: rv}, 1: {0: Opaque('E', 'err')}}
    else:
        rv = None; pay = {0: {0: StructV('()', 'unit', {}, lazy=False)}, 1: {0: Opaque('E', 'err')}}
    st.events.append(('wrap_op', op, bn, args[1] if len(args) > 1 else None, rv, d))
    return EnumV('Result', d, pay)


SUMMARIES = [(r'BankAccountWrapper::<[^>]*>::(find|find_or_create)$', sum_find), (WRAP_OPS, sum_wrap_op)]

FLOWS = {
    'deposit': dict(fn=r'deposit::lending_account_deposit$', kinds=['FailsIfPausedOrReduceState'], ops=['deposit', 'deposit_no_repay'], health=None, disabled=True, acct='marginfi_account'),
    'withdraw': dict(fn=r'withdraw::lending_account_withdraw$', kinds=['FailsInPausedState'], ops=['withdraw', 'withdraw_all'], health='unless-receivership', disabled=True, acct='marginfi_account'),
    'borrow': dict(fn=r'borrow::lending_account_borrow$', kinds=['FailsIfPausedOrReduceState'], ops=['borrow'], health='always', disabled=True, acct='marginfi_account'),
    'repay': dict(fn=r'repay::lending_account_repay$', kinds=['FailsInPausedState'], ops=['repay', 'repay_all'], health=None, disabled=True, acct='marginfi_account'),
    'liquidate': dict(fn=r'liquidate::lending_account_liquidate$', kinds=['FailsInPausedState', 'FailsInPausedState'],
                      ops=['withdraw_ignore_borrow_cap', 'deposit_ignore_deposit_cap', 'repay'], health='always', disabled=False, acct=None),
    'handle_bankruptcy': dict(fn=r'handle_bankruptcy::lending_pool_handle_bankruptcy$', kinds=['FailsInPausedState'], ops=['repay'], health=None, disabled=False, acct=None),
    'close_balance': dict(fn=r'close_balance::lending_account_close_balance$', kinds=[], ops=['close_balance'], health=None, disabled=False, acct=None),
}

# pass-through (integration) banks: same gates, no interest accrual of their own (C06 does not apply)
INTEGRATION_FLOWS = {
    'kamino_deposit': dict(fn=r'kamino::deposit::kamino_deposit$', kinds=['FailsIfPausedOrReduceState'], ops=['deposit_no_repay'], health=None, disabled=True, acct='marginfi_account'),
    'solend_deposit': dict(fn=r'solend::deposit::solend_deposit$', kinds=['FailsIfPausedOrReduceState'], ops=['deposit_no_repay'], health=None, disabled=True, acct='marginfi_account'),
    'drift_deposit': dict(fn=r'drift::deposit::drift_deposit$', kinds=['FailsIfPausedOrReduceState'], ops=['deposit_no_repay'], health=None, disabled=True, acct='marginfi_account'),
    'kamino_withdraw': dict(fn=r'kamino::withdraw::kamino_withdraw$', kinds=['FailsInPausedState'], ops=['withdraw', 'withdraw_all'], health='unless-receivership', disabled=True, acct='marginfi_account'),
    'solend_withdraw': dict(fn=r'solend::withdraw::solend_withdraw$', kinds=['FailsInPausedState'], ops=['withdraw', 'withdraw_all'], health='unless-receivership', disabled=True, acct='marginfi_account'),
    'drift_withdraw': dict(fn=r'drift::withdraw::drift_withdraw$', kinds=['FailsInPausedState'], ops=['withdraw', 'withdraw_all'], health='unless-receivership', disabled=True, acct='marginfi_account'),
}
INTEGRATION_OPAQUE = [r'cpi::', r'Cpi', r'accessor::amount$', r'get_withdraw_token_amount$', r'get_scaled_balance_(de|in)crement$', r'MinimalSpotMarket', r'MinimalUser', r'MinimalReserve', r'MinimalObligation',
                      r'liquidity_to_collateral$', r'collateral_to_liquidity', r'assert_within_one_token$', r'cpi_\w+$',
                      r'DriftWithdraw[^:]*>::\w+$']      # the Drift withdraw's own CPI helper methods (their bodies made the handler explode: > 50 min; opaque: 13 s)
FLOWS.update(INTEGRATION_FLOWS)

SHARE_READERS = r'socialize_loss$|get_liability_amount$|get_asset_amount$|get_remaining_deposit_capacity$'


def run_flow(world, name):
    F = FLOWS[name]
    kernels = [k for k in KERNELS if k != r'BankAccountWrapper']
    eng, f, args, res = run_handler(world, F['fn'], kernels=kernels, summaries=SUMMARIES, extra_opaque=(INTEGRATION_OPAQUE if name in INTEGRATION_FLOWS else ()))
    return eng, f, args, res


def evs(r):
    return list(flat_events(r['events']))


def forced_ok(ob, eng, r, okc, disc, label):
    """on an accepting path the Result with discriminant `disc` must have been Ok (error propagated)"""
    return ob.prove(eng, r, [okc], zint(disc) == 0, label)


def flow_obligations(world, name, props):
    F = FLOWS[name]
    eng, f, args, res = run_flow(world, name)
    obs = {}
    def ob(pid, sub, desc):
        k = f'{pid}.{sub}.{name}'
        if k not in obs:
            obs[k] = Ob(k, desc, [f.name], 'handler mode: kernels opaque (havoc of &mut arguments), wrapper ops summarised; every accepting path enumerated')
            obs[k].paths = len(res)
        return obs[k]
    n_ok = 0
    for r, okc in ok_paths(res):
        E = evs(r)
        idx_ops = [i for i, e in enumerate(E) if e[0] == 'wrap_op' and e[1] in F['ops']]
        all_ops = [i for i, e in enumerate(E) if e[0] == 'wrap_op']
        if not all_ops and name != 'deposit':
            pass
        n_ok += 1
        first_op = min(all_ops) if all_ops else None
        # ---------------- C14.b: bank-state gate before any balance mutation, right constant, error propagated
        if 'C14' in props and F['kinds'] and all_ops:
            o = ob('C14', 'b', f'{name}: validate_bank_state with the required kind precedes every balance mutation and its error is propagated')
            vs = [(i, e) for i, e in enumerate(E) if e[0] == 'call' and re.search(r'validate_bank_state$', e[1])]
            before = [(i, e) for i, e in vs if i < first_op]
            if o.witness(eng, r, [okc]) is not False:
                if len(before) < len(F['kinds']):
                    o.structural(f'only {len(before)} validate_bank_state calls before the first balance mutation (need {len(F["kinds"])})', 'ungated', {'trace': [x[1] if x[0] != 'call' else short(x[1]) for x in E][:60]})
                for (i, e), want in zip(before, F['kinds']):
                    kd = e[2][1]
                    o.prove(eng, r, [okc], zint(kd.disc) == KIND[want] if isinstance(kd, EnumV) else z3.BoolVal(False), f'instruction kind constant == {want}')
                    forced_ok(o, eng, r, okc, e[3].disc, 'bank-state rejection is propagated (no accepting path after Err)')
                # each gated bank is the bank that is mutated
                gated = {cellname(e[2][0]) for i, e in before}
                for i in all_ops:
                    if E[i][2] not in gated: o.structural(f'balance op {E[i][1]} on bank object {E[i][2]} which was not gated by validate_bank_state ({sorted(gated)})', 'ungated-bank', {'trace': [x[1] if x[0] != 'call' else short(x[1]) for x in E][:60]})
        # ---------------- C06.e: accrue first
        if 'C06' in props:
            o = ob('C06', 'e', f'{name}: every read/write of a bank\'s shares is preceded by accrue_interest on the same bank with the clock read in this instruction')
            acc = [(i, e) for i, e in enumerate(E) if e[0] == 'call' and re.search(r'accrue_interest$', e[1])]
            users = [(i, e[2], e[1]) for i, e in enumerate(E) if e[0] == 'wrap_op'] + [(i, e[2], e[1]) for i, e in enumerate(E) if e[0] == 'wrap_find'] + \
                    [(i, cellname(e[2][0]), short(e[1])) for i, e in enumerate(E) if e[0] == 'call' and re.search(SHARE_READERS, e[1])]
            if users and o.witness(eng, r, [okc]) is not False:
                for i, bank, what in users:
                    pre = [(j, e) for j, e in acc if j < i and cellname(e[2][0]) == bank]
                    if not pre:
                        o.sat += 1; o.queries += 1
                        o.cex.append({'ob': o.oid, 'label': f'{what} on {bank} not preceded by accrue_interest on that bank', 'role': f'stale:{what}', 'model': {'trace': [x[1] if x[0] != 'call' else short(x[1]) for x in E][:60]}, 'replay': None})
                        continue
                    j, e = pre[-1]
                    o.prove(eng, r, [okc], e[2][1].e == z3.Int('clock.unix_timestamp'), f'accrual before {what} uses the current clock')
                    forced_ok(o, eng, r, okc, e[3].disc, 'accrual error is propagated')
                # the cache refresh stamps Bank.last_update (frame lemma C01.c): before the accrual it would turn the accrual into a no-op
                for j, e in acc:
                    bank = cellname(e[2][0])
                    early = [x for i2, x in enumerate(E) if i2 < j and x[0] == 'call' and re.search(r'::update_bank_cache$', x[1]) and cellname(x[2][0]) == bank]
                    o.queries += 1
                    if early:
                        o.sat += 1
                        o.cex.append({'ob': o.oid, 'label': f'update_bank_cache (writes last_update) runs on {bank} before its accrue_interest: the accrual sees a zero time delta', 'role': 'stamp-before-accrual', 'model': {'trace': [x[1] if x[0] != 'call' else short(x[1]) for x in E][:60]}, 'replay': None})
                    else: o.unsat += 1
        # ---------------- C16.f: disabled accounts refused; sort after last slot mutation
        if 'C16' in props:
            o = ob('C16', 'f', f'{name}: ACCOUNT_DISABLED accounts are refused; sort_balances runs after the last slot mutation')
            if o.witness(eng, r, [okc]) is not False:
                if F['disabled']:
                    loads = [e for e in E if e[0] == 'call' and 'AccountLoader' in e[1] and 'MarginfiAccount' in e[1]]
                    if not loads: o.fail('no MarginfiAccount load on an accepting path')
                    for e in loads[:1]:
                        flags = z3.Int(f'{e[2][0]}.acct.{MACC_FLAGS}')
                        o.prove(eng, r, [okc], flags % 2 == 0, 'accepting path => ACCOUNT_DISABLED (bit 0) clear')
                slot_mut = [i for i, e in enumerate(E) if (e[0] == 'wrap_find' and e[1] == 'find_or_create') or (e[0] == 'wrap_op' and e[1] in ('withdraw_all', 'repay_all', 'close_balance'))]
                if slot_mut:
                    # per lending account: a sort on the same account object after the last slot mutation
                    sorts = [(i, cellname(e[2][0])) for i, e in enumerate(E) if e[0] == 'call' and re.search(r'sort_balances$', e[1])]
                    if not [i for i, _ in sorts if i > max(slot_mut)] and name != 'liquidate':
                        o.sat += 1; o.cex.append({'ob': o.oid, 'label': 'no sort_balances after the last slot-creating/closing operation', 'role': 'unsorted', 'model': {'trace': [x[1] if x[0] != 'call' else short(x[1]) for x in E][:60]}, 'replay': None})
                    else:
                        o.unsat += 1
                    o.queries += 1
        # ---------------- C16.h: a position can be opened only after the asset-tag compatibility check of THAT bank against THAT account
        if 'C16' in props and any(e[0] == 'wrap_find' and e[1] == 'find_or_create' for e in E):
            o = ob('C16', 'h', f'{name}: every find_or_create(bank, account) is preceded by validate_asset_tags on the same bank and the same account, error propagated')
            if o.witness(eng, r, [okc]) is not False:
                vt = [(i, e) for i, e in enumerate(E) if e[0] == 'call' and re.search(r'::validate_asset_tags$', e[1])]
                for i, e in enumerate(E):
                    if not (e[0] == 'wrap_find' and e[1] == 'find_or_create'): continue
                    bank, la = e[2], e[3]
                    pre = [(j, v) for j, v in vt if j < i and cellname(v[2][0]) == bank and la is not None and cellname(v[2][1]) is not None and str(la).startswith(str(cellname(v[2][1])))]
                    o.queries += 1
                    if not pre:
                        o.sat += 1
                        o.cex.append({'ob': o.oid, 'label': f'find_or_create on bank {bank} / account {la} without a preceding validate_asset_tags of that pair', 'role': 'asset-tags',
                                      'model': {'checked_pairs': [(cellname(v[2][0]), cellname(v[2][1])) for j, v in vt], 'trace': [x[1] if x[0] != 'call' else short(x[1]) for x in E][:60]}, 'replay': None})
                        continue
                    o.unsat += 1
                    forced_ok(o, eng, r, okc, pre[-1][1][3].disc, 'asset-tag mismatch is propagated')
        # ---------------- C04.g: health check after the mutation, error propagated
        if 'C04' in props and F['health'] and all_ops:
            o = ob('C04', 'g', f'{name}: check_account_init_health runs after the balance mutation and sort, and its error is propagated ({F["health"]})')
            if o.witness(eng, r, [okc]) is not False:
                hc = [(i, e) for i, e in enumerate(E) if e[0] == 'call' and re.search(r'check_account_init_health$', e[1])]
                post = [(i, e) for i, e in hc if i > max(all_ops)]
                flagsym = None
                if F['acct']:
                    loads = [e for e in E if e[0] == 'call' and 'AccountLoader' in e[1] and 'MarginfiAccount' in e[1]]
                    if loads: flagsym = z3.Int(f'{loads[0][2][0]}.acct.{MACC_FLAGS}')
                if not post:
                    if F['health'] == 'unless-receivership' and flagsym is not None:
                        o.prove(eng, r, [okc], (flagsym / F_RECV) % 2 == 1, 'health check skipped only for accounts in receivership')
                    else:
                        o.sat += 1; o.queries += 1
                        o.cex.append({'ob': o.oid, 'label': 'accepting path without a health check after the mutation', 'role': 'no-health-check', 'model': {'trace': [x[1] if x[0] != 'call' else short(x[1]) for x in E][:60]}, 'replay': None})
                else:
                    i, e = post[-1]
                    res_tuple = e[3]
                    rr = res_tuple.fields.get(0) if isinstance(res_tuple, StructV) else None
                    if rr is None: rr = eng.get_path(res_tuple, (('f', 0, 'std::result::Result<(), anchor_lang::error::Error>'),))
                    forced_ok(o, eng, r, okc, rr.disc, 'risk-engine rejection is propagated (risk_result?)')
                    sorts = [j for j, x in enumerate(E) if x[0] == 'call' and re.search(r'sort_balances$', x[1])]
                    if not [j for j in sorts if max(all_ops) < j < i]: o.structural('no sort_balances between the mutation and the health check', 'unsorted-health')
                    else: o.unsat += 1; o.queries += 1
    for o in obs.values():
        o.notes.append(f'{n_ok} accepting paths')
        o.need_witness()
    return list(obs.values())


def flow_task(name, props):
    return lambda world: flow_obligations(world, name, props)
