"""C12 — Least privilege: each admin role changes only what it is entitled to."""
import z3
from mirsym.harness import *
from specs.handlers import *

WORLD = ('marginfi', 'typecrate', 'drift')
ASSUMPTIONS = ['write set = fields of the loaded Bank / MarginfiGroup / MarginfiAccount objects whose final symbolic value can differ from the initial one on an accepting path',
               'callees that receive &mut Bank are inlined from their MIR (so their writes are seen); token CPI, logging and events are opaque and cannot touch account data',
               'an Err return discards all writes (Solana atomicity, trusted)']
EMISSION_FLAGS = 3
FREEZE = 8   # FREEZE_SETTINGS = 1 << 3 (cross-checked against the type crate constant below)

WS_OPAQUE = [r'anchor_lang::', r'anchor_spl::', r'transfer_checked', r'CpiContext', r'to_account_info', r'calculate_pre_fee', r'calculate_post_fee', r'emit', r'Event',
             r'sort_by_key', r'check_dupes$', r'has_entries$', r'::validate$', r'validate_entries_with_liability_weights$', r'validate_seven_point$', r'validate_legacy$', r'make_points$', r'milli_to_u32$', r'centi_to_u32$', r'wrapped_i80f48_to_f64$']


def leaves(eng, v, prefix, out, depth=0):
    """(dotted index path, value) for every scalar leaf already materialised in struct value v"""
    if depth > 8: return
    if isinstance(v, (IntV, BoolV)):
        out.append((prefix, v)); return
    if isinstance(v, EnumV):
        out.append((prefix + '.tag' if not v.payload else prefix + '.disc', v)); return
    if isinstance(v, StructV):
        for k, x in v.fields.items():
            if isinstance(k, int):
                sep = f'[{k}]' if v.ty.strip().startswith('[') else f'.{k}'
                leaves(eng, x, prefix + sep, out, depth + 1)


def pretty(sname, idxpath):
    """'.22.4' -> 'config.deposit_limit' using the source field order"""
    out = []; cur = sname
    for tok in re.findall(r'\.\d+|\[\d+\]|\.tag|\.disc', idxpath):
        if tok.startswith('['):
            out.append(tok); m = re.match(r'^\[(.*); .*\]$', cur or ''); cur = m.group(1) if m else None; continue
        if tok in ('.tag', '.disc'): continue
        b = re.sub(r'<.*', '', cur or '').split('::')[-1]
        i = int(tok[1:])
        if b in STRUCTS and i < len(STRUCTS[b]):
            out.append(STRUCTS[b][i]); cur = STRUCT_TYPES[b][i]
        else:
            out.append(str(i)); cur = None
    return '.'.join(out).replace('.[', '[')


def find_accounts(eng, root):
    """account objects reachable from the handler arguments: {cell name: (type, struct value)}"""
    found = {}; seen = set(); stack = [root]
    while stack:
        v = stack.pop()
        if id(v) in seen or v is None: continue
        seen.add(id(v))
        if isinstance(v, Cell):
            if getattr(v, 'name', None) and v.name.endswith('.acct') and isinstance(v.val, StructV): found[v.name] = v.val
            stack.append(v.val)
        elif isinstance(v, RefV): stack.append(v.cell)
        elif isinstance(v, StructV): stack.extend(v.fields.values())
        elif isinstance(v, EnumV):
            for p in v.payload.values():
                if isinstance(p, dict): stack.extend(p.values())
    return found


def write_set(eng, r, okc, ob, allowed, label, flag_rule=None):
    """every materialised leaf of every loaded account either is provably unchanged or is allowed"""
    accts = {}
    for root in r['roots']:
        accts.update(find_accounts(eng, root))
    n = 0
    for cname, sv in accts.items():
        sname = re.sub(r'<.*', '', sv.ty).split('::')[-1]
        if sv.name != cname:
            ob.fail(f'{label}: account object {cname} ({sname}) was replaced wholesale by an opaque callee ({sv.name}) - cannot bound its write set'); continue
        lv = []; leaves(eng, sv, '', lv)
        for idxpath, val in lv:
            init = z3.Int(cname + idxpath) if not isinstance(val, BoolV) else z3.Bool(cname + idxpath)
            cur = ev(val)
            if cur.eq(init): continue
            name = f'{sname}.{pretty(sname, idxpath)}'
            n += 1
            if sname == 'Bank' and pretty(sname, idxpath) == 'flags' and flag_rule is not None:
                ob.prove(eng, r, [okc], flag_rule(init, cur), f'{label}: flags word changes only inside the permitted bits', role='flags-mask',
                         replay=('update_emissions_entry' if label == 'update_emissions_parameters' else None))
                continue
            if any(re.fullmatch(a, name) for a in allowed): continue
            ob.prove(eng, r, [okc], cur == init, f'{label}: {name} is not written', role='writes:' + name)
    return n


FROZEN = lambda f: (f / FREEZE) % 2 == 1

# handler -> (fn regex, allowed write patterns (regex over Struct.field.path), flags rule, extra inlined/opaque)
ROLES = {
    'configure_bank_interest_only': dict(fn=r'configure_bank_lite::lending_pool_configure_bank_interest_only$', role='curve admin',
        allowed=[r'Bank\.config\.interest_rate_config\..*'], frozen_allowed=[], flags=lambda a, b: a == b),
    'configure_bank_limits_only': dict(fn=r'configure_bank_lite::lending_pool_configure_bank_limits_only$', role='limit admin',
        allowed=[r'Bank\.config\.(deposit_limit|borrow_limit|total_asset_value_init_limit)'], frozen_allowed=[r'Bank\.config\.(deposit_limit|borrow_limit)'], flags=lambda a, b: a == b),
    'configure_bank_emode': dict(fn=r'config_bank_emode::lending_pool_configure_bank_emode$', role='e-mode admin',
        allowed=[r'Bank\.emode\..*'], frozen_allowed=None, flags=lambda a, b: a == b),
    'update_emissions_parameters': dict(fn=r'configure_bank::lending_pool_update_emissions_parameters$', role='emissions admin',
        allowed=[r'Bank\.(emissions_rate|emissions_remaining|emissions_mint)'], frozen_allowed=None, flags=lambda a, b: a / 4 == b / 4),
    'setup_emissions': dict(fn=r'configure_bank::lending_pool_setup_emissions$', role='emissions admin',
        allowed=[r'Bank\.(emissions_rate|emissions_remaining|emissions_mint)'], frozen_allowed=None, flags=lambda a, b: a / 4 == b / 4),
    'configure_bank_oracle': dict(fn=r'config_bank_oracle::lending_pool_configure_bank_oracle$', role='group admin (oracle)',
        allowed=[r'Bank\.config\.(oracle_setup|oracle_keys\[0\])'], frozen_allowed=[], flags=lambda a, b: a == b),
    'set_fixed_oracle_price': dict(fn=r'set_fixed_oracle_price::lending_pool_set_fixed_oracle_price$', role='group admin (fixed price)',
        allowed=[r'Bank\.config\.(oracle_setup|oracle_keys\[0\]|fixed_price)'], frozen_allowed=[], flags=lambda a, b: a == b),
    'update_fees_destination_account': dict(fn=r'collect_bank_fees::lending_pool_update_fees_destination_account$', role='group admin (fee destination)',
        allowed=[r'Bank\.fees_destination_account'], frozen_allowed=None, flags=lambda a, b: a == b),
    'force_tokenless_repay_complete': dict(fn=r'configure_bank_lite::lending_pool_force_tokenless_repay_complete$', role='risk admin',
        allowed=[], frozen_allowed=None, flags=lambda a, b: z3.And(a % 64 == b % 64, a / 128 == b / 128, (a / 64) % 2 <= (b / 64) % 2, z3.Implies((a / 32) % 2 == 0, a == b))),
    'pulse_bank_price_cache': dict(fn=r'pulse_bank_price_cache::lending_pool_pulse_bank_price_cache$', role='permissionless (price cache)',
        allowed=[r'Bank\.cache\..*'], frozen_allowed=None, flags=lambda a, b: a == b),
    'propagate_staked_settings': dict(fn=r'propagate_staked_settings::propagate_staked_settings$', role='permissionless (staked settings)',
        allowed=[r'Bank\.config\.(oracle_keys\[0\]|asset_weight_init|asset_weight_maint|deposit_limit|total_asset_value_init_limit|oracle_max_age|risk_tier)'], frozen_allowed=None, flags=lambda a, b: a == b),
    'migrate_curve': dict(fn=r'migrate_curve::migrate_curve$', role='permissionless (curve migration)',
        allowed=[r'Bank\.config\.interest_rate_config\..*'], frozen_allowed=None, flags=lambda a, b: a == b),
    'configure_bank': dict(fn=r'configure_bank::lending_pool_configure_bank$', role='group admin',
        allowed=[r'Bank\.config\.(asset_weight_init|asset_weight_maint|liability_weight_init|liability_weight_maint|deposit_limit|borrow_limit|operational_state|risk_tier|asset_tag|total_asset_value_init_limit|oracle_max_confidence|oracle_max_age)',
                 r'Bank\.config\.interest_rate_config\..*'],
        frozen_allowed=[r'Bank\.config\.(deposit_limit|borrow_limit)'], flags=lambda a, b: z3.And(a % 4 == b % 4, (a / 8) % 2 <= (b / 8) % 2)),
}


def mk_role_task(name):
    R = ROLES[name]
    def task(world):
        eng = world.engine(opaque=WS_OPAQUE, merge=True, max_paths=50000)
        f = world.fn(R['fn'])
        args = [eng.ex.fresh(ty, 'a%d' % i) for i, (n, ty) in enumerate(f.params)]
        res = eng.run_fn(f, args)
        ob = Ob('C12.a.' + name, f'{name} ({R["role"]}): on every accepting path only the fields in the role\'s remit are written; frozen banks: only the limits; the freeze flag is never cleared',
                [f.name], 'handler mode with bank-mutating callees inlined; all argument values incl. all 2^64 flag words and all Option combinations (state-merged)')
        ob.paths = len(res)
        for r, okc in ok_paths(res):
            if ob.witness(eng, r, [okc]) is False: continue
            n = write_set(eng, r, okc, ob, R['allowed'], name, R['flags'])
            ob.notes.append(f'{n} candidate written leaves examined')
            # frozen banks
            accts = {}
            for root in r['roots']: accts.update(find_accounts(eng, root))
            banks = [c for c, sv in accts.items() if 'Bank' in sv.ty]
            for b in banks:
                fl0 = z3.Int(f'{b}.{STRUCTS["Bank"].index("flags")}')
                if R['frozen_allowed'] is not None:
                    sv = accts[b]; lv = []; leaves(eng, sv, '', lv)
                    for idxpath, val in lv:
                        init = z3.Int(b + idxpath) if not isinstance(val, BoolV) else z3.Bool(b + idxpath)
                        cur = ev(val)
                        if cur.eq(init): continue
                        nm = 'Bank.' + pretty('Bank', idxpath)
                        if any(re.fullmatch(a, nm) for a in R['frozen_allowed']): continue
                        ob.prove(eng, r, [okc, FROZEN(fl0)], cur == init, f'frozen bank: {nm} is not written', role='frozen-writes:' + nm)
                # nobody can lift the freeze
                cur_flags = ev(fget(eng, accts[b], 'Bank', 'flags'))
                lemma = []
                if not cur_flags.eq(fl0) and not ob.cex and not ob.unknown:
                    # the mask rule was just proved on this very path: reuse it as a lemma (it makes the bit-8 goal linear)
                    chk = ob._solver(eng, r, [okc], 30000); chk.add(z3.Not(R['flags'](fl0, cur_flags)))
                    if chk.check() == z3.unsat: lemma = [R['flags'](fl0, cur_flags)]
                ob.prove(eng, r, [okc, FROZEN(fl0)] + lemma, FROZEN(cur_flags), 'FREEZE_SETTINGS stays set', role='freeze-cleared',
                         replay=('update_emissions_entry' if name == 'update_emissions_parameters' else None))
        ob.need_witness()
        return [ob]
    return task


def t_flag_fns(world):
    """Bank::override_emissions_flag / update_flag as whole functions"""
    obs = []
    eng = world.engine(merge=True); f = world.fn(r'bank\.rs[^>]*>::override_emissions_flag$')
    bank = eng.ex.fresh('&mut Bank', 'bank'); flag = eng.ex.fresh('u64', 'flag')
    res = eng.run_fn(f, [bank, flag])
    ob = Ob('C12.b.override_emissions_flag', 'override_emissions_flag changes only the two emissions bits of the flags word, for every argument word', [f.name], 'loop-free; all u64 words', role='flags-mask')
    ob.paths = len(res)
    f0 = fsym('bank*', 'Bank', 'flags')
    for r in returned(res):
        if ob.witness(eng, r, []) is False: continue
        f1 = ev(fget(eng, r['roots'][0], 'Bank', 'flags'))
        ob.prove(eng, r, [], f1 / 4 == f0 / 4, 'bits outside EMISSION_FLAGS are preserved', role='flags-mask', replay='override_emissions_flag')
        ob.prove(eng, r, [], f1 % 4 == flag.e % 4, 'the emissions bits take the argument value')
    ob.need_witness(); obs.append(ob)
    f = world.fn(r'bank\.rs[^>]*>::update_flag$')
    ob = Ob('C12.b.update_flag', 'update_flag(value, FLAG) for each of the group flag constants: only that bit changes, it takes the requested value; emissions bits untouched', [f.name],
            'loop-free; all u64 flag words of the bank; the flag argument ranges over the 5 group-flag constants used by the callers')
    for bit in (4, 8, 16, 32, 64):
        eng = world.engine(merge=True)
        bank = eng.ex.fresh('&mut Bank', 'bank'); val = eng.ex.fresh('bool', 'val')
        res = eng.run_fn(f, [bank, val, IntV(z3.IntVal(bit), 'u64')]); ob.paths += len(res)
        for r in returned(res):
            if ob.witness(eng, r, []) is False: continue
            f1 = ev(fget(eng, r['roots'][0], 'Bank', 'flags'))
            ob.prove(eng, r, [], z3.And(f1 % bit == f0 % bit, f1 / (2 * bit) == f0 / (2 * bit)), f'flag {bit}: all other bits preserved')
            ob.prove(eng, r, [], ((f1 / bit) % 2 == 1) == val.e, f'flag {bit}: bit takes the requested value')
    ob.need_witness(); obs.append(ob)
    return obs


def replay_override(model, spec=None):
    f0 = model.get(fsym('bank*', 'Bank', 'flags').decl().name(), 8); fl = model.get('flag', 1)
    out = native([{'fn': 'override_emissions_flag', 'bank': {'flags': str(f0)}, 'flag': str(fl)}])[0]
    if out.get('panic'): return False, {'native': out, 'verdict': 'argument rejected by the assert (fail closed)'}
    f1 = int(out['bank']['flags'])
    viol = (f1 >> 2) != (int(f0) >> 2)
    return viol, {'flags_before': f0, 'argument': fl, 'flags_after': f1, 'verdict': 'non-emission flag bits were overwritten' if viol else 'not reproduced'}


REPLAYERS = {'override_emissions_flag': replay_override}


def tasks(tier):
    return [('role:' + n, mk_role_task(n)) for n in ROLES] + [('flag_fns', t_flag_fns)]


def replay_update_emissions(model, spec=None):
    """native replay through the real program entry (dispatch -> Anchor try_accounts -> handler -> exit)"""
    import struct
    fi = STRUCTS['Bank'].index('flags')
    f0 = next((v for k, v in model.items() if k.endswith(f'.acct.{fi}') and isinstance(v, int)), 12)
    newf = model.get('a1.some', 1)
    bo = lambda v: b'\x00' if v is None else b'\x01' + struct.pack('<Q', int(v) % 2**64)
    args = bo(newf) + bo(None) + bo(None)
    accts = [{'key': 101, 'owner': 'program', 'kind': 'group', 'fields': {'delegate_emissions_admin': 1}},
             {'key': 102, 'signer': True, 'writable': True},
             {'key': 103, 'owner': 'program', 'writable': True, 'kind': 'bank', 'fields': {'group': 0, 'emissions_mint': 3, 'set': {'flags': str(int(f0) % 2**64)}}},
             {'key': 104, 'owner': 'token', 'kind': 'mint'},
             {'pda': ['emissions_token_account_seed', 2, 3], 'owner': 'token', 'writable': True, 'kind': 'token_account', 'fields': {'mint': 3}},
             {'key': 106, 'writable': True}, {'key': 'token', 'owner': 999, 'executable': True}]
    out = native([{'fn': 'entry', 'ix': 'lending_pool_update_emissions_parameters', 'args_hex': args.hex(), 'accounts': accts}])[0]
    if not out.get('ok'): return False, {'native': out, 'verdict': 'instruction rejected natively'}
    f1 = int(out['accounts'][0]['bank']['flags'])
    viol = (f1 >> 2) != (int(f0) % 2**64 >> 2)
    return viol, {'flags_before': int(f0), 'flags_argument': int(newf), 'flags_after': f1, 'signer': 'delegate_emissions_admin',
                  'verdict': 'the emissions admin\'s instruction rewrote non-emission flag bits (e.g. FREEZE_SETTINGS / PERMISSIONLESS_BAD_DEBT_SETTLEMENT)' if viol else 'not reproduced'}


REPLAYERS['update_emissions_entry'] = replay_update_emissions


# ---------------------------------------------------------------- C12.d: forced deleverage - every token that leaves is charged against the group's daily limit
def t_deleverage_limit(world):
    from specs.flows import run_flow, evs, MACC_FLAGS, F_RECV, F_DELEV
    eng, f, args, res = run_flow(world, 'withdraw')
    ob = Ob('C12.d.withdraw', 'withdraw from an account in deleverage: the dollar value charged to the group\'s daily window is calc_value(amount ACTUALLY transferred out, the fetched low-bias price, the bank\'s decimals), '
            'update_withdrawn_equity is called with exactly that value and the current clock, and its rejection (daily limit exceeded) is propagated',
            [f.name], 'handler mode; kernels opaque (update_withdrawn_equity arithmetic is not decided here); every accepting path with ACCOUNT_IN_DELEVERAGE and ACCOUNT_IN_RECEIVERSHIP set (they are set and cleared together by start/end_deleverage)')
    ob.paths = len(res)
    n_ok = 0
    for r, okc in ok_paths(res):
        E = evs(r)
        loads = [e for e in E if e[0] == 'call' and 'AccountLoader' in e[1] and 'MarginfiAccount' in e[1]]
        T = [e for e in E if e[0] == 'call' and re.search(r'withdraw_spl_transfer$', e[1])]
        if not loads or len(T) != 1: continue
        flags = z3.Int(f'{loads[0][2][0]}.acct.{MACC_FLAGS}')
        delev = z3.And((flags / F_DELEV) % 2 == 1, (flags / F_RECV) % 2 == 1)     # start_deleverage sets both flags together (C10), end clears both
        if ob.witness(eng, r, [okc, delev]) is False: continue
        n_ok += 1
        up = [e for e in E if e[0] == 'call' and re.search(r'update_withdrawn_equity$', e[1])]
        cv = [e for e in E if e[0] == 'call' and re.search(r'calc_value$', e[1])]
        fp = [e for e in E if e[0] == 'call' and re.search(r'fetch_asset_price_for_bank_low_bias$', e[1])]
        if len(up) != 1 or len(cv) != 1:
            ob.structural(f'{len(up)} update_withdrawn_equity / {len(cv)} calc_value calls on a deleverage withdrawal', 'limit-not-charged', {'trace': [short(x[1]) if x[0] == 'call' else x[1] for x in E][:60]}); continue
        t_amt = T[0][2][1].e
        ob.prove(eng, r, [okc, delev], cv[0][2][0].e == t_amt * W, 'the valued amount is the amount transferred out', role='limit-amount')
        if len(fp) == 1: ob.prove(eng, r, [okc, delev], cv[0][2][1].e == fp[0][3].payload[0][0].e, 'valued at the fetched low-bias price', role='limit-price')
        else: ob.structural('no single low-bias price fetch on a deleverage withdrawal', 'limit-price')
        ob.prove(eng, r, [okc, delev], z3.And(zint(cv[0][3].disc) == 0, up[0][2][1].e == cv[0][3].payload[0][0].e, up[0][2][2].e == z3.Int('clock.unix_timestamp'), zint(up[0][3].disc) == 0),
                 'update_withdrawn_equity(value, now) with exactly that value; both errors propagated', role='limit-charged')
    ob.notes.append(f'{n_ok} accepting deleverage paths')
    ob.need_witness()
    return [ob]


_t12d = tasks
def tasks(tier):
    return _t12d(tier) + [('deleverage_limit', t_deleverage_limit)]


# ---------------------------------------------------------------- C12.d (kernel): the group's daily deleverage withdrawal window
def t_withdraw_window(world):
    eng = world.engine(merge=False)
    f = world.fn(r'marginfi_group\.rs[^>]*>::update_withdrawn_equity$|MarginfiGroupImpl for [^>]*>::update_withdrawn_equity$')
    ob = Ob('C12.d.window', 'update_withdrawn_equity: the window resets only after >= 24h since the last reset; EVERY call adds floor(value) (saturating) to the amount withdrawn in the current window, '
            'including the call that rolls the window over; Ok with a non-zero limit => withdrawn_today <= daily_limit; Err only when the limit would be exceeded; the limit itself is never written',
            [f.name], 'loop-free; every path; all i64 timestamps, all u32 counters; withdrawn value in [0, 2^32) dollars (above that `to_num::<u32>` wraps in the on-chain profile: reported as an event, outside the claim)')
    g = eng.ex.fresh('&mut MarginfiGroup', 'grp'); x = eng.ex.fresh(I80, 'x'); now = eng.ex.fresh('i64', 'now')
    res = eng.run_fn(f, [g, x, now]); ob.paths = len(res)
    day = eng.const_val(None, 'marginfi_type_crate::constants::DAILY_RESET_INTERVAL')
    if not isinstance(day, IntV) or z3.simplify(day.e).as_long() != 86400: ob.fail('DAILY_RESET_INTERVAL is not 86400 in the type crate MIR'); return [ob]
    lim0 = fsym('grp*', 'MarginfiGroup', 'deleverage_withdraw_window_cache.daily_limit'); wt0 = fsym('grp*', 'MarginfiGroup', 'deleverage_withdraw_window_cache.withdrawn_today')
    lr0 = fsym('grp*', 'MarginfiGroup', 'deleverage_withdraw_window_cache.last_daily_reset_timestamp')
    X = x.e; N = now.e
    dom = [X >= 0, X < (1 << 32) * W]
    diff = N - lr0
    sat = z3.If(diff > 2**63 - 1, 2**63 - 1, z3.If(diff < -2**63, -2**63, diff))
    reset = sat >= 86400
    total = z3.If(reset, 0, wt0) + X / W
    new_wt = z3.If(total > 2**32 - 1, 2**32 - 1, total)
    for variant, kind in ((0, 'Ok'), (1, 'Err')):
        for r, c in ok_paths(res, variant):
            h = dom + [c]
            if ob.witness(eng, r, h) is False: continue
            g1 = r['roots'][0]
            wt1 = ev(fget(eng, g1, 'MarginfiGroup', 'deleverage_withdraw_window_cache.withdrawn_today'))
            lr1 = ev(fget(eng, g1, 'MarginfiGroup', 'deleverage_withdraw_window_cache.last_daily_reset_timestamp'))
            lim1 = ev(fget(eng, g1, 'MarginfiGroup', 'deleverage_withdraw_window_cache.daily_limit'))
            ob.prove(eng, r, h, lim1 == lim0, f'{kind}: the daily limit is not written', role='limit-written')
            if variant == 0:
                ob.prove(eng, r, h, wt1 == new_wt, 'withdrawn_today\' = (0 if the window rolled over else withdrawn_today) + floor(value), saturating at u32::MAX', role='window-accounting', replay='window')
                ob.prove(eng, r, h, lr1 == z3.If(reset, N, lr0), 'the window start moves (to now) only when >= 24h have passed since the last reset', role='window-reset', replay='window')
                ob.prove(eng, r, h + [lim0 != 0], wt1 <= lim0, 'Ok with a limit => the amount withdrawn in the window stays within the limit', role='window-limit', replay='window')
            else:
                ob.prove(eng, r, h, z3.And(lim0 != 0, new_wt > lim0), 'rejected only when the window total would exceed a non-zero limit', role='window-reject', replay='window')
    ob.need_witness()
    return [ob]


_t_ww = tasks
def tasks(tier):
    return _t_ww(tier) + [('withdraw_window', t_withdraw_window)]



# ---------------------------------------------------------------- shared with C08.b: the Anchor constraint sets of this property's instructions (signer role, has_one = group, vault / PDA bindings)
_t_shared_structs = tasks
def tasks(tier):
    from specs.C08 import shared_struct_tasks
    return _t_shared_structs(tier) + shared_struct_tasks('C12.r.', ['LendingPoolConfigureBank', 'LendingPoolConfigureBankInterestOnly', 'LendingPoolConfigureBankLimitsOnly', 'LendingPoolConfigureBankEmode', 'LendingPoolCloneEmode', 'LendingPoolSetupEmissions', 'LendingPoolUpdateEmissionsParameters', 'WriteBankMetadata', 'LendingPoolConfigureBankOracle', 'LendingPoolSetFixedOraclePrice', 'LendingAccountPurgeDelevBalance', 'LendingPoolForceTokenlessRepayComplete', 'StartDeleverage', 'EndDeleverage', 'ConfigureDeleverageWithdrawalLimit', 'MarginfiGroupConfigure'])



def replay_window(model, spec=None):
    """native replay of a C12.d.window counterexample against the real update_withdrawn_equity, judged by an independent reference of the rolling window"""
    g = lambda n, d=0: int(model.get(fsym('grp*', 'MarginfiGroup', 'deleverage_withdraw_window_cache.' + n).decl().name(), d))
    lim, wt, lr = g('daily_limit'), g('withdrawn_today'), g('last_daily_reset_timestamp')
    x = int(model.get('x', 0)); now = int(model.get('now', 0))
    req = {'fn': 'update_withdrawn_equity', 'daily_limit': str(lim), 'withdrawn_today': str(wt), 'last_reset': str(lr), 'value': str(x), 'now': str(now)}
    out = native([req])[0]
    diff = max(min(now - lr, 2**63 - 1), -2**63); reset = diff >= 86400
    exp_wt = min((0 if reset else wt) + (x >> 48), 2**32 - 1); exp_lr = now if reset else lr
    exp_ok = not (lim != 0 and exp_wt > lim)
    viol = bool(out.get('panic')) or (bool(out.get('ok')) != exp_ok) or (out.get('ok') and (int(out['withdrawn_today']) != exp_wt or int(out['last_reset']) != exp_lr or int(out['daily_limit']) != lim))
    return bool(viol), {'request': req, 'native': out, 'reference': {'ok': exp_ok, 'withdrawn_today': exp_wt, 'last_reset': exp_lr},
                        'verdict': 'the real function departs from the rolling-window reference on these inputs' if viol else 'not reproduced'}


REPLAYERS = dict(globals().get('REPLAYERS', {})); REPLAYERS['window'] = replay_window


# ---------------------------------------------------------------- C12.g: the group admin's configure instruction hands each role to the key named for it (shared with C13.h)
def t_group_roles(world):
    import specs.C13 as C13
    return C13.t_group_configure(world, 'C12.g')


_t_gr = tasks
def tasks(tier):
    return _t_gr(tier) + [('group_roles', t_group_roles)]


# ---------------------------------------------------------------- C12.e: a forced deleverage is bracketed like a liquidation and cannot leave the account less healthy (shared with C10.a-e: same code, deleverage discriminators)
def _renamed(task, frm, to):
    def t(world):
        obs = task(world)
        for o in obs:
            if o.oid.startswith(frm): o.oid = to + o.oid[len(frm):]
            for c in o.cex:
                if c.get('ob', '').startswith(frm): c['ob'] = to + c['ob'][len(frm):]
        return obs
    return t


_t_c12e = tasks
def tasks(tier):
    import specs.C10 as C10
    shared = [('bracket_first', C10.mk_first('quick')), ('bracket_last', C10.mk_last('quick')), ('bracket_exclusive', C10.mk_excl('quick')),      # lists <= 4 in both tiers here; C10 itself goes to 6 in the thorough tier
              ('bracket_wiring', C10.t_wiring), ('bracket_start_end', C10.t_start_end),
              ('bracket_start_deleverage', C10.mk_bracket('start_deleverage')), ('bracket_end_deleverage', C10.mk_bracket('end_deleverage'))]
    return _t_c12e(tier) + [(n, _renamed(t, 'C10.', 'C12.e.')) for n, t in shared]



# ---------------------------------------------------------------- second engine (thorough tier): one obligation re-decided by Kani/CBMC on the compiled code
def kani(tier):
    if tier != 'thorough': return []
    return [dict(harness='withdraw_window', oid='C12.k', covers=2, stubs=5, desc='SECOND ENGINE (Kani/CBMC on the compiled code): update_withdrawn_equity == an independent reference of the rolling 24h window, for all u32 counters / limits, all i64 timestamps, all values below 2^32 dollars', functions=['marginfi::state::marginfi_group::MarginfiGroupImpl::update_withdrawn_equity'], bounds='loop-free; value < 2^32 (whole part u32, any 48-bit fraction)')]



# ---------------------------------------------------------------- shared with C08.g: the program entry points forward each argument to the handler parameter of the same name
def t_entry_wiring_shared(world):
    import specs.C08 as C08
    obs = C08.t_entry_wiring(world)
    for o in obs:
        o.oid = 'C12.h'
        for c in o.cex: c['ob'] = 'C12.h'
    return obs


_t_ews = tasks
def tasks(tier):
    return _t_ews(tier) + [('entry_wiring', t_entry_wiring_shared)]
