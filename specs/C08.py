"""C08 — Authorization: only the entitled signer can act on an account, bank or group."""
import z3
from mirsym.harness import *

ASSUMPTIONS = ['Pubkeys are uninterpreted scalars (only compared for equality); Anchor Signer / owner / discriminator checks and sha256 PDA derivation are trusted',
               'an Err return makes the runtime discard every write of the instruction (Solana atomicity, trusted)']
F_RECV, F_FROZEN = 16, 64


def t_signer_auth(world):
    eng = world.engine(merge=True)
    f = world.fn(r'(^|::)is_signer_authorized$')
    args = [eng.ex.fresh(ty, n) for n, (_, ty) in zip(['acct', 'admin', 'signer', 'allow'], f.params)]
    res = eng.run_fn(f, args)
    ob = Ob('C08.a.is_signer_authorized', 'is_signer_authorized == (allow & receivership) | (frozen & signer==admin) | (!frozen & signer==authority), for all flag words and keys',
            [f.name], 'loop-free; all u64 flag words; keys uninterpreted'); ob.paths = len(res)
    flags = fsym('acct*', 'MarginfiAccount', 'account_flags'); auth = fsym('acct*', 'MarginfiAccount', 'authority')
    admin, signer, allow = args[1].e, args[2].e, args[3].e
    recv = (flags / F_RECV) % 2 == 1; frozen = (flags / F_FROZEN) % 2 == 1
    ref = z3.Or(z3.And(allow, recv), z3.And(z3.Not(z3.And(allow, recv)), z3.If(frozen, admin == signer, auth == signer)))
    for r in returned(res):
        if ob.witness(eng, r, []) is False: continue
        ob.prove(eng, r, [], r['ret'].e == ref, 'equals the reference truth table')
        ob.prove(eng, r, [z3.Not(allow), z3.Not(frozen), signer != auth], z3.Not(r['ret'].e), 'a stranger is never authorised on an unfrozen account outside receivership')
        ob.prove(eng, r, [z3.Not(allow), recv, signer != auth, z3.Not(frozen)], z3.Not(r['ret'].e), 'receivership gives no rights when allow_receivership is false')
        ob.prove(eng, r, [frozen, z3.Not(z3.And(allow, recv)), signer != admin], z3.Not(r['ret'].e), 'frozen: only the group admin')
    ob.need_witness()
    f2 = world.fn(r'(^|::)account_not_frozen_for_authority$')
    eng2 = world.engine(merge=True)
    a2 = [eng2.ex.fresh(ty, n) for n, (_, ty) in zip(['acct', 'signer'], f2.params)]
    res2 = eng2.run_fn(f2, a2)
    ob2 = Ob('C08.a.account_not_frozen_for_authority', 'account_not_frozen_for_authority == !(frozen & signer==authority)', [f2.name], 'loop-free'); ob2.paths = len(res2)
    for r in returned(res2):
        if ob2.witness(eng2, r, []) is False: continue
        ob2.prove(eng2, r, [], r['ret'].e == z3.Not(z3.And(frozen, auth == a2[1].e)), 'equals the reference')
    ob2.need_witness()
    return [ob, ob2]


def tasks(tier):
    return [('signer_auth', t_signer_auth)]


# ---------------------------------------------------------------- C08.b: every #[derive(Accounts)] constraint set
from specs.accounts import *
GOLDEN = json.load(open('/verif/specs/c08_golden.json'))

# instructions where "anyone inside an active receivership" may act (allow_receivership = true): withdraw / repay and the integration withdraws
ALLOW_RECEIVERSHIP = {'LendingAccountWithdraw', 'LendingAccountRepay', 'KaminoWithdraw', 'DriftWithdraw', 'SolendWithdraw'}
# user instructions that must obey the authority rule (signer field, account field)
USER_AUTH = {sn: ('authority', 'marginfi_account') for sn in
             ['LendingAccountDeposit', 'LendingAccountWithdraw', 'LendingAccountBorrow', 'LendingAccountRepay', 'LendingAccountCloseBalance', 'LendingAccountWithdrawEmissions',
              'KaminoDeposit', 'KaminoWithdraw', 'DriftDeposit', 'DriftWithdraw', 'SolendDeposit', 'SolendWithdraw']}
USER_AUTH['LendingAccountLiquidate'] = ('authority', 'liquidator_marginfi_account')
USER_AUTH['TransferToNewAccount'] = ('authority', 'old_marginfi_account')
USER_AUTH['TransferToNewAccountPda'] = ('authority', 'old_marginfi_account')
# strict owner-only instructions (no admin-while-frozen path is required by the property, but owner must sign)
OWNER_ONLY = {'LendingAccountStartFlashloan': ('authority', 'marginfi_account'), 'LendingAccountEndFlashloan': ('authority', 'marginfi_account'),
              'MarginfiAccountClose': ('authority', 'marginfi_account'), 'MarginfiAccountUpdateEmissionsDestinationAccount': ('authority', 'marginfi_account')}
# administrative instructions: (signer field, account field, data path of the role key)
ADMIN_ROLE = {
    'LendingPoolConfigureBank': ('admin', 'group', 'admin'), 'LendingPoolConfigureBankOracle': ('admin', 'group', 'admin'), 'LendingPoolSetFixedOraclePrice': ('admin', 'group', 'admin'),
    'LendingPoolConfigureBankInterestOnly': ('delegate_curve_admin', 'group', 'delegate_curve_admin'), 'LendingPoolConfigureBankLimitsOnly': ('delegate_limit_admin', 'group', 'delegate_limit_admin'),
    'LendingPoolConfigureBankEmode': ('emode_admin', 'group', 'emode_admin'), 'LendingPoolSetupEmissions': ('delegate_emissions_admin', 'group', 'delegate_emissions_admin'),
    'LendingPoolUpdateEmissionsParameters': ('delegate_emissions_admin', 'group', 'delegate_emissions_admin'), 'WriteBankMetadata': ('metadata_admin', 'group', 'metadata_admin'),
    'LendingAccountPurgeDelevBalance': ('risk_admin', 'group', 'risk_admin'), 'LendingPoolForceTokenlessRepayComplete': ('risk_admin', 'group', 'risk_admin'),
    'StartDeleverage': ('risk_admin', 'group', 'risk_admin'), 'EndDeleverage': ('risk_admin', 'group', 'risk_admin'),
    'LendingPoolCloseBank': ('admin', 'group', 'admin'), 'LendingPoolWithdrawFees': ('admin', 'group', 'admin'), 'LendingPoolWithdrawInsurance': ('admin', 'group', 'admin'),
    'LendingPoolUpdateFeesDestinationAccount': ('admin', 'group', 'admin'), 'SetAccountFreeze': ('admin', 'group', 'admin'),
    'MarginfiGroupConfigure': ('admin', 'marginfi_group', 'admin'), 'ConfigureDeleverageWithdrawalLimit': ('admin', 'marginfi_group', 'admin'),
    'EditStakedSettings': ('admin', 'marginfi_group', 'admin'), 'InitStakedSettings': ('admin', 'marginfi_group', 'admin'),
    'LendingPoolAddBank': ('admin', 'marginfi_group', 'admin'), 'LendingPoolAddBankWithSeed': ('admin', 'marginfi_group', 'admin'), 'LendingPoolCloneBank': ('admin', 'marginfi_group', 'admin'),
    'LendingPoolAddBankKamino': ('admin', 'group', 'admin'), 'LendingPoolAddBankDrift': ('admin', 'group', 'admin'), 'LendingPoolAddBankSolend': ('admin', 'group', 'admin'),
    'PanicPause': ('global_fee_admin', 'fee_state', 'global_fee_admin'), 'PanicUnpause': ('global_fee_admin', 'fee_state', 'global_fee_admin'),
    'EditFeeState': ('global_fee_admin', 'fee_state', 'global_fee_admin'), 'ConfigGroupFee': ('global_fee_admin', 'fee_state', 'global_fee_admin'),
}
BANK_VAULTS = {'liquidity_vault': 'liquidity_vault', 'bank_liquidity_vault': 'liquidity_vault', 'insurance_vault': 'insurance_vault', 'bank_insurance_vault': 'insurance_vault', 'fee_vault': 'fee_vault'}


def mk_struct_task(sn, prefix='C08.b.'):
    def task(world):
        T = all_try_accounts(world)
        ob = Ob(prefix + sn, f'{sn}: acceptance condition of the Anchor constraint code implies the reference condition (no constraint lost), signer/has_one/PDA rules',
                [T[sn].name] if sn in T else [], 'loop-free generated code; every accepting path; keys uninterpreted; predicates (pause, authorisation, tags) inlined from their MIR')
        if sn not in T:
            ob.fail('instruction struct disappeared from the program'); return [ob]
        g = GOLDEN.get(sn)
        if g is None or 'error' in g:
            ob.notes.append('not decided: no reference condition (struct not supported by the encoder)' if g else 'unclassified instruction (not in the reference table)')
            if g is None: ob.fail('unclassified instruction struct: add it to the reference table')
            else: ob.queries = 0
            return [ob]
        try:
            c = ok_condition(world, sn, T[sn])
        except Exception as e:
            ob.fail('encoder failed: ' + repr(e)[:200]); return [ob]
        ob.paths = c['total_paths']
        phi = c['phi']
        s = z3.Solver(); s.set('timeout', 60000); s.add(phi); ob.queries += 1
        if s.check() == z3.sat: ob.witness_sat += 1
        # (1) field kinds: a Signer must stay a Signer, loaders keep their account type
        cur = dict(c['fields'])
        for fname, ftype in g['fields']:
            if ftype.startswith('init-or-derived'): continue
            if fname not in cur: ob.fail(f'field {fname} missing'); continue
            ob.queries += 1
            if cur[fname] != ftype:
                ob.sat += 1; ob.cex.append({'ob': ob.oid, 'label': f'account field {fname}: type {ftype} became {cur[fname]}', 'role': f'field-type:{fname}', 'model': {'golden': ftype, 'now': cur[fname]}, 'replay': None})
            else: ob.unsat += 1
        # (2) no weakening: new acceptance => golden acceptance
        decl = decls_for([g['phi'], phi.sexpr()])
        gphi = z3.parse_smt2_string(f"(assert {g['phi']})", decls=decl)[0]
        r = ob.prove(None, None, [phi], gphi, 'accepted now => accepted by the reference constraint set', role='weakened', timeout=120000)
        # (3) rules derived from the property text, independent of the reference snapshot
        K = lambda n: z3.Int(n)
        names = [f for f, _ in c['fields']]; types = dict(c['fields'])
        grp = 'group' if 'group' in names else ('marginfi_group' if 'marginfi_group' in names else None)
        if grp and types.get(grp, '').startswith('AccountLoader<MarginfiGroup'):
            for f, t in c['fields']:
                if t.startswith('AccountLoader<Bank>') or t.startswith('AccountLoader<MarginfiAccount>'):
                    ob.prove(None, None, [phi], K(f'{f}.data.group') == K(f'{grp}.key'), f'{f} belongs to the presented group (has_one = group)', role=f'has_one-group:{f}')
        bank_f = [f for f, t in c['fields'] if t.startswith('AccountLoader<Bank>')]
        if len(bank_f) == 1:
            b = bank_f[0]
            for f in names:
                if f in BANK_VAULTS and not types[f].startswith('init-or-derived'):
                    vf = BANK_VAULTS[f]
                    seedbound = z3.Or([K(f'{f}.key') == PDA_CREATE(K('s0'), SEED_KEY(K(f'{b}.key')), K('s2'), K('s3'), K('s4'), K('program_id'))] +
                                      [K(f'{f}.key') == PDA_FIND(K('s0'), SEED_KEY(K(f'{b}.key')), K('s2'), K('s3'), K('program_id'))])
                    # the vault is either the key stored in the bank or a PDA whose seeds contain the bank key
                    s2 = z3.Solver(); s2.set('timeout', 60000); s2.add(phi); s2.add(K(f'{f}.key') != K(f'{b}.data.{vf}'))
                    s2.add(z3.ForAll([K('s0'), K('s2'), K('s3'), K('s4')], z3.Not(seedbound)))
                    ob.queries += 1; rr = s2.check()
                    if rr == z3.unsat: ob.unsat += 1
                    elif rr == z3.sat: ob.sat += 1; ob.cex.append({'ob': ob.oid, 'label': f'{f} is not bound to the bank (neither bank.{vf} nor a bank-seeded PDA)', 'role': f'vault-binding:{f}', 'model': model_dict(s2.model()), 'replay': None})
                    else: ob.unknown += 1; ob.notes.append(f'UNKNOWN vault binding {f}')
        if sn in USER_AUTH or sn in OWNER_ONLY:
            sf, af = (USER_AUTH.get(sn) or OWNER_ONLY.get(sn))
            flags = K(f'{af}.data.account_flags'); auth = K(f'{af}.data.authority'); signer = K(f'{sf}.key')
            recv = (flags / 16) % 2 == 1; frozen = (flags / 64) % 2 == 1
            admin = K(f'{grp}.data.admin') if grp else z3.IntVal(-7)
            allowed = z3.Or(z3.And(z3.BoolVal(sn in ALLOW_RECEIVERSHIP), recv), z3.And(frozen, signer == admin), z3.And(z3.Not(frozen), signer == auth)) if sn in USER_AUTH else (signer == auth)
            ob.prove(None, None, [phi], allowed, 'signer is the authority (or group admin while frozen' + (', or anyone inside receivership)' if sn in ALLOW_RECEIVERSHIP else ')'), role='authority-rule')
            ob.prove(None, None, [phi], z3.BoolVal(types.get(sf, '').startswith('Signer')), f'{sf} is an Anchor Signer', role='signer-kind')
        if sn in ADMIN_ROLE:
            sf, af, path = ADMIN_ROLE[sn]
            ob.prove(None, None, [phi], K(f'{sf}.key') == K(f'{af}.data.{path}'), f'signed by the role it names ({af}.{path})', role='admin-role')
            ob.prove(None, None, [phi], z3.BoolVal(types.get(sf, '').startswith('Signer')), f'{sf} is an Anchor Signer', role='signer-kind')
        ob.need_witness()
        return [ob]
    return task


_t0 = tasks
def tasks(tier):
    return _t0(tier) + [('accounts:' + sn, mk_struct_task(sn)) for sn in sorted(set(GOLDEN) | set())]
WORLD = ('marginfi', 'typecrate', 'drift', 'kamino', 'solend')


def shared_struct_tasks(prefix, names):
    """the same constraint-set obligations under another property's id (the property's own check must see a lost constraint on ITS instructions)"""
    missing = [n for n in names if n not in GOLDEN]
    if missing: raise LookupError(f'instruction structs not in the reference table: {missing}')
    return [('accounts:' + sn, mk_struct_task(sn, prefix)) for sn in names]



# ---------------------------------------------------------------- C08.e: oracle accounts cannot be substituted (shared with C09.b): every oracle account presented must be the one configured at its index
def t_oracle_substitution(world):
    import specs.C09 as C09
    return C09.t_adapter(world, 'C08.e')


_t_os = tasks
def tasks(tier):
    return _t_os(tier) + [('oracle_substitution', t_oracle_substitution)]



# ---------------------------------------------------------------- shared with C04.i: how the risk engine pairs positions with the bank / oracle accounts it is handed (a substituted or shifted account is rejected)
def t_load_pairing_shared(world):
    import specs.C04 as C04
    return C04.t_load_pairing(world, 'C08.f')


_t_lps = tasks
def tasks(tier):
    return _t_lps(tier) + [('load_pairing', t_load_pairing_shared)]



# ---------------------------------------------------------------- second engine (thorough tier): one obligation re-decided by Kani/CBMC on the compiled code
def kani(tier):
    if tier != 'thorough': return []
    return [dict(harness='signer_auth_table', oid='C08.k', covers=2, stubs=0, desc='SECOND ENGINE (Kani/CBMC on the compiled code): is_signer_authorized / account_not_frozen_for_authority == the reference truth table for all 2^64 flag words and all 32-byte keys', functions=['marginfi::state::marginfi_account::is_signer_authorized', 'account_not_frozen_for_authority'], bounds='unwind 34 (32-byte key comparison); loop-free otherwise')]


# ---------------------------------------------------------------- C08.g: the program's entry points hand each instruction argument to the handler parameter of the same name (auxiliary MIR scan)
def t_entry_wiring(world):
    """Every `#[program]` entry `marginfi::<ix>(ctx, a, b, ..)` is a one-line forwarder. Two arguments of the same type swapped there (e.g. two admin keys, two Option<u64>) compile and pass every test.
    Decided on the MIR text: the handler call receives, at each position, the entry parameter whose debug NAME equals the handler parameter's name (possibly through a pure conversion)."""
    ob = Ob('C08.g', 'program entry points: each instruction argument is forwarded to the handler parameter of the same name, the context first, and the handler\'s result is returned unchanged',
            [], 'auxiliary scan of the MIR text of the 78 entry forwarders (names compared, not a solver query); a forwarder with a shape the scan does not understand, or differently named parameters, is UNDECIDED (exit 2), a name-level swap is a counterexample')
    m = world.load('marginfi')
    txt = open(m.path).read() if hasattr(m, 'path') else open(MIRDIR + '/marginfi.mir').read()
    blocks = {}
    for mm in re.finditer(r'^fn ([^\n(]+)\((.*?)\) -> [^\n]*\{\n(.*?)^\}\n', txt, flags=re.S | re.M):
        blocks[mm.group(1)] = (mm.group(2), mm.group(3))
    entries = {n: b for n, b in blocks.items() if re.match(r'^marginfi::[a-z_0-9]+$', n)}
    if len(entries) < 50: ob.fail(f'only {len(entries)} entry forwarders found: the scan no longer understands the MIR'); return [ob]
    ob.paths = len(entries)
    def dbg(body, nparams):
        d = {}
        for x in re.finditer(r'^\s*debug (\w+) => (_\d+);', body, flags=re.M):
            k = int(x.group(2)[1:])
            if 1 <= k <= nparams: d[k] = x.group(1)
        return d
    nparams = lambda sig: len(re.findall(r'(?:^|, )_\d+: ', sig))
    for name, (sig, body) in sorted(entries.items()):
        np_ = nparams(sig); names = dbg(body, np_)
        calls = re.findall(r'^\s*(_\d+) = ([^\n]*?)\((.*)\) -> \[return', body, flags=re.M)
        conv = {}; handler = None
        for dest, callee, argstr in calls:
            args = [a.strip() for a in split_args(argstr)]
            if dest == '_0' and handler is None and not re.search(r'as (Into|From)<', callee): handler = (callee.strip(), args)
            elif re.search(r'as (Into|From)<|::into$|::from$', callee) and len(args) == 1:
                src = re.sub(r'^(copy|move) ', '', args[0]); conv[dest] = src
            else: handler = handler or None
        if handler is None or len([c for c in calls if c[0] == '_0']) != 1:
            ob.fail(f'{name}: forwarder shape not understood ({len(calls)} calls)'); continue
        callee, args = handler
        hb = blocks.get(callee) or next((b for n, b in blocks.items() if n.endswith('::' + callee.split('::')[-1]) and n.split('::')[-1] == callee.split('::')[-1] and callee.split('::')[-2:] == n.split('::')[-2:]), None)
        if hb is None: ob.fail(f'{name}: handler {callee} not found in the MIR'); continue
        hnames = dbg(hb[1], nparams(hb[0]))
        ob.queries += 1
        bad = []; undecided = []
        for pos, a in enumerate(args, start=1):
            src = re.sub(r'^(copy|move) ', '', a)
            src = conv.get(src, src)
            if not re.match(r'^_\d+$', src): undecided.append((pos, a)); continue
            ename = names.get(int(src[1:])); hname = hnames.get(pos)
            if ename is None or hname is None: undecided.append((pos, a)); continue
            # reviewed renamings on the reference tree: entry-side name -> handler-side name (a forwarder may call the same thing differently on its two sides)
            RENAMED = {'flags': 'emissions_flags', 'rate': 'emissions_rate', 'bank_config_opt': 'bank_config', 'limit': 'daily_withdrawal_limit', 'admin': 'admin_key'}
            norm = lambda s_: s_.lstrip('_')
            if RENAMED.get(norm(ename)) == norm(hname): continue
            canon = lambda s_: RENAMED.get(norm(s_), norm(s_))
            if norm(ename) == norm(hname): continue
            if norm(hname) in {canon(v) for v in names.values()} or canon(ename) in {norm(v) for v in hnames.values()}:
                bad.append(f'handler parameter `{hname}` (position {pos}) receives the entry argument `{ename}`')
            else: undecided.append((pos, a))
        if bad:
            ob.sat += 1; ob.cex.append({'ob': ob.oid, 'label': f'{name} -> {callee.split("::")[-1]}: ' + '; '.join(bad), 'role': 'entry-swap:' + name.split('::')[-1], 'model': {'entry_params': names, 'handler_params': hnames, 'call_args': args}, 'replay': None})
        elif undecided: ob.fail(f'{name}: parameter names of entry and handler differ at {undecided[:3]} (renamed on one side?) - undecided')
        else: ob.unsat += 1
    ob.witness_sat = 1
    return [ob]


def split_args(s):
    out = []; d = 0; cur = ''
    for ch in s:
        if ch in '(<[{': d += 1
        elif ch in ')>]}': d -= 1
        if ch == ',' and d == 0: out.append(cur); cur = ''
        else: cur += ch
    if cur.strip(): out.append(cur)
    return out


_t_ew = tasks
def tasks(tier):
    return _t_ew(tier) + [('entry_wiring', t_entry_wiring)]


# ---------------------------------------------------------------- C08.h / C08.i: who ends up holding a role or a receivership (shared with C13.h group configure; C10.a the bracket that bounds a receiver's control to one transaction)
_t_c08hi = tasks
def tasks(tier):
    import specs.C13 as C13, specs.C10 as C10
    return _t_c08hi(tier) + [('group_roles', lambda w: C13.t_group_configure(w, 'C08.i')), ('bracket_first', renamed(C10.mk_first('quick'), 'C10.a.', 'C08.h.')),
                             ('bracket_last', renamed(C10.mk_last('quick'), 'C10.a.', 'C08.h.')), ('bracket_exclusive', renamed(C10.mk_excl('quick'), 'C10.a.', 'C08.h.'))]
