"""C08 — Authorization: only the entitled signer can act on an account, bank or group."""
import z3
from mirsym.harness import *

ASSUMPTIONS = ['Pubkeys are uninterpreted scalars (only compared for equality); Anchor Signer / owner / discriminator checks and sha256 PDA derivation are trusted',
               'an Err return makes the runtime discard every write of the instruction (Solana atomicity, trusted)']
F_RECV, F_FROZEN = 16, 64


def t_signer_auth(world):
    eng = world.engine(merge=True)
    f = world.fn(r'(^|::)is_signer_authorized$')
    args = [eng.ex.fresh(ty, n) for n, (_, ty) in zip(['acct', 'admin', 'signer', 'allow'], f.params)]
    res = eng.run_fn(f, args)
    ob = Ob('C08.a.is_signer_authorized', 'is_signer_authorized == (allow & receivership) | (frozen & signer==admin) | (!frozen & signer==authority), for all flag words and keys',
            [f.name], 'loop-free; all u64 flag words; keys uninterpreted'); ob.paths = len(res)
    flags = fsym('acct*', 'MarginfiAccount', 'account_flags'); auth = fsym('acct*', 'MarginfiAccount', 'authority')
    admin, signer, allow = args[1].e, args[2].e, args[3].e
    recv = (flags / F_RECV) % 2 == 1; frozen = (flags / F_FROZEN) % 2 == 1
    ref = z3.Or(z3.And(allow, recv), z3.And(z3.Not(z3.And(allow, recv)), z3.If(frozen, admin == signer, auth == signer)))
    for r in returned(res):
        if ob.witness(eng, r, []) is False: continue
        ob.prove(eng, r, [], r['ret'].e == ref, 'equals the reference truth table')
        ob.prove(eng, r, [z3.Not(allow), z3.Not(frozen), signer != auth], z3.Not(r['ret'].e), 'a stranger is never authorised on an unfrozen account outside receivership')
        ob.prove(eng, r, [z3.Not(allow), recv, signer != auth, z3.Not(frozen)], z3.Not(r['ret'].e), 'receivership gives no rights when allow_receivership is false')
        ob.prove(eng, r, [frozen, z3.Not(z3.And(allow, recv)), signer != admin], z3.Not(r['ret'].e), 'frozen: only the group admin')
    ob.need_witness()
    f2 = world.fn(r'(^|::)account_not_frozen_for_authority$')
    eng2 = world.engine(merge=True)
    a2 = [eng2.ex.fresh(ty, n) for n, (_, ty) in zip(['acct', 'signer'], f2.params)]
    res2 = eng2.run_fn(f2, a2)
    ob2 = Ob('C08.a.account_not_frozen_for_authority', 'account_not_frozen_for_authority == !(frozen & signer==authority)', [f2.name], 'loop-free'); ob2.paths = len(res2)
    for r in returned(res2):
        if ob2.witness(eng2, r, []) is False: continue
        ob2.prove(eng2, r, [], r['ret'].e == z3.Not(z3.And(frozen, auth == a2[1].e)), 'equals the reference')
    ob2.need_witness()
    return [ob, ob2]


def tasks(tier):
    return [('signer_auth', t_signer_auth)]


# ---------------------------------------------------------------- C08.b: every #[derive(Accounts)] constraint set
from specs.accounts import *
GOLDEN = json.load(open('/verif/specs/c08_golden.json'))

# instructions where "anyone inside an active receivership" may act (allow_receivership = true): withdraw / repay and the integration withdraws
ALLOW_RECEIVERSHIP = {'LendingAccountWithdraw', 'LendingAccountRepay', 'KaminoWithdraw', 'DriftWithdraw', 'SolendWithdraw'}
# user instructions that must obey the authority rule (signer field, account field)
USER_AUTH = {sn: ('authority', 'marginfi_account') for sn in
             ['LendingAccountDeposit', 'LendingAccountWithdraw', 'LendingAccountBorrow', 'LendingAccountRepay', 'LendingAccountCloseBalance', 'LendingAccountWithdrawEmissions',
              'KaminoDeposit', 'KaminoWithdraw', 'DriftDeposit', 'DriftWithdraw', 'SolendDeposit', 'SolendWithdraw']}
USER_AUTH['LendingAccountLiquidate'] = ('authority', 'liquidator_marginfi_account')
USER_AUTH['TransferToNewAccount'] = ('authority', 'old_marginfi_account')
USER_AUTH['TransferToNewAccountPda'] = ('authority', 'old_marginfi_account')
# strict owner-only instructions (no admin-while-frozen path is required by the property, but owner must sign)
OWNER_ONLY = {'LendingAccountStartFlashloan': ('authority', 'marginfi_account'), 'LendingAccountEndFlashloan': ('authority', 'marginfi_account'),
              'MarginfiAccountClose': ('authority', 'marginfi_account'), 'MarginfiAccountUpdateEmissionsDestinationAccount': ('authority', 'marginfi_account')}
# administrative instructions: (signer field, account field, data path of the role key)
ADMIN_ROLE = {
    'LendingPoolConfigureBank': ('admin', 'group', 'admin'), 'LendingPoolConfigureBankOracle': ('admin', 'group', 'admin'), 'LendingPoolSetFixedOraclePrice': ('admin', 'group', 'admin'),
    'LendingPoolConfigureBankInterestOnly': ('delegate_curve_admin', 'group', 'delegate_curve_admin'), 'LendingPoolConfigureBankLimitsOnly': ('delegate_limit_admin', 'group', 'delegate_limit_admin'),
    'LendingPoolConfigureBankEmode': ('emode_admin', 'group', 'emode_admin'), 'LendingPoolSetupEmissions': ('delegate_emissions_admin', 'group', 'delegate_emissions_admin'),
    'LendingPoolUpdateEmissionsParameters': ('delegate_emissions_admin', 'group', 'delegate_emissions_admin'), 'WriteBankMetadata': ('metadata_admin', 'group', 'metadata_admin'),
    'LendingAccountPurgeDelevBalance': ('risk_admin', 'group', 'risk_admin'), 'LendingPoolForceTokenlessRepayComplete': ('risk_admin', 'group', 'risk_admin'),
    'StartDeleverage': ('risk_admin', 'group', 'risk_admin'), 'EndDeleverage': ('risk_admin', 'group', 'risk_admin'),
    'LendingPoolCloseBank': ('admin', 'group', 'admin'), 'LendingPoolWithdrawFees': ('admin', 'group', 'admin'), 'LendingPoolWithdrawInsurance': ('admin', 'group', 'admin'),
    'LendingPoolUpdateFeesDestinationAccount': ('admin', 'group', 'admin'), 'SetAccountFreeze': ('admin', 'group', 'admin'),
    'MarginfiGroupConfigure': ('admin', 'marginfi_group', 'admin'), 'ConfigureDeleverageWithdrawalLimit': ('admin', 'marginfi_group', 'admin'),
    'EditStakedSettings': ('admin', 'marginfi_group', 'admin'), 'InitStakedSettings': ('admin', 'marginfi_group', 'admin'),
    'LendingPoolAddBank': ('admin', 'marginfi_group', 'admin'), 'LendingPoolAddBankWithSeed': ('admin', 'marginfi_group', 'admin'), 'LendingPoolCloneBank': ('admin', 'marginfi_group', 'admin'),
    'LendingPoolAddBankKamino': ('admin', 'group', 'admin'), 'LendingPoolAddBankDrift': ('admin', 'group', 'admin'), 'LendingPoolAddBankSolend': ('admin', 'group', 'admin'),
    'PanicPause': ('global_fee_admin', 'fee_state', 'global_fee_admin'), 'PanicUnpause': ('global_fee_admin', 'fee_state', 'global_fee_admin'),
    'EditFeeState': ('global_fee_admin', 'fee_state', 'global_fee_admin'), 'ConfigGroupFee': ('global_fee_admin', 'fee_state', 'global_fee_admin'),
}
BANK_VAULTS = {'liquidity_vault': 'liquidity_vault', 'bank_liquidity_vault': 'liquidity_vault', 'insurance_vault': 'insurance_vault', 'bank_insurance_vault': 'insurance_vault', 'fee_vault': 'fee_vault'}


def mk_struct_task(sn, prefix='C08.b.'):
    def task(world):
        T = all_try_accounts(world)
        ob = Ob(prefix + sn, f'{sn}: acceptance condition of the Anchor constraint code implies the reference condition (no constraint lost), signer/has_one/PDA rules',
                [T[sn].name] if sn in T else [], 'loop-free generated code; every accepting path; keys uninterpreted; predicates (pause, authorisation, tags) inlined from their MIR')
        if sn not in T:
            ob.fail('instruction struct disappeared from the program'); return [ob]
        g = GOLDEN.get(sn)
        if g is None or 'error' in g:
            ob.notes.append('not decided: no reference condition (struct not supported by the encoder)' if g else 'unclassified instruction (not in the reference table)')
            if g is None: ob.fail('unclassified instruction struct: add it to the reference table')
            else: ob.queries = 0
            return [ob]
        try:
            c = ok_condition(world, sn, T[sn])
        except Exception as e:
            ob.fail('encoder failed: ' + repr(e)[:200]); return [ob]
        ob.paths = c['total_paths']
        phi = c['phi']
        s = z3.Solver(); s.set('timeout', 60000); s.add(phi); ob.queries += 1
        if s.check() == z3.sat: ob.witness_sat += 1
        # (1) field kinds: a Signer must stay a Signer, loaders keep their account type
        cur = dict(c['fields'])
        for fname, ftype in g['fields']:
            if ftype.startswith('init-or-derived'): continue
            if fname not in cur: ob.fail(f'field {fname} missing'); continue
            ob.queries += 1
            if cur[fname] != ftype:
                ob.sat += 1; ob.cex.append({'ob': ob.oid, 'label': f'account field {fname}: type {ftype} became {cur[fname]}', 'role': f'field-type:{fname}', 'model': {'golden': ftype, 'now': cur[fname]}, 'replay': None})
            else: ob.unsat += 1
        # (2) no weakening: new acceptance => golden acceptance
        decl = decls_for([g['phi'], phi.sexpr()])
        gphi = z3.parse_smt2_string(f"(assert {g['phi']})", decls=decl)[0]
        r = ob.prove(None, None, [phi], gphi, 'accepted now => accepted by the reference constraint set', role='weakened', timeout=120000)
        # (3) rules derived from the property text, independent of the reference snapshot
        K = lambda n: z3.Int(n)
        names = [f for f, _ in c['fields']]; types = dict(c['fields'])
        grp = 'group' if 'group' in names else ('marginfi_group' if 'marginfi_group' in names else None)
        if grp and types.get(grp, '').startswith('AccountLoader<MarginfiGroup'):
            for f, t in c['fields']:
                if t.startswith('AccountLoader<Bank>') or t.startswith('AccountLoader<MarginfiAccount>'):
                    ob.prove(None, None, [phi], K(f'{f}.data.group') == K(f'{grp}.key'), f'{f} belongs to the presented group (has_one = group)', role=f'has_one-group:{f}')
        bank_f = [f for f, t in c['fields'] if t.startswith('AccountLoader<Bank>')]
        if len(bank_f) == 1:
            b = bank_f[0]
            for f in names:
                if f in BANK_VAULTS and not types[f].startswith('init-or-derived'):
                    vf = BANK_VAULTS[f]
                    seedbound = z3.Or([K(f'{f}.key') == PDA_CREATE(K('s0'), SEED_KEY(K(f'{b}.key')), K('s2'), K('s3'), K('s4'), K('program_id'))] +
                                      [K(f'{f}.key') == PDA_FIND(K('s0'), SEED_KEY(K(f'{b}.key')), K('s2'), K('s3'), K('program_id'))])
                    # the vault is either the key stored in the bank or a PDA whose seeds contain the bank key
                    s2 = z3.Solver(); s2.set('timeout', 60000); s2.add(phi); s2.add(K(f'{f}.key') != K(f'{b}.data.{vf}'))
                    s2.add(z3.ForAll([K('s0'), K('s2'), K('s3'), K('s4')], z3.Not(seedbound)))
                    ob.queries += 1; rr = s2.check()
                    if rr == z3.unsat: ob.unsat += 1
                    elif rr == z3.sat: ob.sat += 1; ob.cex.append({'ob': ob.oid, 'label': f'{f} is not bound to the bank (neither bank.{vf} nor a bank-seeded PDA)', 'role': f'vault-binding:{f}', 'model': model_dict(s2.model()), 'replay': None})
                    else: ob.unknown += 1; ob.notes.append(f'UNKNOWN vault binding {f}')
        if sn in USER_AUTH or sn in OWNER_ONLY:
            sf, af = (USER_AUTH.get(sn) or OWNER_ONLY.get(sn))
            flags = K(f'{af}.data.account_flags'); auth = K(f'{af}.data.authority'); signer = K(f'{sf}.key')
            recv = (flags / 16) % 2 == 1; frozen = (flags / 64) % 2 == 1
            admin = K(f'{grp}.data.admin') if grp else z3.IntVal(-7)
            allowed = z3.Or(z3.And(z3.BoolVal(sn in ALLOW_RECEIVERSHIP), recv), z3.And(frozen, signer == admin), z3.And(z3.Not(frozen), signer == auth)) if sn in USER_AUTH else (signer == auth)
            ob.prove(None, None, [phi], allowed, 'signer is the authority (or group admin while frozen' + (', or anyone inside receivership)' if sn in ALLOW_RECEIVERSHIP else ')'), role='authority-rule')
            ob.prove(None, None, [phi], z3.BoolVal(types.get(sf, '').startswith('Signer')), f'{sf} is an Anchor Signer', role='signer-kind')
        if sn in ADMIN_ROLE:
            sf, af, path = ADMIN_ROLE[sn]
            ob.prove(None, None, [phi], K(f'{sf}.key') == K(f'{af}.data.{path}'), f'signed by the role it names ({af}.{path})', role='admin-role')
            ob.prove(None, None, [phi], z3.BoolVal(types.get(sf, '').startswith('Signer')), f'{sf} is an Anchor Signer', role='signer-kind')
        ob.need_witness()
        return [ob]
    return task


_t0 = tasks
def tasks(tier):
    return _t0(tier) + [('accounts:' + sn, mk_struct_task(sn)) for sn in sorted(set(GOLDEN) | set())]
WORLD = ('marginfi', 'typecrate', 'drift', 'kamino', 'solend')


def shared_struct_tasks(prefix, names):
    """the same constraint-set obligations under another property's id (the property's own check must see a lost constraint on ITS instructions)"""
    missing = [n for n in names if n not in GOLDEN]
    if missing: raise LookupError(f'instruction structs not in the reference table: {missing}')
    return [('accounts:' + sn, mk_struct_task(sn, prefix)) for sn in names]



# ---------------------------------------------------------------- C08.e: oracle accounts cannot be substituted (shared with C09.b): every oracle account presented must be the one configured at its index
def t_oracle_substitution(world):
    import specs.C09 as C09
    return C09.t_adapter(world, 'C08.e')


_t_os = tasks
def tasks(tier):
    return _t_os(tier) + [('oracle_substitution', t_oracle_substitution)]



# ---------------------------------------------------------------- shared with C04.i: how the risk engine pairs positions with the bank / oracle accounts it is handed (a substituted or shifted account is rejected)
def t_load_pairing_shared(world):
    import specs.C04 as C04
    return C04.t_load_pairing(world, 'C08.f')


_t_lps = tasks
def tasks(tier):
    return _t_lps(tier) + [('load_pairing', t_load_pairing_shared)]



# ---------------------------------------------------------------- second engine (thorough tier): one obligation re-decided by Kani/CBMC on the compiled code
def kani(tier):
    if tier != 'thorough': return []
    return [dict(harness='signer_auth_table', oid='C08.k', covers=2, stubs=0, desc='SECOND ENGINE (Kani/CBMC on the compiled code): is_signer_authorized / account_not_frozen_for_authority == the reference truth table for all 2^64 flag words and all 32-byte keys', functions=['marginfi::state::marginfi_account::is_signer_authorized', 'account_not_frozen_for_authority'], bounds='unwind 34 (32-byte key comparison); loop-free otherwise')]
