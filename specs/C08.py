"""C08 — Authorization: only the entitled signer can act on an account, bank or group."""
import z3
from mirsym.harness import *

ASSUMPTIONS = ['Pubkeys are uninterpreted scalars (only compared for equality); Anchor Signer / owner / discriminator checks and sha256 PDA derivation are trusted',
               'an Err return makes the runtime discard every write of the instruction (Solana atomicity, trusted)']
F_RECV, F_FROZEN = 16, 64


def t_signer_auth(world):
    eng = world.engine(merge=True)
    f = world.fn(r'(^|::)is_signer_authorized$')
    args = [eng.ex.fresh(ty, n) for n, (_, ty) in zip(['acct', 'admin', 'signer', 'allow'], f.params)]
    res = eng.run_fn(f, args)
    ob = Ob('C08.a.is_signer_authorized', 'is_signer_authorized == (allow & receivership) | (frozen & signer==admin) | (!frozen & signer==authority), for all flag words and keys',
            [f.name], 'loop-free; all u64 flag words; keys uninterpreted'); ob.paths = len(res)
    flags = fsym('acct*', 'MarginfiAccount', 'account_flags'); auth = fsym('acct*', 'MarginfiAccount', 'authority')
    admin, signer, allow = args[1].e, args[2].e, args[3].e
    recv = (flags / F_RECV) % 2 == 1; frozen = (flags / F_FROZEN) % 2 == 1
    ref = z3.Or(z3.And(allow, recv), z3.And(z3.Not(z3.And(allow, recv)), z3.If(frozen, admin == signer, auth == signer)))
    for r in returned(res):
        if ob.witness(eng, r, []) is False: continue
        ob.prove(eng, r, [], r['ret'].e == ref, 'equals the reference truth table')
        ob.prove(eng, r, [z3.Not(allow), z3.Not(frozen), signer != auth], z3.Not(r['ret'].e), 'a stranger is never authorised on an unfrozen account outside receivership')
        ob.prove(eng, r, [z3.Not(allow), recv, signer != auth, z3.Not(frozen)], z3.Not(r['ret'].e), 'receivership gives no rights when allow_receivership is false')
        ob.prove(eng, r, [frozen, z3.Not(z3.And(allow, recv)), signer != admin], z3.Not(r['ret'].e), 'frozen: only the group admin')
    ob.need_witness()
    f2 = world.fn(r'(^|::)account_not_frozen_for_authority$')
    eng2 = world.engine(merge=True)
    a2 = [eng2.ex.fresh(ty, n) for n, (_, ty) in zip(['acct', 'signer'], f2.params)]
    res2 = eng2.run_fn(f2, a2)
    ob2 = Ob('C08.a.account_not_frozen_for_authority', 'account_not_frozen_for_authority == !(frozen & signer==authority)', [f2.name], 'loop-free'); ob2.paths = len(res2)
    for r in returned(res2):
        if ob2.witness(eng2, r, []) is False: continue
        ob2.prove(eng2, r, [], r['ret'].e == z3.Not(z3.And(frozen, auth == a2[1].e)), 'equals the reference')
    ob2.need_witness()
    return [ob, ob2]


def tasks(tier):
    return [('signer_auth', t_signer_auth)]
