"""C07 — Bankruptcy: only real bad debt is discharged; insurance first, rest pro rata."""
import z3
from mirsym.harness import *

ASSUMPTIONS = [
    'pre-state of socialize_loss: total_asset_shares > 0, asset_share_value > 0, loss >= 0 (any i128 magnitudes otherwise)',
    'SPL token program and the insurance vault balance are inputs (trusted / symbolic)',
]
BANKRUPT_THRESHOLD = round(0.1 * W)            # ten cents, I80F48 bits (nearest)
ZERO_AMOUNT_THRESHOLD_BITS = 28147497671      # 0.0001 in I80F48 bits (checked against the type crate's MIR below)


def t_socialize(world):
    eng = world.engine()
    f = world.fn(r'bank\.rs.*::socialize_loss$')
    ob = Ob('C07.c', 'socialize_loss: share value never negative, kill iff wiped out, loss spread exactly (pro rata by construction)',
            [f.name], 'loop-free; all i128 values; every path enumerated')
    bank = eng.ex.fresh('&mut Bank', 'bank'); loss = eng.ex.fresh(I80, 'loss')
    res = eng.run_fn(f, [bank, loss]); ob.paths = len(res)
    tas = fsym('bank*', 'Bank', 'total_asset_shares'); asv0 = fsym('bank*', 'Bank', 'asset_share_value'); L = z3.Int('loss')
    hyps = [tas > 0, asv0 > 0, L >= 0]
    for r, okc in ok_paths(res):
        b1 = r['roots'][0]
        asv1 = ev(fget(eng, b1, 'Bank', 'asset_share_value')); kill = r['ret'].payload[0][0].e
        h = hyps + [okc]
        if ob.witness(eng, r, h) is False:
            continue
        tv0 = (tas * asv0) / W; tv1 = (tas * asv1) / W
        ob.prove(eng, r, h, asv1 >= 0, 'share value non-negative', replay='socialize_loss')
        ob.prove(eng, r, h, kill == (asv1 == 0), 'kill flag iff new share value is zero', replay='socialize_loss')
        ob.prove(eng, r, h, z3.Implies(tv0 > L, z3.And(tv1 <= tv0 - L, tv0 - L - tv1 <= tas / W + 1)),
                 'total deposit value falls by exactly the loss (within total_shares*1ulp+1)', replay='socialize_loss')
        ob.prove(eng, r, h, z3.Implies(tv0 <= L, z3.And(asv1 == 0, kill)), 'wipe-out iff loss >= total value', replay='socialize_loss')
        ob.prove(eng, r, h, z3.Implies(tv0 > L, z3.Or(asv1 > 0, tv0 - L < tas)), 'no kill while value remains (unless < 1 ulp per share)', replay='socialize_loss')
        ob.prove(eng, r, h, asv1 <= asv0, 'share value never increases', replay='socialize_loss')
        ob.prove(eng, r, h, ev(fget(eng, b1, 'Bank', 'total_asset_shares')) == tas, 'share count untouched (every depositor scaled by the same factor)')
        ob.prove(eng, r, h, ev(fget(eng, b1, 'Bank', 'total_liability_shares')) == fsym('bank*', 'Bank', 'total_liability_shares'), 'liability shares untouched')
        ob.prove(eng, r, h, ev(fget(eng, b1, 'Bank', 'liability_share_value')) == fsym('bank*', 'Bank', 'liability_share_value'), 'liability share value untouched')
    ob.need_witness()
    # an Err return must leave the share value as it was (checked_mul / checked_div overflow paths)
    for r, errc in ok_paths(res, 1):
        b1 = r['roots'][0]
        ob.prove(eng, r, hyps + [errc], ev(fget(eng, b1, 'Bank', 'asset_share_value')) == asv0, 'error path leaves share value unchanged')
    return [ob]


def t_bankrupt_check(world):
    eng = world.engine(opaque=[r'get_account_health_components'])
    f = world.fn(r'::check_account_bankrupt$')
    ob = Ob('C07.a', 'check_account_bankrupt: Ok => assets < liabs, assets < 0.1, liabs > 0.0001, not in flash loan; Equity requirement used',
            [f.name], 'loop-free; health components opaque (symbolic pair)')
    args = [eng.ex.fresh(ty, 'a%d' % i) for i, (n, ty) in enumerate(f.params)]
    res = eng.run_fn(f, args); ob.paths = len(res)
    zat = eng.const_val(None, 'marginfi_type_crate::constants::ZERO_AMOUNT_THRESHOLD')
    if not isinstance(zat, IntV) or not z3.is_int_value(z3.simplify(zat.e)):
        ob.fail('cannot evaluate ZERO_AMOUNT_THRESHOLD from the type crate MIR')
        return [ob]
    zthr = z3.simplify(zat.e).as_long()
    if zthr != ZERO_AMOUNT_THRESHOLD_BITS:
        ob.notes.append(f'ZERO_AMOUNT_THRESHOLD bits = {zthr}')
    for r, okc in ok_paths(res):
        cs = calls(r, r'get_account_health_components')
        if len(cs) != 1:
            ob.fail(f'Ok path with {len(cs)} get_account_health_components calls'); continue
        req = cs[0][2][1]
        out = r['ret'].payload[0][0]
        a = ev(out.fields[0]); l = ev(out.fields[1])
        if ob.witness(eng, r, [okc]) is False: continue
        ob.prove(eng, r, [okc], zint(req.disc) == ENUMS['RiskRequirementType']['Equity'] if hasattr(req, 'disc') else z3.BoolVal(False), 'requirement type is Equity')
        ob.prove(eng, r, [okc], a < l, 'assets < liabilities')
        ob.prove(eng, r, [okc], a < BANKRUPT_THRESHOLD, 'assets below the 0.1 bankruptcy threshold')
        ob.prove(eng, r, [okc], l > ZERO_AMOUNT_THRESHOLD_BITS, 'liabilities above 0.0001')
        flags = fsym('a0*.0*', 'MarginfiAccount', 'account_flags')
        ob.prove(eng, r, [okc], (flags / 2) % 2 == 0, 'ACCOUNT_IN_FLASHLOAN (bit 1) is clear')
    ob.need_witness()
    return [ob]


def tasks(tier):
    return [('socialize_loss', t_socialize), ('check_account_bankrupt', t_bankrupt_check)]


# ---------------------------------------------------------------- C07.e: killed-by-bankruptcy is terminal for Bank::configure
KILLED = ENUMS['BankOperationalState']['KilledByBankruptcy']


def replay_configure(model, spec=None):
    W_ = W
    st0 = model.get(fsym('bank*', 'Bank', 'config.operational_state').decl().name(), KILLED)
    oi = STRUCTS['BankConfigOpt'].index('operational_state')
    new = model.get(f'cfg*.{oi}.some.tag', model.get(f'cfg*.{oi}.some', 1))
    bank = {'config.operational_state': str(st0), 'config.asset_weight_init': str(W_ // 2), 'config.asset_weight_maint': str(W_ // 2),
            'config.liability_weight_init': str(W_ + W_ // 4), 'config.liability_weight_maint': str(W_ + W_ // 8), 'config.oracle_max_age': '60',
            'irc.curve_type': '1', 'irc.hundred_util_rate': '1000', 'irc.points': [[0, 0]] * 5}
    req = {'fn': 'configure', 'bank': bank, 'operational_state': str(int(new))}
    out = native([req])[0]
    post = int(out['bank']['config.operational_state'])
    viol = bool(out.get('ok')) and ((int(st0) == KILLED) != (post == KILLED))
    return viol, {'request': req, 'native': {'ok': out.get('ok'), 'err': out.get('err'), 'post_state': post},
                  'verdict': 'Bank::configure returned Ok and moved the bank across the KilledByBankruptcy boundary' if viol else 'not reproduced'}


REPLAYERS = {'configure': replay_configure}


def t_configure_terminal(world):
    eng = world.engine(merge=True, opaque=[r'bank_config::<impl[^>]*>::validate$|BankConfigImpl>::validate$', r'InterestRateConfigImpl>::update$|interest_rate::<impl[^>]*>::update$'])
    f = world.fn(r'bank\.rs[^>]*>::configure$')
    bank = eng.ex.fresh('&mut Bank', 'bank'); cfg = eng.ex.fresh('&BankConfigOpt', 'cfg')
    res = eng.run_fn(f, [bank, cfg])
    ob = Ob('C07.e', 'Bank::configure: Ok never moves a bank out of (or into) KilledByBankruptcy, for all 16 optional fields at once',
            [f.name], 'loop-free; all 16 Option fields symbolic, state-merged; BankConfig::validate opaque (may accept anything)', role='killed-terminal')
    ob.paths = len(res)
    st0 = fsym('bank*', 'Bank', 'config.operational_state')
    for r, okc in ok_paths(res):
        b1 = r['roots'][0]
        st1 = ev(fget(eng, b1, 'Bank', 'config.operational_state'))
        if ob.witness(eng, r, [okc]) is False: continue
        ob.prove(eng, r, [okc, st0 == KILLED], st1 == KILLED, 'a killed bank stays killed (permanently shut)', role='leaves-killed', replay='configure')
        ob.prove(eng, r, [okc, st0 != KILLED], st1 != KILLED, 'no admin can put a bank into the killed state', role='enters-killed', replay='configure')
    ob.need_witness()
    return [ob]


_t0 = tasks
def tasks(tier):
    return _t0(tier) + [('configure_terminal', t_configure_terminal)]



# ---------------------------------------------------------------- shared with C04.a/b: the per-position valuation behind this property's health figures
def t_valuation_asset(world):
    import specs.C04 as C04
    return C04.t_asset_value(world, 'C07.f.asset')


def t_valuation_liab(world):
    import specs.C04 as C04
    return C04.t_liab_value(world, 'C07.f.liab')


_t_val = tasks
def tasks(tier):
    return _t_val(tier) + [('valuation_asset', t_valuation_asset), ('valuation_liab', t_valuation_liab)]


# ---------------------------------------------------------------- C07.b: the bankruptcy handler (insurance first, remainder socialized, exactly the bad debt repaid)
PERMISSIONLESS_BIT = 4          # PERMISSIONLESS_BAD_DEBT_SETTLEMENT_FLAG = 1 << 2 (checked against the type crate's MIR below)
HB = 'LendingPoolHandleBankruptcy'


def t_bankruptcy_handler(world, oid='C07.b'):
    from specs.handlers import run_handler, KERNELS, short, TOKEN_DEREF
    from specs.flows import SUMMARIES, evs, cellname
    from specs.C01 import CACHE_SUMMARIES
    from specs.C12 import find_accounts
    kernels = [k for k in KERNELS if k not in (r'BankAccountWrapper', r'update_bank_cache$', r'update_cache_price$')]
    eng, f, args, res = run_handler(world, r'handle_bankruptcy::lending_pool_handle_bankruptcy$', kernels=kernels, summaries=list(SUMMARIES) + CACHE_SUMMARIES + TOKEN_DEREF)
    ob = Ob(oid, 'handle_bankruptcy: authorised signer unless the bank is permissionless; bankruptcy test passed first; the position of THIS bank owes > 0.0001; '
            'covered = min(bad debt, insurance available), ceil(covered) (or its pre-fee image) moves insurance vault -> liquidity vault; socialize_loss(bad debt - covered); repay(bad debt) on the same bank; '
            'account disabled; bank killed iff socialize_loss says so',
            [f.name], 'handler mode: kernels opaque, wrapper ops summarised, cache refreshers summarised by frame lemma C01.c; 16 slots unrolled; every accepting path'); ob.paths = len(res)
    pf = eng.const_val(None, 'marginfi_type_crate::constants::PERMISSIONLESS_BAD_DEBT_SETTLEMENT_FLAG')
    if not isinstance(pf, IntV) or not z3.is_int_value(z3.simplify(pf.e)) or z3.simplify(pf.e).as_long() != PERMISSIONLESS_BIT:
        ob.fail('PERMISSIONLESS_BAD_DEBT_SETTLEMENT_FLAG is not 1<<2 in the type crate MIR'); return [ob]
    zthr = z3.simplify(eng.const_val(None, 'marginfi_type_crate::constants::ZERO_AMOUNT_THRESHOLD').e).as_long()
    names = STRUCTS[HB]
    BAL = STRUCTS['Balance']
    n_ok = 0
    tr = lambda E: {'trace': [x[1] if x[0] != 'call' else short(x[1]) for x in E][:70]}
    for r, okc in ok_paths(res):
        E = evs(r)
        if ob.witness(eng, r, [okc]) is False: continue
        n_ok += 1
        def one(pat, what):
            c = [(i, e) for i, e in enumerate(E) if e[0] == 'call' and re.search(pat, e[1])]
            if len(c) != 1:
                ob.shape(len(c), 1, f'{len(c)} calls of {what} on an accepting path (exactly one required)', 'missing:' + what, tr(E)); return None
            return c[0]
        bk = one(r'check_account_bankrupt$', 'check_account_bankrupt'); acc = one(r'accrue_interest$', 'accrue_interest')
        gl = one(r'get_liability_amount$', 'get_liability_amount'); T = one(r'withdraw_spl_transfer$', 'withdraw_spl_transfer')
        soc = one(r'socialize_loss$', 'socialize_loss'); sf = one(r'::set_flag$', 'set_flag')
        ops = [(i, e) for i, e in enumerate(E) if e[0] == 'wrap_op']
        finds = [(i, e) for i, e in enumerate(E) if e[0] == 'wrap_find']
        if None in (bk, acc, gl, T, soc, sf): continue
        if [e[1] for _, e in ops] != ['repay'] or len(finds) != 1:
            ob.structural(f'balance operations on an accepting path are {[e[1] for _, e in ops]} (exactly one repay required)', 'ops', tr(E)); continue
        rp = ops[0]
        # order: bankruptcy test -> accrual -> debt read -> insurance transfer -> socialization -> repayment
        order = [bk[0], acc[0], gl[0], T[0], soc[0], finds[0][0], rp[0]]
        ob.queries += 1
        if order == sorted(order): ob.unsat += 1
        else: ob.sat += 1; ob.cex.append({'ob': ob.oid, 'label': 'order of bankruptcy test / accrual / debt read / insurance transfer / socialization / repayment', 'role': 'order', 'model': tr(E), 'replay': None})
        ob.prove(eng, r, [okc], z3.And([zint(x[1][3].disc) == 0 for x in (bk, acc, gl, T, soc)] + [rp[1][5] == 0]), 'every kernel error is propagated', role='errors')
        # the same bank everywhere
        bank = cellname(acc[1][2][0])
        ob.queries += 1
        same = {cellname(gl[1][2][0]), cellname(soc[1][2][0]), cellname(T[1][2][0]), rp[1][2], finds[0][1][2]}
        if same == {bank}: ob.unsat += 1
        else: ob.sat += 1; ob.cex.append({'ob': ob.oid, 'label': f'kernels act on different bank objects {sorted(map(str, same))} vs accrued {bank}', 'role': 'bank-identity', 'model': tr(E), 'replay': None})
        # the debt read is the liability of the ACTIVE slot of THIS bank
        sh = gl[1][2][1]
        m = re.match(r'^(.*)\[(\d+)\]\.(\d+)$', str(sh.e)) if isinstance(sh, IntV) else None
        if not m or int(m.group(3)) != BAL.index('liability_shares'):
            ob.structural(f'bad debt is not read from a position\'s liability_shares (argument {str(getattr(sh, "e", sh))[:80]})', 'debt-source', tr(E)); continue
        slot = f'{m.group(1)}[{m.group(2)}]'
        active = z3.Int(f'{slot}.{BAL.index("active")}'); bpk = z3.Int(f'{slot}.{BAL.index("bank_pk")}')
        bkey = acc[1][2][3].e if isinstance(acc[1][2][3], IntV) else None
        bank_key = z3.Int(bank.replace('.acct', '.key'))
        ob.prove(eng, r, [okc], z3.And(active != 0, bpk == bank_key), 'the debt is read from an active position whose bank is the bank being settled', role='debt-source')
        bd = ev(gl[1][3].payload[0][0])
        ob.prove(eng, r, [okc], bd > zthr, 'bad debt > 0.0001 (a position that owes nothing cannot be written off)', role='no-debt')
        # insurance first
        t_amt = T[1][2][1].e; s_amt = soc[1][2][1].e
        vsyms = [n for n in free_consts(z3.And(r['pc'] + [t_amt >= 0, s_amt >= 0])) if n.startswith('tok(') and n.endswith('.2')]
        if len(vsyms) != 1: ob.fail(f'token-account amounts read on an accepting path: {vsyms} (exactly one expected)'); continue
        mm = re.search(r'a0\.1\*\.(\d+)', vsyms[0])
        which = names[int(mm.group(1))] if mm and int(mm.group(1)) < len(names) else vsyms[0]
        ob.queries += 1
        if which == 'insurance_vault': ob.unsat += 1
        else: ob.sat += 1; ob.cex.append({'ob': ob.oid, 'label': f'the insurance available is read from `{which}` instead of the insurance vault', 'role': 'insurance-source', 'model': {}, 'replay': None}); continue
        vault = z3.Int(vsyms[0])
        post = [(e, c) for e, c in events_with_cond(r['events']) if e[0] == 'call' and re.search(r'calculate_post_fee_spl_deposit_amount$', e[1])]
        pre = [(e, c) for e, c in events_with_cond(r['events']) if e[0] == 'call' and re.search(r'calculate_pre_fee_spl_deposit_amount$', e[1])]
        mn = lambda a, b: z3.If(a <= b, a, b)
        ceilw = lambda x: -((-x) / W)
        def shape(avail, amount_ok):
            cov = mn(bd, avail)
            return z3.And(s_amt == z3.If(bd - cov >= 0, bd - cov, 0), amount_ok(ceilw(cov)))
        msyms = [n for n in free_consts(z3.And(r['pc'] + [t_amt >= 0, s_amt >= 0])) if re.search(r'maybe_take_bank_mint#\d+\.ok\.disc$', n)]
        if len(msyms) > 1: ob.fail(f'several mint options {msyms}'); continue
        has_mint = z3.Int(msyms[0]) == 1 if msyms else z3.BoolVal(False)      # Token-2022 mint account supplied (transfer-fee aware path)
        alts = [z3.And(z3.Not(has_mint), shape(vault * W, lambda c: t_amt == c))]
        for (pe, pc_) in post:
            for (qe, qc) in pre:
                alts.append(z3.And(has_mint, pc_, qc, pe[2][1].e == vault, pe[2][2].e == z3.Int('clock.epoch'), zint(pe[3].disc) == 0, qe[2][2].e == z3.Int('clock.epoch'), zint(qe[3].disc) == 0,
                                   shape(ev(pe[3].payload[0][0]) * W, lambda c: z3.And(qe[2][1].e == c, t_amt == ev(qe[3].payload[0][0])))))
        dom = [bd < (1 << 64) * W, vault >= 0]
        ob.prove(eng, r, [okc] + dom, z3.Or(alts), 'covered = min(bad debt, insurance available); socialized = bad debt - covered; tokens moved = ceil(covered) (or the pre-fee amount of exactly that, at the current epoch)', role='insurance-first')
        ob.prove(eng, r, [okc] + dom, z3.And(s_amt >= 0, s_amt <= bd), 'socialized loss within [0, bad debt]', role='socialized-range')
        ob.prove(eng, r, [okc], rp[1][3].e == bd, 'exactly the bad debt is repaid (written off)', role='repay-amount')
        # route insurance vault -> liquidity vault
        def field_of(info):
            v = eng.deref_val(info); mm = re.search(r'a0\.1\*\.(\d+)', getattr(v, 'name', '') or '')
            return names[int(mm.group(1))] if mm and int(mm.group(1)) < len(names) else getattr(v, 'name', '?')
        route = (field_of(T[1][2][2]), field_of(T[1][2][3]))
        ob.queries += 1
        if route == ('insurance_vault', 'liquidity_vault'): ob.unsat += 1
        else: ob.sat += 1; ob.cex.append({'ob': ob.oid, 'label': f'insurance transfer route is {route}', 'role': 'route', 'model': {}, 'replay': None})
        # authorisation
        accts = {}
        for root in r['roots']: accts.update(find_accounts(eng, root))
        grp = [c for c, sv in accts.items() if 'MarginfiGroup' in sv.ty]
        flags0 = fsym(bank, 'Bank', 'flags')
        signer = z3.Int(f'a0.1*.{names.index("signer")}.key')
        if grp:
            adm = fsym(grp[0], 'MarginfiGroup', 'admin'); radm = fsym(grp[0], 'MarginfiGroup', 'risk_admin')
            ob.prove(eng, r, [okc, (flags0 / PERMISSIONLESS_BIT) % 2 == 0], z3.Or(signer == adm, signer == radm), 'without the permissionless flag only the group admin or the risk admin can settle', role='authorisation')
        else:
            ob.prove(eng, r, [okc], (flags0 / PERMISSIONLESS_BIT) % 2 == 1, 'group never loaded => the bank must be permissionless', role='authorisation')
        # account disabled
        fl = sf[1][2]
        ob.prove(eng, r, [okc], z3.And(fl[1].e == 1, ev(fl[2]) if isinstance(fl[2], BoolV) else z3.BoolVal(False)), 'ACCOUNT_DISABLED is set on the bankrupt account', role='disabled')
        # killed iff socialize_loss says so
        kill = ev(soc[1][3].payload[0][0])
        bobj = accts.get(bank)
        if bobj is None: ob.fail('bank object not found'); continue
        st1 = ev(fget(eng, bobj, 'Bank', 'config.operational_state'))
        suffix = str(fsym('X', 'Bank', 'config.operational_state'))[1:]
        prev = [n for n in free_consts(st1) if n.endswith(suffix)]
        ob.prove(eng, r, [okc, kill], st1 == KILLED, 'a wiped-out bank is marked KilledByBankruptcy', role='kill')
        if len(prev) == 1: ob.prove(eng, r, [okc, z3.Not(kill)], st1 == z3.Int(prev[0]), 'the operational state is untouched when the bank is not wiped out', role='kill-only-if')
        else: ob.prove(eng, r, [okc, z3.Not(kill)], st1 != KILLED if not prev else z3.BoolVal(False), 'the operational state is untouched when the bank is not wiped out', role='kill-only-if')
    ob.notes.append(f'{n_ok} accepting paths')
    ob.need_witness()
    return [ob]


_t_bh = tasks
def tasks(tier):
    return _t_bh(tier) + [('bankruptcy_handler', t_bankruptcy_handler)]


# ---------------------------------------------------------------- C07.d: settlement of a wiped-out bank goes through (socialize_loss zeroes the share value, then the debt is repaid)
def t_repay_after_wipeout(world):
    from specs.wrappers import OpRun, fmul, ZAT, wprove, Q, replay_wrapper
    R = OpRun(world, 'repay')
    ob = Ob('C07.d', 'repay(bad debt) on the settled position succeeds and clears the debt for every deposit share value >= 0, including 0 (the value socialize_loss leaves behind when the loss wipes out all deposits): '
            'otherwise the settlement of exactly the bankruptcies that kill a bank would revert and the bank would never be shut',
            [R.f.name], 'loop-free, state-merged; bad debt = the position\'s whole liability (as the handler computes it); magnitudes: shares < 2^64 tokens, liability share value in (0, 2^20); no asset-side balance; emissions inactive')
    ob.paths = R.paths
    P = R.pre
    dom = [P['asv'] >= 0, P['lsv'] > 0, P['lsv'] < (1 << 20) * W, P['ash'] == 0, P['lsh'] > 0, P['lsh'] <= P['tls'], P['tls'] < (1 << 64) * W, P['tas'] >= 0, P['tas'] < (1 << 64) * W,
           P['flags'] % 4 == 0, P['eo'] >= 0, P['eo'] < (1 << 64) * W, P['erem'] >= 0, P['ins'] >= 0, P['ins'] < (1 << 64) * W, P['bpc'] >= 0, P['bpc'] < 2**31, P['lpc'] >= 0, P['lpc'] < 2**31,
           R.amount == fmul(P['lsh'], P['lsv']), R.amount > ZAT]
    for r, errc in R.err:
        ob.prove(R.eng, r, dom + [errc], z3.BoolVal(False), 'no failing path: the write-off of the whole liability cannot be rejected, whatever the deposit share value', role='settlement-reverts',
                 replay={'kind': 'wrapper_must_succeed', 'op': 'repay'})
    for r, okc in R.ok:
        h = dom + [okc]
        if ob.witness(R.eng, r, h + [P['asv'] == 0]) is False: continue
        wprove(ob, R, r, h, z3.And(Q['lsh'] >= 0, fmul(Q['lsh'], P['lsv']) <= ZAT), 'the debt is cleared (at most dust remains)', role='debt-cleared')
    ob.need_witness('(with deposit share value 0)')
    return [ob]


from specs.wrappers import replay_wrapper as _rw, request_from_env as _rfe
REPLAYERS['wrapper'] = _rw


def replay_must_succeed(model, spec):
    """the real wrapper operation is run on the model's pre-state: an Err (or panic) reproduces the finding"""
    env = {k: v for k, v in model.items() if isinstance(v, (int, bool))}
    req = _rfe(spec['op'], env)
    out = native([req])[0]
    bad = bool(out.get('panic')) or not out.get('ok')
    return bad, {'request': req, 'native': {k: out.get(k) for k in ('ok', 'err', 'panic')}, 'verdict': 'the real operation fails on these inputs' if bad else 'native call returned Ok: not reproduced'}


REPLAYERS['wrapper_must_succeed'] = replay_must_succeed
_t_rw = tasks
def tasks(tier):
    return _t_rw(tier) + [('repay_after_wipeout', t_repay_after_wipeout)]



# ---------------------------------------------------------------- shared with C08.b: the Anchor constraint sets of this property's instructions (signer role, has_one = group, vault / PDA bindings)
_t_shared_structs = tasks
def tasks(tier):
    from specs.C08 import shared_struct_tasks
    return _t_shared_structs(tier) + shared_struct_tasks('C07.g.', ['LendingPoolHandleBankruptcy'])



# ---------------------------------------------------------------- C07.e (frozen path): the limits-only configuration path taken for frozen banks cannot touch the operational state at all
def t_configure_frozen_terminal(world, oid='C07.e.frozen'):
    eng = world.engine(merge=True)
    f = world.fn(r'bank\.rs[^>]*>::configure_unfrozen_fields_only$')
    bank = eng.ex.fresh('&mut Bank', 'bank'); cfg = eng.ex.fresh('&BankConfigOpt', 'cfg')
    res = eng.run_fn(f, [bank, cfg])
    ob = Ob(oid, 'Bank::configure_unfrozen_fields_only (the path configure_bank takes for a frozen bank): never moves a bank out of (or into) KilledByBankruptcy, for all optional fields at once',
            [f.name], 'loop-free; all Option fields symbolic, state-merged', role='killed-terminal')
    ob.paths = len(res)
    st0 = fsym('bank*', 'Bank', 'config.operational_state')
    for r in returned(res):
        okc = z3.simplify(disc_is(r['ret'], 0)) if isinstance(r['ret'], EnumV) else z3.BoolVal(True)
        if z3.is_false(okc): continue
        b1 = r['roots'][0]
        st1 = ev(fget(eng, b1, 'Bank', 'config.operational_state'))
        if ob.witness(eng, r, [okc]) is False: continue
        ob.prove(eng, r, [okc, st0 == KILLED], st1 == KILLED, 'a killed bank stays killed (permanently shut), frozen or not', role='leaves-killed')
        ob.prove(eng, r, [okc, st0 != KILLED], st1 != KILLED, 'no admin can put a bank into the killed state', role='enters-killed')
    ob.need_witness()
    return [ob]


_t_cft = tasks
def tasks(tier):
    return _t_cft(tier) + [('configure_frozen_terminal', t_configure_frozen_terminal)]


# ---------------------------------------------------------------- C07.h: a killed bank refuses every instruction kind (shared with C14.a: the bank-state table)
_t_c07h = tasks
def tasks(tier):
    import specs.C14 as C14
    return _t_c07h(tier) + [('bank_state_table', renamed(C14.t_bank_state, 'C14.a', 'C07.h'))]
