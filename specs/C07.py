"""C07 — Bankruptcy: only real bad debt is discharged; insurance first, rest pro rata."""
import z3
from mirsym.harness import *

ASSUMPTIONS = [
    'pre-state of socialize_loss: total_asset_shares > 0, asset_share_value > 0, loss >= 0 (any i128 magnitudes otherwise)',
    'SPL token program and the insurance vault balance are inputs (trusted / symbolic)',
]
BANKRUPT_THRESHOLD = round(0.1 * W)            # ten cents, I80F48 bits (nearest)
ZERO_AMOUNT_THRESHOLD_BITS = 28147497671      # 0.0001 in I80F48 bits (checked against the type crate's MIR below)


def t_socialize(world):
    eng = world.engine()
    f = world.fn(r'bank\.rs.*::socialize_loss$')
    ob = Ob('C07.c', 'socialize_loss: share value never negative, kill iff wiped out, loss spread exactly (pro rata by construction)',
            [f.name], 'loop-free; all i128 values; every path enumerated')
    bank = eng.ex.fresh('&mut Bank', 'bank'); loss = eng.ex.fresh(I80, 'loss')
    res = eng.run_fn(f, [bank, loss]); ob.paths = len(res)
    tas = fsym('bank*', 'Bank', 'total_asset_shares'); asv0 = fsym('bank*', 'Bank', 'asset_share_value'); L = z3.Int('loss')
    hyps = [tas > 0, asv0 > 0, L >= 0]
    for r, okc in ok_paths(res):
        b1 = r['roots'][0]
        asv1 = ev(fget(eng, b1, 'Bank', 'asset_share_value')); kill = r['ret'].payload[0][0].e
        h = hyps + [okc]
        if ob.witness(eng, r, h) is False:
            continue
        tv0 = (tas * asv0) / W; tv1 = (tas * asv1) / W
        ob.prove(eng, r, h, asv1 >= 0, 'share value non-negative', replay='socialize_loss')
        ob.prove(eng, r, h, kill == (asv1 == 0), 'kill flag iff new share value is zero', replay='socialize_loss')
        ob.prove(eng, r, h, z3.Implies(tv0 > L, z3.And(tv1 <= tv0 - L, tv0 - L - tv1 <= tas / W + 1)),
                 'total deposit value falls by exactly the loss (within total_shares*1ulp+1)', replay='socialize_loss')
        ob.prove(eng, r, h, z3.Implies(tv0 <= L, z3.And(asv1 == 0, kill)), 'wipe-out iff loss >= total value', replay='socialize_loss')
        ob.prove(eng, r, h, z3.Implies(tv0 > L, z3.Or(asv1 > 0, tv0 - L < tas)), 'no kill while value remains (unless < 1 ulp per share)', replay='socialize_loss')
        ob.prove(eng, r, h, asv1 <= asv0, 'share value never increases', replay='socialize_loss')
        ob.prove(eng, r, h, ev(fget(eng, b1, 'Bank', 'total_asset_shares')) == tas, 'share count untouched (every depositor scaled by the same factor)')
        ob.prove(eng, r, h, ev(fget(eng, b1, 'Bank', 'total_liability_shares')) == fsym('bank*', 'Bank', 'total_liability_shares'), 'liability shares untouched')
        ob.prove(eng, r, h, ev(fget(eng, b1, 'Bank', 'liability_share_value')) == fsym('bank*', 'Bank', 'liability_share_value'), 'liability share value untouched')
    ob.need_witness()
    # an Err return must leave the share value as it was (checked_mul / checked_div overflow paths)
    for r, errc in ok_paths(res, 1):
        b1 = r['roots'][0]
        ob.prove(eng, r, hyps + [errc], ev(fget(eng, b1, 'Bank', 'asset_share_value')) == asv0, 'error path leaves share value unchanged')
    return [ob]


def t_bankrupt_check(world):
    eng = world.engine(opaque=[r'get_account_health_components'])
    f = world.fn(r'::check_account_bankrupt$')
    ob = Ob('C07.a', 'check_account_bankrupt: Ok => assets < liabs, assets < 0.1, liabs > 0.0001, not in flash loan; Equity requirement used',
            [f.name], 'loop-free; health components opaque (symbolic pair)')
    args = [eng.ex.fresh(ty, 'a%d' % i) for i, (n, ty) in enumerate(f.params)]
    res = eng.run_fn(f, args); ob.paths = len(res)
    zat = eng.const_val(None, 'marginfi_type_crate::constants::ZERO_AMOUNT_THRESHOLD')
    if not isinstance(zat, IntV) or not z3.is_int_value(z3.simplify(zat.e)):
        ob.fail('cannot evaluate ZERO_AMOUNT_THRESHOLD from the type crate MIR')
        return [ob]
    zthr = z3.simplify(zat.e).as_long()
    if zthr != ZERO_AMOUNT_THRESHOLD_BITS:
        ob.notes.append(f'ZERO_AMOUNT_THRESHOLD bits = {zthr}')
    for r, okc in ok_paths(res):
        cs = calls(r, r'get_account_health_components')
        if len(cs) != 1:
            ob.fail(f'Ok path with {len(cs)} get_account_health_components calls'); continue
        req = cs[0][2][1]
        out = r['ret'].payload[0][0]
        a = ev(out.fields[0]); l = ev(out.fields[1])
        if ob.witness(eng, r, [okc]) is False: continue
        ob.prove(eng, r, [okc], zint(req.disc) == ENUMS['RiskRequirementType']['Equity'] if hasattr(req, 'disc') else z3.BoolVal(False), 'requirement type is Equity')
        ob.prove(eng, r, [okc], a < l, 'assets < liabilities')
        ob.prove(eng, r, [okc], a < BANKRUPT_THRESHOLD, 'assets below the 0.1 bankruptcy threshold')
        ob.prove(eng, r, [okc], l > ZERO_AMOUNT_THRESHOLD_BITS, 'liabilities above 0.0001')
        flags = fsym('a0*.0*', 'MarginfiAccount', 'account_flags')
        ob.prove(eng, r, [okc], (flags / 2) % 2 == 0, 'ACCOUNT_IN_FLASHLOAN (bit 1) is clear')
    ob.need_witness()
    return [ob]


def tasks(tier):
    return [('socialize_loss', t_socialize), ('check_account_bankrupt', t_bankrupt_check)]


# ---------------------------------------------------------------- C07.e: killed-by-bankruptcy is terminal for Bank::configure
KILLED = ENUMS['BankOperationalState']['KilledByBankruptcy']


def replay_configure(model, spec=None):
    W_ = W
    st0 = model.get(fsym('bank*', 'Bank', 'config.operational_state').decl().name(), KILLED)
    oi = STRUCTS['BankConfigOpt'].index('operational_state')
    new = model.get(f'cfg*.{oi}.some.tag', model.get(f'cfg*.{oi}.some', 1))
    bank = {'config.operational_state': str(st0), 'config.asset_weight_init': str(W_ // 2), 'config.asset_weight_maint': str(W_ // 2),
            'config.liability_weight_init': str(W_ + W_ // 4), 'config.liability_weight_maint': str(W_ + W_ // 8), 'config.oracle_max_age': '60',
            'irc.curve_type': '1', 'irc.hundred_util_rate': '1000', 'irc.points': [[0, 0]] * 5}
    req = {'fn': 'configure', 'bank': bank, 'operational_state': str(int(new))}
    out = native([req])[0]
    post = int(out['bank']['config.operational_state'])
    viol = bool(out.get('ok')) and ((int(st0) == KILLED) != (post == KILLED))
    return viol, {'request': req, 'native': {'ok': out.get('ok'), 'err': out.get('err'), 'post_state': post},
                  'verdict': 'Bank::configure returned Ok and moved the bank across the KilledByBankruptcy boundary' if viol else 'not reproduced'}


REPLAYERS = {'configure': replay_configure}


def t_configure_terminal(world):
    eng = world.engine(merge=True, opaque=[r'bank_config::<impl[^>]*>::validate$|BankConfigImpl>::validate$', r'InterestRateConfigImpl>::update$|interest_rate::<impl[^>]*>::update$'])
    f = world.fn(r'bank\.rs[^>]*>::configure$')
    bank = eng.ex.fresh('&mut Bank', 'bank'); cfg = eng.ex.fresh('&BankConfigOpt', 'cfg')
    res = eng.run_fn(f, [bank, cfg])
    ob = Ob('C07.e', 'Bank::configure: Ok never moves a bank out of (or into) KilledByBankruptcy, for all 16 optional fields at once',
            [f.name], 'loop-free; all 16 Option fields symbolic, state-merged; BankConfig::validate opaque (may accept anything)', role='killed-terminal')
    ob.paths = len(res)
    st0 = fsym('bank*', 'Bank', 'config.operational_state')
    for r, okc in ok_paths(res):
        b1 = r['roots'][0]
        st1 = ev(fget(eng, b1, 'Bank', 'config.operational_state'))
        if ob.witness(eng, r, [okc]) is False: continue
        ob.prove(eng, r, [okc, st0 == KILLED], st1 == KILLED, 'a killed bank stays killed (permanently shut)', role='leaves-killed', replay='configure')
        ob.prove(eng, r, [okc, st0 != KILLED], st1 != KILLED, 'no admin can put a bank into the killed state', role='enters-killed', replay='configure')
    ob.need_witness()
    return [ob]


_t0 = tasks
def tasks(tier):
    return _t0(tier) + [('configure_terminal', t_configure_terminal)]



# ---------------------------------------------------------------- shared with C04.a/b: the per-position valuation behind this property's health figures
def t_valuation_asset(world):
    import specs.C04 as C04
    return C04.t_asset_value(world, 'C07.f.asset')


def t_valuation_liab(world):
    import specs.C04 as C04
    return C04.t_liab_value(world, 'C07.f.liab')


_t_val = tasks
def tasks(tier):
    return _t_val(tier) + [('valuation_asset', t_valuation_asset), ('valuation_liab', t_valuation_liab)]
