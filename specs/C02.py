"""C02 — Ledger consistency: bank totals move exactly with the positions."""
import z3
from mirsym.harness import *
from specs.wrappers import *

ASSUMPTIONS = ['inductive step: arbitrary pre-state with share values > 0, position shares <= bank totals',
               'accounts created before v0.1.4 may carry negative position counters (documented in the type crate) - outside the claim']


def mk_same_delta(op):
    def task(world):
        R = OpRun(world, op)
        ob = Ob(f'C02.a.{op}', f'{op}: bank totals change by exactly the position\'s share change (both sides), on every Ok path',
                [R.f.name], 'loop-free; merged paths; all i128 values')
        ob.paths = R.paths
        P = R.pre
        for r, okc in R.ok:
            h = R.base_hyps() + [okc]
            if ob.witness(R.eng, r, h) is False: continue
            d_tas = R.post(r, 'tas') - P['tas']; d_ash = R.post(r, 'ash') - P['ash']
            d_tls = R.post(r, 'tls') - P['tls']; d_lsh = R.post(r, 'lsh') - P['lsh']
            if OPS[op][0] == 'close':
                # close_balance abandons < 0.0001 of value on each side: bank totals untouched, position zeroed
                ob.prove(R.eng, r, h, z3.And(d_tas == 0, d_tls == 0), 'close_balance leaves bank totals untouched', role='close-totals')
                ob.prove(R.eng, r, h, z3.And(fmul(P['ash'], P['asv']) < ZAT, fmul(P['lsh'], P['lsv']) < ZAT),
                         'closed position held < 0.0001 on both sides (the counted dust)', role='close-dust')
                ob.prove(R.eng, r, h, z3.And(R.post(r, 'ash') == 0, R.post(r, 'lsh') == 0, R.post(r, 'active') == 0), 'slot cleared')
            elif op == 'withdraw_all':
                ob.prove(R.eng, r, h, z3.And(d_tas == d_ash, d_ash == -P['ash']), 'Δ bank.total_asset_shares == Δ balance.asset_shares == -position', role='asset-delta')
                ob.prove(R.eng, r, h, z3.And(d_tls == 0, R.post(r, 'lsh') == 0, fmul(P['lsh'], P['lsv']) < ZAT),
                         'other side: only dust (< 0.0001) is abandoned, bank liability total untouched', role='close-dust')
            elif op == 'repay_all':
                ob.prove(R.eng, r, h, z3.And(d_tls == d_lsh, d_lsh == -P['lsh']), 'Δ bank.total_liability_shares == Δ balance.liability_shares == -position', role='liab-delta')
                ob.prove(R.eng, r, h, z3.And(d_tas == 0, R.post(r, 'ash') == 0, fmul(P['ash'], P['asv']) < ZAT),
                         'other side: only dust (< 0.0001) is abandoned, bank asset total untouched', role='close-dust')
            else:
                ob.prove(R.eng, r, h, d_tas == d_ash, 'Δ bank.total_asset_shares == Δ balance.asset_shares', role='asset-delta')
                ob.prove(R.eng, r, h, d_tls == d_lsh, 'Δ bank.total_liability_shares == Δ balance.liability_shares', role='liab-delta')
                ob.prove(R.eng, r, h, z3.And(R.post(r, 'ash') >= 0, R.post(r, 'lsh') >= 0), 'position shares stay non-negative', role='nonneg')
            # share values are never touched by balance operations
            ob.prove(R.eng, r, h, z3.And(R.post(r, 'asv') == P['asv'], R.post(r, 'lsv') == P['lsv']), 'share values untouched', role='sv-frame')
        ob.need_witness()
        return [ob]
    return task


def tasks(tier):
    return [(f'same-delta:{op}', mk_same_delta(op)) for op in OPS]



# ---------------------------------------------------------------- C02.f: account migration moves the positions, it does not duplicate them
def mk_transfer(which):
    def t(world):
        import z3
        from specs.handlers import run_handler, KERNELS, short
        from specs.C12 import find_accounts, leaves
        fnre = r'transfer_account::transfer_to_new_account$' if which == 'keypair' else r'transfer_account::transfer_to_new_account_pda$'
        eng, f, args, res = run_handler(world, fnre, kernels=[k for k in KERNELS if k not in (r'set_flag$',)],
                                        extra_opaque=[r'system_program::transfer$', r'transfer_fee$', r'is_allowed_cpi_for_third_party_id$', r'MarginfiAccount[^:]*::initialize$'])
        ob = Ob(f'C02.f.{which}', f'transfer_to_new_account ({which}): on every accepting path the new account receives exactly the old account\'s positions and the old account is left with none (all-zero lending account) and disabled, '
                'so the sum of positions over all accounts is unchanged while no bank total moves (no bank is even passed)',
                [f.name], 'handler mode; system-program transfer and account initialisation opaque; every accepting path'); ob.paths = len(res)
        MI = STRUCTS['MarginfiAccount']; li = MI.index('lending_account'); fi = MI.index('account_flags')
        n_ok = 0
        for r, okc in ok_paths(res):
            if ob.witness(eng, r, [okc]) is False: continue
            n_ok += 1
            accts = {}
            for root in r['roots']: accts.update(find_accounts(eng, root))
            ma = {c: sv for c, sv in accts.items() if 'MarginfiAccount' in sv.ty}
            old = [c for c, sv in ma.items() if sv.name == c]; new = [c for c, sv in ma.items() if sv.name != c]
            if len(old) != 1 or len(new) != 1: ob.fail(f'cannot tell old from new account: {list(ma)}'); continue
            o, n = ma[old[0]], ma[new[0]]
            ola = o.fields.get(li); nla = n.fields.get(li)
            ob.queries += 1
            if isinstance(ola, StructV) and '__zero' in ola.fields and not any(isinstance(k, int) for k in ola.fields): ob.unsat += 1
            else:
                lv = []; leaves(eng, ola, '', lv) if isinstance(ola, StructV) else None
                nz = [p_ for p_, v in lv if not z3.is_true(z3.simplify(ev(v) == 0))] if isinstance(ola, StructV) and '__zero' in ola.fields else ['(lending account not replaced by a zeroed one)']
                if nz:
                    ob.sat += 1; ob.cex.append({'ob': ob.oid, 'label': 'the migrated-from account keeps its positions: bank totals now count them twice', 'role': 'positions-duplicated', 'model': {'nonzero': nz[:6]}, 'replay': None})
                else: ob.unsat += 1
            ob.queries += 1
            if isinstance(nla, StructV) and nla.name == f'{old[0]}.{li}' and not [k for k in nla.fields if isinstance(k, int)]: ob.unsat += 1     # the untouched original object of the old account, moved as a whole
            else:
                lv = []; leaves(eng, nla, '', lv) if isinstance(nla, StructV) else None
                bad = [p_ for p_, v in lv if not ev(v).eq(z3.Int(f'{old[0]}.{li}{p_}'))] if isinstance(nla, StructV) and nla.name == f'{old[0]}.{li}' else ['(not the old lending account)']
                if bad: ob.sat += 1; ob.cex.append({'ob': ob.oid, 'label': 'the new account does not receive exactly the old positions', 'role': 'positions-copied', 'model': {'differs': bad[:6]}, 'replay': None})
                else: ob.unsat += 1
            ob.prove(eng, r, [okc], ev(fget(eng, o, 'MarginfiAccount', 'account_flags')) % 2 == 1, 'old account is disabled', role='old-disabled')
        ob.notes.append(f'{n_ok} accepting paths')
        ob.need_witness()
        return [ob]
    return t


_t_c02 = tasks
def tasks(tier):
    return _t_c02(tier) + [('transfer_keypair', mk_transfer('keypair')), ('transfer_pda', mk_transfer('pda'))]
