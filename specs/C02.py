"""C02 — Ledger consistency: bank totals move exactly with the positions."""
import z3
from mirsym.harness import *
from specs.wrappers import *

ASSUMPTIONS = ['inductive step: arbitrary pre-state with share values > 0, position shares <= bank totals',
               'accounts created before v0.1.4 may carry negative position counters (documented in the type crate) - outside the claim']


def mk_same_delta(op):
    def task(world):
        R = OpRun(world, op)
        ob = Ob(f'C02.a.{op}', f'{op}: bank totals change by exactly the position\'s share change (both sides), on every Ok path',
                [R.f.name], 'loop-free; merged paths; all i128 values')
        ob.paths = R.paths
        P = R.pre
        for r, okc in R.ok:
            h = R.base_hyps() + [okc]
            if ob.witness(R.eng, r, h) is False: continue
            d_tas = R.post(r, 'tas') - P['tas']; d_ash = R.post(r, 'ash') - P['ash']
            d_tls = R.post(r, 'tls') - P['tls']; d_lsh = R.post(r, 'lsh') - P['lsh']
            if OPS[op][0] == 'close':
                # close_balance abandons < 0.0001 of value on each side: bank totals untouched, position zeroed
                ob.prove(R.eng, r, h, z3.And(d_tas == 0, d_tls == 0), 'close_balance leaves bank totals untouched', role='close-totals')
                ob.prove(R.eng, r, h, z3.And(fmul(P['ash'], P['asv']) < ZAT, fmul(P['lsh'], P['lsv']) < ZAT),
                         'closed position held < 0.0001 on both sides (the counted dust)', role='close-dust')
                ob.prove(R.eng, r, h, z3.And(R.post(r, 'ash') == 0, R.post(r, 'lsh') == 0, R.post(r, 'active') == 0), 'slot cleared')
            elif op == 'withdraw_all':
                ob.prove(R.eng, r, h, z3.And(d_tas == d_ash, d_ash == -P['ash']), 'Δ bank.total_asset_shares == Δ balance.asset_shares == -position', role='asset-delta')
                ob.prove(R.eng, r, h, z3.And(d_tls == 0, R.post(r, 'lsh') == 0, fmul(P['lsh'], P['lsv']) < ZAT),
                         'other side: only dust (< 0.0001) is abandoned, bank liability total untouched', role='close-dust')
            elif op == 'repay_all':
                ob.prove(R.eng, r, h, z3.And(d_tls == d_lsh, d_lsh == -P['lsh']), 'Δ bank.total_liability_shares == Δ balance.liability_shares == -position', role='liab-delta')
                ob.prove(R.eng, r, h, z3.And(d_tas == 0, R.post(r, 'ash') == 0, fmul(P['ash'], P['asv']) < ZAT),
                         'other side: only dust (< 0.0001) is abandoned, bank asset total untouched', role='close-dust')
            else:
                ob.prove(R.eng, r, h, d_tas == d_ash, 'Δ bank.total_asset_shares == Δ balance.asset_shares', role='asset-delta')
                ob.prove(R.eng, r, h, d_tls == d_lsh, 'Δ bank.total_liability_shares == Δ balance.liability_shares', role='liab-delta')
                ob.prove(R.eng, r, h, z3.And(R.post(r, 'ash') >= 0, R.post(r, 'lsh') >= 0), 'position shares stay non-negative', role='nonneg')
            # share values are never touched by balance operations
            ob.prove(R.eng, r, h, z3.And(R.post(r, 'asv') == P['asv'], R.post(r, 'lsv') == P['lsv']), 'share values untouched', role='sv-frame')
        ob.need_witness()
        return [ob]
    return task


def tasks(tier):
    return [(f'same-delta:{op}', mk_same_delta(op)) for op in OPS]
