"""C02 — Ledger consistency: bank totals move exactly with the positions."""
import z3
from mirsym.harness import *
from specs.wrappers import *

ASSUMPTIONS = ['inductive step: arbitrary pre-state with share values > 0, position shares <= bank totals',
               'accounts created before v0.1.4 may carry negative position counters (documented in the type crate) - outside the claim']


def mk_same_delta(op):
    def task(world):
        R = OpRun(world, op)
        ob = Ob(f'C02.a.{op}', f'{op}: bank totals change by exactly the position\'s share change (both sides), on every Ok path',
                [R.f.name], 'loop-free; merged paths; all i128 values')
        ob.paths = R.paths
        P = R.pre
        for r, okc in R.ok:
            h = R.base_hyps() + [okc]
            if ob.witness(R.eng, r, h) is False: continue
            d_tas = R.post(r, 'tas') - P['tas']; d_ash = R.post(r, 'ash') - P['ash']
            d_tls = R.post(r, 'tls') - P['tls']; d_lsh = R.post(r, 'lsh') - P['lsh']
            if OPS[op][0] == 'close':
                # close_balance abandons < 0.0001 of value on each side: bank totals untouched, position zeroed
                ob.prove(R.eng, r, h, z3.And(d_tas == 0, d_tls == 0), 'close_balance leaves bank totals untouched', role='close-totals')
                ob.prove(R.eng, r, h, z3.And(fmul(P['ash'], P['asv']) < ZAT, fmul(P['lsh'], P['lsv']) < ZAT),
                         'closed position held < 0.0001 on both sides (the counted dust)', role='close-dust')
                ob.prove(R.eng, r, h, z3.And(R.post(r, 'ash') == 0, R.post(r, 'lsh') == 0, R.post(r, 'active') == 0), 'slot cleared')
            elif op == 'withdraw_all':
                ob.prove(R.eng, r, h, z3.And(d_tas == d_ash, d_ash == -P['ash']), 'Δ bank.total_asset_shares == Δ balance.asset_shares == -position', role='asset-delta')
                ob.prove(R.eng, r, h, z3.And(d_tls == 0, R.post(r, 'lsh') == 0, fmul(P['lsh'], P['lsv']) < ZAT),
                         'other side: only dust (< 0.0001) is abandoned, bank liability total untouched', role='close-dust')
            elif op == 'repay_all':
                ob.prove(R.eng, r, h, z3.And(d_tls == d_lsh, d_lsh == -P['lsh']), 'Δ bank.total_liability_shares == Δ balance.liability_shares == -position', role='liab-delta')
                ob.prove(R.eng, r, h, z3.And(d_tas == 0, R.post(r, 'ash') == 0, fmul(P['ash'], P['asv']) < ZAT),
                         'other side: only dust (< 0.0001) is abandoned, bank asset total untouched', role='close-dust')
            else:
                ob.prove(R.eng, r, h, d_tas == d_ash, 'Δ bank.total_asset_shares == Δ balance.asset_shares', role='asset-delta')
                ob.prove(R.eng, r, h, d_tls == d_lsh, 'Δ bank.total_liability_shares == Δ balance.liability_shares', role='liab-delta')
                ob.prove(R.eng, r, h, z3.And(R.post(r, 'ash') >= 0, R.post(r, 'lsh') >= 0), 'position shares stay non-negative', role='nonneg')
            # share values are never touched by balance operations
            ob.prove(R.eng, r, h, z3.And(R.post(r, 'asv') == P['asv'], R.post(r, 'lsv') == P['lsv']), 'share values untouched', role='sv-frame')
        ob.need_witness()
        return [ob]
    return task


def tasks(tier):
    return [(f'same-delta:{op}', mk_same_delta(op)) for op in OPS]



# ---------------------------------------------------------------- C02.f: account migration moves the positions, it does not duplicate them
def mk_transfer(which):
    def t(world):
        import z3
        from specs.handlers import run_handler, KERNELS, short
        from specs.C12 import find_accounts, leaves
        fnre = r'transfer_account::transfer_to_new_account$' if which == 'keypair' else r'transfer_account::transfer_to_new_account_pda$'
        eng, f, args, res = run_handler(world, fnre, kernels=[k for k in KERNELS if k not in (r'set_flag$',)],
                                        extra_opaque=[r'system_program::transfer$', r'transfer_fee$', r'is_allowed_cpi_for_third_party_id$', r'MarginfiAccount[^:]*::initialize$'])
        ob = Ob(f'C02.f.{which}', f'transfer_to_new_account ({which}): on every accepting path the new account receives exactly the old account\'s positions and the old account is left with none (all-zero lending account) and disabled, '
                'so the sum of positions over all accounts is unchanged while no bank total moves (no bank is even passed)',
                [f.name], 'handler mode; system-program transfer and account initialisation opaque; every accepting path'); ob.paths = len(res)
        MI = STRUCTS['MarginfiAccount']; li = MI.index('lending_account'); fi = MI.index('account_flags')
        n_ok = 0
        for r, okc in ok_paths(res):
            if ob.witness(eng, r, [okc]) is False: continue
            n_ok += 1
            accts = {}
            for root in r['roots']: accts.update(find_accounts(eng, root))
            ma = {c: sv for c, sv in accts.items() if 'MarginfiAccount' in sv.ty}
            old = [c for c, sv in ma.items() if sv.name == c]; new = [c for c, sv in ma.items() if sv.name != c]
            if len(old) != 1 or len(new) != 1: ob.fail(f'cannot tell old from new account: {list(ma)}'); continue
            o, n = ma[old[0]], ma[new[0]]
            ola = o.fields.get(li); nla = n.fields.get(li)
            ob.queries += 1
            if isinstance(ola, StructV) and '__zero' in ola.fields and not any(isinstance(k, int) for k in ola.fields): ob.unsat += 1
            else:
                lv = []; leaves(eng, ola, '', lv) if isinstance(ola, StructV) else None
                nz = [p_ for p_, v in lv if not z3.is_true(z3.simplify(ev(v) == 0))] if isinstance(ola, StructV) and '__zero' in ola.fields else ['(lending account not replaced by a zeroed one)']
                if nz:
                    ob.sat += 1; ob.cex.append({'ob': ob.oid, 'label': 'the migrated-from account keeps its positions: bank totals now count them twice', 'role': 'positions-duplicated', 'model': {'nonzero': nz[:6]}, 'replay': None})
                else: ob.unsat += 1
            ob.queries += 1
            if isinstance(nla, StructV) and nla.name == f'{old[0]}.{li}' and not [k for k in nla.fields if isinstance(k, int)]: ob.unsat += 1     # the untouched original object of the old account, moved as a whole
            else:
                lv = []; leaves(eng, nla, '', lv) if isinstance(nla, StructV) else None
                bad = [p_ for p_, v in lv if not ev(v).eq(z3.Int(f'{old[0]}.{li}{p_}'))] if isinstance(nla, StructV) and nla.name == f'{old[0]}.{li}' else ['(not the old lending account)']
                if bad: ob.sat += 1; ob.cex.append({'ob': ob.oid, 'label': 'the new account does not receive exactly the old positions', 'role': 'positions-copied', 'model': {'differs': bad[:6]}, 'replay': None})
                else: ob.unsat += 1
            ob.prove(eng, r, [okc], ev(fget(eng, o, 'MarginfiAccount', 'account_flags')) % 2 == 1, 'old account is disabled', role='old-disabled')
        ob.notes.append(f'{n_ok} accepting paths')
        ob.need_witness()
        return [ob]
    return t


_t_c02 = tasks
def tasks(tier):
    return _t_c02(tier) + [('transfer_keypair', mk_transfer('keypair')), ('transfer_pda', mk_transfer('pda'))]


# ---------------------------------------------------------------- C02.g: bank-level operations that are not balance operations never move the share totals
NON_BALANCE_WRITERS = [
    ('socialize_loss', r'bank\.rs[^>]*>::socialize_loss$', []),
    ('accrue_interest', r'bank\.rs[^>]*>::accrue_interest$', [r'calc_interest_rate_accrual_state_changes', r'create_interest_rate_calculator', r'emit|Event']),
    ('update_bank_cache', r'bank\.rs[^>]*>::update_bank_cache$', [r'calc_interest_rate$', r'create_interest_rate_calculator$']),
    ('update_cache_price', r'bank\.rs[^>]*>::update_cache_price$', []),
    ('configure', r'bank\.rs[^>]*>::configure$', [r'bank_config::<impl[^>]*>::validate$|BankConfigImpl>::validate$', r'InterestRateConfigImpl>::update$|interest_rate::<impl[^>]*>::update$']),
    ('configure_unfrozen_fields_only', r'bank\.rs[^>]*>::configure_unfrozen_fields_only$', []),
]


def mk_totals_frame(name, rx, opaque):
    def t(world):
        eng = world.engine(merge=True, opaque=opaque)
        f = world.fn(rx)
        args = [eng.ex.fresh(ty, 'bank' if i == 0 else 'x%d' % i) for i, (_, ty) in enumerate(f.params)]
        res = eng.run_fn(f, args)
        ob = Ob(f'C02.g.{name}', f'Bank::{name} (not a balance operation) never changes total_asset_shares / total_liability_shares or the position counters, on any returning path: '
                'only the paired balance/bank updates of the wrappers move the totals', [f.name], 'loop-free; state-merged; every returning path (Ok and Err)'); ob.paths = len(res)
        FR = ['total_asset_shares', 'total_liability_shares', 'lending_position_count', 'borrowing_position_count']
        for r in returned(res):
            if ob.witness(eng, r, []) is False: continue
            b1 = r['roots'][0]
            for n in FR:
                cur = ev(fget(eng, b1, 'Bank', n)); init = fsym('bank*', 'Bank', n)
                if cur.eq(init): ob.queries += 1; ob.unsat += 1; continue
                ob.prove(eng, r, [], cur == init, f'{n} is not written', role='totals-frame:' + n)
        ob.need_witness()
        return [ob]
    return t


_t_c02g = tasks
def tasks(tier):
    return _t_c02g(tier) + [(f'totals_frame:{n}', mk_totals_frame(n, rx, op)) for n, rx, op in NON_BALANCE_WRITERS]


# ---------------------------------------------------------------- C02.e: closed world of writers (auxiliary MIR scan - the premise of the induction, not a solver query)
def _strip_ref(ty):
    ty = ty.strip()
    ty = re.sub(r"^&('\w+ )?(mut )?", '', ty)
    m = re.match(r'^(std::boxed::)?Box<(.*)>$', ty)
    return m.group(2) if m else ty


def _place_type(p, loc):
    """type of a MIR place expression, from the type annotations rustc prints on field projections"""
    p = p.strip()
    if re.match(r'^_\d+$', p): return loc.get(p)
    if p.endswith(']'):
        d = 0
        for i in range(len(p) - 1, -1, -1):
            if p[i] == ']': d += 1
            elif p[i] == '[':
                d -= 1
                if d == 0:
                    t = _place_type(p[:i], loc)
                    m = re.match(r'^\[(.*); [^;]*\]$', t.strip()) if t else None
                    m2 = re.match(r'^\[(.*)\]$', t.strip()) if t else None
                    return (m or m2).group(1) if (m or m2) else None
        return None
    if p.startswith('(') and p.endswith(')'):
        inner = p[1:-1]
        if inner.startswith('*'):
            t = _place_type(inner[1:], loc); return _strip_ref(t) if t else None
        m = re.match(r'^(.*)\.(\d+): (.*)$', inner, re.S)
        if m: return m.group(3)
        m = re.match(r'^(.*) as (\w+)$', inner)
        if m: return _place_type(m.group(1), loc)
    return None


def _short_ty(t):
    return re.sub(r'<.*', '', (t or '?').strip()).split('::')[-1]


def scan_writers(world, crates=('marginfi', 'typecrate')):
    """{(struct, field or '*'): {function names}} for every MIR assignment whose destination is a tracked field or a whole tracked struct"""
    TR = {'Bank': ['total_asset_shares', 'total_liability_shares'], 'Balance': ['asset_shares', 'liability_shares']}
    WHOLE = ('Bank', 'Balance', 'LendingAccount')
    found = {}
    for crate in crates:
        m = world.load(crate)
        for name, f in m.fns.items():
            loc = dict(f.params); loc.update(f.locals)
            for bb, stmts in f.blocks.items():
                for s in stmts:
                    if ' = ' not in s or s.startswith(('_', 'StorageLive', 'StorageDead', 'assert', 'switchInt', 'goto', 'return', 'drop')) and not re.match(r'^_\d+\[', s): continue
                    lhs = s.split(' = ', 1)[0].strip()
                    if re.match(r'^_\d+$', lhs): continue
                    mm = re.match(r'^\((.*)\.(\d+): ([^:]*(::[^:]*)*)\)$', lhs, re.S)
                    if mm and not lhs.startswith('(*'):
                        owner = _short_ty(_place_type(mm.group(1), loc))
                        if owner in TR:
                            k = int(mm.group(2))
                            fld = STRUCTS[owner][k] if k < len(STRUCTS[owner]) else str(k)
                            if fld in TR[owner]: found.setdefault((owner, fld), set()).add(name)
                    t = _short_ty(_place_type(lhs, loc))
                    if t in WHOLE: found.setdefault((t, '*'), set()).add(name)
    return found


EXPECTED_WRITERS = {
    ('Bank', 'total_asset_shares'): [r'state::bank::<impl[^>]*>::change_asset_shares$'],
    ('Bank', 'total_liability_shares'): [r'state::bank::<impl[^>]*>::change_liability_shares$'],
    ('Balance', 'asset_shares'): [r'state::marginfi_account::<impl[^>]*>::change_asset_shares$'],
    ('Balance', 'liability_shares'): [r'state::marginfi_account::<impl[^>]*>::change_liability_shares$'],
    ('Balance', '*'): [r'state::marginfi_account::<impl[^>]*>::close$', r'state::marginfi_account::<impl[^>]*>::find_or_create$', r'::empty_deactivated$', r'::sort_balances'],
    ('Bank', '*'): [r'lending_pool_add_bank(_permissionless|_with_seed|_kamino|_drift|_solend)?$', r'lending_pool_clone_bank$', r'<impl[^>]*>::new$'],
    ('LendingAccount', '*'): [r'transfer_to_new_account(_pda)?$', r'MarginfiAccount[^:]*>::initialize$|<impl[^>]*>::initialize$'],
}


def t_writers(world):
    ob = Ob('C02.e', 'closed world of writers: in the MIR of the program and the type crate, share totals and position shares are assigned only inside Bank::change_*_shares / Balance::change_*_shares, '
            'whole positions only by Balance::close / find_or_create / empty_deactivated, whole banks only by the add-bank initialisers, whole lending accounts only by account initialisation / migration',
            [], 'auxiliary scan of every MIR assignment statement of the two crates (the premise of the per-operation induction; not a solver query); an unexpected writer makes the property UNDECIDED (exit 2) until it is classified')
    found = scan_writers(world)
    ob.paths = sum(len(v) for v in found.values())
    for key, exp in EXPECTED_WRITERS.items():
        got = found.get(key, set())
        if key[1] != '*' and not got: ob.fail(f'no writer of {key[0]}.{key[1]} found: the scan no longer understands the MIR'); continue
        for fn_ in sorted(got):
            ob.queries += 1
            if any(re.search(rx, fn_) for rx in exp): ob.unsat += 1
            else: ob.fail(f'unclassified writer of {key[0]}.{key[1]}: {fn_[-120:]}')
    ob.witness_sat = 1
    ob.notes.append('writers found: ' + '; '.join(f'{k[0]}.{k[1]}: {len(v)}' for k, v in sorted(found.items())))
    return [ob]


_t_c02e = tasks
def tasks(tier):
    return _t_c02e(tier) + [('writers', t_writers)]


# ---------------------------------------------------------------- C02.d: a bank can be closed only when nothing is recorded against it
def t_close_bank(world):
    from specs.handlers import run_handler, KERNELS
    from specs.C12 import find_accounts
    eng, f, args, res = run_handler(world, r'close_bank::lending_pool_close_bank$', kernels=[k for k in KERNELS if k not in (r'validate$',)])
    ob = Ob('C02.d', 'lending_pool_close_bank: Ok => both position counters are 0, |total_asset_shares| < 0.0001 and |total_liability_shares| < 0.0001, emissions remaining < 0.0001, and the close-enabled flag is set',
            [f.name], 'handler mode; every accepting path; all i128 share totals'); ob.paths = len(res)
    CLOSE_ENABLED = 16
    c = eng.const_val(None, 'marginfi_type_crate::constants::CLOSE_ENABLED_FLAG')
    if not isinstance(c, IntV) or z3.simplify(c.e).as_long() != CLOSE_ENABLED: ob.fail('CLOSE_ENABLED_FLAG is not 1<<4'); return [ob]
    for r, okc in ok_paths(res):
        if ob.witness(eng, r, [okc]) is False: continue
        accts = {}
        for root in r['roots']: accts.update(find_accounts(eng, root))
        banks = [c_ for c_, sv in accts.items() if re.sub(r'<.*', '', sv.ty).split('::')[-1] == 'Bank']
        if len(banks) != 1: ob.fail(f'bank objects: {banks}'); continue
        b = banks[0]; g = lambda n: fsym(b, 'Bank', n)
        ab = lambda x: z3.If(x >= 0, x, -x)
        ob.prove(eng, r, [okc], z3.And(g('lending_position_count') == 0, g('borrowing_position_count') == 0), 'no open positions are counted on the bank', role='close-counters')
        ob.prove(eng, r, [okc], z3.And(ab(g('total_asset_shares')) < ZAT, ab(g('total_liability_shares')) < ZAT), 'share totals are zero within 0.0001 on BOTH sides', role='close-totals')
        ob.prove(eng, r, [okc], ab(g('emissions_remaining')) < ZAT, 'no funded emissions remain', role='close-emissions')
        ob.prove(eng, r, [okc], (g('flags') / CLOSE_ENABLED) % 2 == 1, 'only banks with reliable counters (CLOSE_ENABLED) can close', role='close-flag')
    ob.need_witness()
    return [ob]


_t_c02d = tasks
def tasks(tier):
    return _t_c02d(tier) + [('close_bank', t_close_bank)]


# ---------------------------------------------------------------- C02.c: the risk admin's purge of a deleveraged position removes the same shares from the position and from the bank
def t_purge(world):
    from specs.handlers import run_handler
    from specs.C12 import find_accounts
    def sum_sort(eng_, st, callee, a):
        st.events.append(('call', callee, a, None, []))      # the sort only permutes whole slots (C16.b): the statements below are about the state handed to it
        return StructV('()', 'unit', {}, lazy=False)
    eng, f, args, res = run_handler(world, r'purge_delev_balance::lending_account_purge_delev_balance$', kernels=[], merge=False, max_paths=20000, summaries=[(r'::sort_balances$', sum_sort)])
    ob = Ob('C02.c.purge', 'lending_account_purge_delev_balance: Ok => exactly one slot changes, it was the active slot of THIS bank, it ends empty; the bank\'s deposit total falls by exactly that slot\'s deposit shares; '
            'the liability side only abandons dust (<= 0.0001 shares) and the bank\'s liability total is untouched; the lending position counter is decremented',
            [f.name], 'handler mode with Balance::close / change_asset_shares inlined; 16 slots unrolled; every accepting path'); ob.paths = len(res)
    BAL = STRUCTS['Balance']; MI = STRUCTS['MarginfiAccount']; li = MI.index('lending_account'); bi = STRUCTS['LendingAccount'].index('balances')
    n_ok = 0
    for r, okc in ok_paths(res):
        if ob.witness(eng, r, [okc]) is False: continue
        n_ok += 1
        accts = {}
        for root in r['roots']: accts.update(find_accounts(eng, root))
        ma = [c for c, sv in accts.items() if 'MarginfiAccount' in sv.ty]; bk = [c for c, sv in accts.items() if re.sub(r'<.*', '', sv.ty).split('::')[-1] == 'Bank']
        if len(ma) != 1 or len(bk) != 1: ob.fail(f'accounts {list(accts)}'); continue
        A, B = ma[0], bk[0]
        fin = lambda i, fld: ev(fget(eng, accts[A], 'MarginfiAccount', f'lending_account.balances.[{i}].{fld}'))
        ini = lambda i, fld: fsym(A, 'MarginfiAccount', f'lending_account.balances.[{i}].{fld}')
        d_ash = [fin(i, 'asset_shares') - ini(i, 'asset_shares') for i in range(16)]
        tas0 = fsym(B, 'Bank', 'total_asset_shares'); tas1 = ev(fget(eng, accts[B], 'Bank', 'total_asset_shares'))
        ob.prove(eng, r, [okc], tas1 - tas0 == z3.Sum(d_ash), 'Δ bank.total_asset_shares == Σ Δ position asset shares', role='purge-asset-delta')
        ob.prove(eng, r, [okc], ev(fget(eng, accts[B], 'Bank', 'total_liability_shares')) == fsym(B, 'Bank', 'total_liability_shares'), 'bank liability total untouched', role='purge-liab-total')
        bank_key = z3.Int(B.replace('.acct', '.key'))
        changed = [z3.Or([fin(i, fl) != ini(i, fl) for fl in ('active', 'asset_shares', 'liability_shares', 'bank_pk')]) for i in range(16)]
        ob.prove(eng, r, [okc], z3.And([z3.Implies(changed[i], z3.And(ini(i, 'active') != 0, ini(i, 'bank_pk') == bank_key, fin(i, 'active') == 0, fin(i, 'asset_shares') == 0, fin(i, 'liability_shares') == 0,
                                                                    ini(i, 'liability_shares') <= ZAT, ini(i, 'liability_shares') >= -ZAT)) for i in range(16)]),
                 'a changed slot was the active slot of this bank, owed at most dust, and ends empty', role='purge-slot')
        ob.prove(eng, r, [okc], z3.And([z3.Implies(z3.And(changed[i], changed[j]), z3.BoolVal(False)) for i in range(16) for j in range(i + 1, 16)]), 'at most one slot changes', role='purge-one-slot')
        ob.prove(eng, r, [okc], ev(fget(eng, accts[B], 'Bank', 'lending_position_count')) <= fsym(B, 'Bank', 'lending_position_count'), 'lending position counter does not grow', role='purge-counter')
    ob.notes.append(f'{n_ok} accepting paths')
    ob.need_witness()
    return [ob]


_t_c02c = tasks
def tasks(tier):
    return _t_c02c(tier) + [('purge', t_purge)]



# ---------------------------------------------------------------- C02.h: opening a position never overwrites another one (shared with C16.a: find_or_create on 16 symbolic slots) - an erased position would leave its shares in the bank total
_t_c02h = tasks
def tasks(tier):
    import specs.C16 as C16
    return _t_c02h(tier) + [('find_or_create', renamed(C16.t_find_or_create, 'C16.a.', 'C02.h.'))]
