"""Handler-mode symbolic execution: instruction handlers with kernels opaque; traces of opaque calls are the observable."""
import z3
from mirsym.harness import *

KERNELS = [r'accrue_interest$', r'BankAccountWrapper', r'validate_asset_tags$', r'validate_bank_asset_tags$', r'validate_bank_state$', r'get_remaining_deposit_capacity$',
           r'deposit_spl_transfer$', r'withdraw_spl_transfer$', r'update_bank_cache$', r'sort_balances$', r'maybe_take_bank_mint$', r'calculate_pre_fee',
           r'calculate_post_fee', r'RiskEngine', r'update_cache_price$', r'fetch_', r'is_protocol_paused$', r'Event', r'emit', r'socialize_loss$',
           r'get_liability_amount$', r'get_asset_amount$', r'check_flashloan_can_start$', r'validate_instructions', r'update_withdrawn_equity$',
           r'OraclePriceFeedAdapter', r'try_from_bank', r'get_price_of_type', r'calc_value$', r'calc_amount$', r'configure$', r'configure_unfrozen_fields_only$', r'validate$', r'validate_oracle', r'set_flag$', r'unset_flag$', r'update_flag$']
HANDLER_OPAQUE = [r'anchor_lang::', r'anchor_spl::', r'Vec<', r'to_account_info', r'CpiContext', r'invoke', r'Rent', r'BTree', r'HealthCache', r'bytemuck']


def run_handler(world, name_re, kernels=KERNELS, extra_opaque=(), inline=(), merge=False, max_paths=50000, summaries=()):
    op = [k for k in list(kernels) + HANDLER_OPAQUE + list(extra_opaque) if k not in inline]
    eng = world.engine(opaque=op, merge=merge, max_paths=max_paths)
    eng.summaries = [(re.compile(a), b) for a, b in summaries]
    f = world.fn(name_re)
    args = [eng.ex.fresh(ty, 'a%d' % i) for i, (n, ty) in enumerate(f.params)]
    res = eng.run_fn(f, args)
    return eng, f, args, res


def short(callee):
    c = re.sub(r'<impl at [^>]*>', '', callee)
    # drop generic argument lists (balanced)
    out = ''; depth = 0; i = 0
    while i < len(c):
        if c.startswith('::<', i) and depth == 0:
            depth = 1; i += 3; continue
        if depth:
            if c[i] == '<': depth += 1
            elif c[i] == '>' and c[i - 1] != '-': depth -= 1
            i += 1; continue
        out += c[i]; i += 1
    m = re.match(r'^<(.*) as (.*)>::(\w+)$', out)
    if m: return m.group(1).split('::')[-1].split('<')[0] + '.' + m.group(3)
    parts = out.split('::')
    return '.'.join(parts[-2:]) if len(parts) >= 2 and parts[-2][:1].isupper() else parts[-1]


def trace(r, pat=None):
    rx = re.compile(pat) if pat else None
    return [short(e[1]) for e in flat_events(r['events']) if e[0] == 'call' and (rx is None or rx.search(e[1]))]


def ok_results(res):
    return [(r, c) for r, c in ok_paths(res)]


def sum_token_deref(eng, st, callee, args):
    """`*token_account` (InterfaceAccount<TokenAccount> -> TokenAccount -> spl Account): a pure read of the account as loaded at instruction entry.
    The same account must yield the same object every time it is dereferenced (Anchor never reloads it implicitly), otherwise two reads of
    `vault.amount` would be two unrelated symbols. Keyed by the name of the pointee; unnamed pointees fall back to the default opaque treatment."""
    v = eng.deref_val(args[0]) if args else None
    nm = getattr(v, 'name', None)
    ty = getattr(eng, 'cur_ret_ty', None)
    if not nm or not ty: return None
    cache = eng.__dict__.setdefault('_deref_cache', {})
    key = (nm, ty)
    if key not in cache:
        cache[key] = eng.ex.fresh(ty, 'tok(' + nm + ')')
    st.events.append(('token_deref', nm))
    return cache[key]


TOKEN_DEREF = [(r'TokenAccount.* as (std::ops::|core::ops::)?Deref>::deref$', sum_token_deref)]


def account_field_of(eng, info, struct_name):
    """which field of the instruction's Accounts struct an AccountInfo / account object argument came from"""
    v = eng.deref_val(info)
    nm = getattr(v, 'name', '') or ''
    m = re.search(r'a0\.1\*\.(\d+)', nm)
    names = STRUCTS[struct_name]
    return names[int(m.group(1))] if m and int(m.group(1)) < len(names) else nm or '?'
