"""C14 — Operational-state and global-pause gating of financial instructions."""
import z3
from mirsym.harness import *

WORLD = ('marginfi', 'typecrate', 'drift')
ASSUMPTIONS = ['Clock::get failure is modelled by the code itself (unwrap_or(0)); the clock value is any i64']
OPS = ENUMS['BankOperationalState']; KINDS = ENUMS['InstructionKind']


def ref_rejects(state, kind):
    """independent reference table from the property text"""
    P, O, R, K = OPS['Paused'], OPS['Operational'], OPS['ReduceOnly'], OPS['KilledByBankruptcy']
    return z3.Or(state == K,
                 z3.And(kind == KINDS['FailsInReduceState'], state == R),
                 z3.And(kind == KINDS['FailsInPausedState'], state == P),
                 z3.And(kind == KINDS['FailsIfPausedOrReduceState'], z3.Or(state == P, state == R)))


def t_bank_state(world):
    eng = world.engine()
    f = world.fn(r'(^|::)validate_bank_state$')
    bank = eng.ex.fresh(f.params[0][1], 'bank'); kind = eng.ex.fresh(f.params[1][1], 'kind')
    res = eng.run_fn(f, [bank, kind])
    ob = Ob('C14.a', 'validate_bank_state equals the reference table (4 states x 4 kinds); KilledByBankruptcy rejects every kind', [f.name], 'loop-free; all enum values')
    ob.paths = len(res)
    st = fsym('bank*', 'Bank', 'config.operational_state'); k = ev(kind)
    for r in returned(res):
        if ob.witness(eng, r, []) is False: continue
        err = disc_is(r['ret'], 1)
        ob.prove(eng, r, [], err == ref_rejects(st, k), 'Err <=> reference table')
        ob.prove(eng, r, [st == OPS['KilledByBankruptcy']], err, 'killed bank rejects every instruction kind')
    ob.need_witness()
    for r in res:
        if r['status'] != 'return':
            ob.prove(eng, r, [], z3.BoolVal(False), 'no panicking path (unreachable!() really unreachable): ' + r['status'][:40])
    return [ob]


def t_paused(world):
    eng = world.engine(merge=True)
    f = world.fn(r'marginfi_group\.rs[^>]*>::is_protocol_paused$')
    g = eng.ex.fresh(f.params[0][1], 'group')
    res = eng.run_fn(f, [g])
    ob = Ob('C14.c', 'is_protocol_paused <=> paused flag set and now within [start, start+1800) (or now < start: fail closed); independent of last_cache_update',
            [f.name], 'loop-free; all i64 clock / start values'); ob.paths = len(res)
    flags = fsym('group*', 'MarginfiGroup', 'panic_state_cache.pause_flags'); start = fsym('group*', 'MarginfiGroup', 'panic_state_cache.pause_start_timestamp')
    now = z3.Int('clock.unix_timestamp')
    for r in returned(res):
        if ob.witness(eng, r, []) is False: continue
        paused = r['ret'].e
        ref = z3.And(flags % 2 == 1, z3.Or(now < start, now - start < 1800))
        ob.prove(eng, r, [], paused == ref, 'paused <=> flag and not expired')
        ob.prove(eng, r, [flags % 2 == 1, now >= start, now - start >= 1800], z3.Not(paused), 'an expired pause stops blocking without anyone acting')
        ob.prove(eng, r, [flags % 2 == 1, now >= start, now - start == 1799], paused, 'still paused one second before expiry')
        names = free_consts(paused)
        lcu = fsym('group*', 'MarginfiGroup', 'panic_state_cache.last_cache_update').decl().name()
        if lcu in names: ob.fail('result depends on last_cache_update')
    ob.need_witness()
    return [ob]


def tasks(tier):
    from specs.flows import flow_task, FLOWS
    return [('bank_state', t_bank_state), ('paused', t_paused)] + [(f'flow:{n}', flow_task(n, ('C14',))) for n in FLOWS if FLOWS[n]['kinds']]


# ---------------------------------------------------------------- C14.d: every financial instruction carries the pause constraint
from specs.accounts import all_try_accounts, ok_condition
MUST_NOT_BE_PAUSED = ['LendingAccountDeposit', 'LendingAccountWithdraw', 'LendingAccountBorrow', 'LendingAccountRepay', 'LendingAccountLiquidate', 'LendingPoolHandleBankruptcy',
                      'LendingPoolCollectBankFees', 'LendingPoolWithdrawFees', 'LendingPoolWithdrawInsurance', 'LendingPoolWithdrawFeesPermissionless', 'LendingPoolUpdateFeesDestinationAccount',
                      'LendingAccountWithdrawEmissions', 'LendingAccountWithdrawEmissionsPermissionless', 'TransferToNewAccount', 'TransferToNewAccountPda',
                      'KaminoDeposit', 'KaminoWithdraw', 'DriftDeposit', 'DriftWithdraw', 'SolendDeposit', 'SolendWithdraw']
# position-touching instructions that legitimately lack the constraint (their fund-moving inner instructions carry it, or they only discard dust)
EXEMPT = {'LendingAccountCloseBalance': 'closes a dust-only position, moves no funds', 'LendingAccountSettleEmissions': 'bookkeeping only',
          'LendingAccountPurgeDelevBalance': 'risk-admin purge after completed deleverage', 'StartLiquidation': 'bracket marker; inner withdraw/repay carry the constraint',
          'EndLiquidation': 'bracket end must always be able to run', 'StartDeleverage': 'bracket marker', 'EndDeleverage': 'bracket end',
          'LendingAccountStartFlashloan': 'bracket marker; inner instructions carry it', 'LendingAccountEndFlashloan': 'bracket end'}


def mk_pause_task(sn):
    def task(world):
        T = all_try_accounts(world)
        ob = Ob('C14.d.' + sn, f'{sn}: accepted => the group is not paused (flag clear, or pause expired by the clock alone)', [T[sn].name] if sn in T else [],
                'Anchor constraint code, every accepting path; is_protocol_paused inlined from its MIR')
        if sn not in T: ob.fail('instruction struct missing'); return [ob]
        c = ok_condition(world, sn, T[sn]); ob.paths = c['total_paths']
        g = 'group' if any(f == 'group' for f, _ in c['fields']) else 'marginfi_group'
        flags = z3.Int(f'{g}.data.panic_state_cache.pause_flags'); start = z3.Int(f'{g}.data.panic_state_cache.pause_start_timestamp'); now = z3.Int('clock.unix_timestamp')
        paused = z3.And(flags % 2 == 1, z3.Or(now < start, now - start < 1800))
        s = z3.Solver(); s.add(c['phi']); ob.queries += 1
        if s.check() == z3.sat: ob.witness_sat += 1
        ob.prove(None, None, [c['phi']], z3.Not(paused), 'accepted => not paused', role='pause-constraint')
        # and it is accepted again as soon as the pause has expired, whatever last_cache_update says
        s.add(flags % 2 == 1, now >= start, now - start >= 1800); ob.queries += 1
        if s.check() == z3.sat: ob.witness_sat += 1
        else: ob.fail('no accepting path once the pause has expired (cache staleness must not block users)')
        ob.need_witness()
        return [ob]
    return task


def t_pause_table(world):
    """closed world: an instruction that loads a MarginfiAccount mutably must be classified"""
    T = all_try_accounts(world)
    ob = Ob('C14.d.table', 'every position/fund-touching instruction is classified (must carry the pause constraint, or listed exempt with a reason)', [], 'all #[derive(Accounts)] structs of the program')
    fin = re.compile(r'^(LendingAccount|Kamino(Deposit|Withdraw)|Drift(Deposit|Withdraw)|Solend(Deposit|Withdraw)|TransferToNewAccount|LendingPool(HandleBankruptcy|CollectBankFees|Withdraw))')
    for sn in T:
        ob.queries += 1
        if fin.search(sn) and sn not in MUST_NOT_BE_PAUSED and sn not in EXEMPT:
            ob.fail(f'unclassified financial instruction {sn}')
        else: ob.unsat += 1
    ob.witness_sat = 1
    return [ob]


_t1 = tasks
def tasks(tier):
    return _t1(tier) + [('pause:' + sn, mk_pause_task(sn)) for sn in MUST_NOT_BE_PAUSED] + [('pause_table', t_pause_table)]
WORLD = ('marginfi', 'typecrate', 'drift', 'kamino', 'solend')


# ---------------------------------------------------------------- shared with C15.c: the group's pause gate reads a cache that must be a verbatim copy of the global pause state
def t_propagate(world):
    import specs.C15 as C15
    out = []
    for ob in C15.t_handlers(world):
        if ob.oid == 'C15.c.propagate_fee':
            ob.oid = 'C14.e.propagate_fee'
            for c in ob.cex: c['ob'] = ob.oid
            out.append(ob)
    return out


_t14e = tasks
def tasks(tier):
    return _t14e(tier) + [('propagate', t_propagate)]



# ---------------------------------------------------------------- C14.f: reduce-only banks' deposits count for nothing towards NEW borrowing (shared with C04.a: the per-position valuation)
def t_reduce_only_valuation(world):
    import specs.C04 as C04
    return C04.t_asset_value(world, 'C14.f.asset')


_t_rov = tasks
def tasks(tier):
    return _t_rov(tier) + [('reduce_only_valuation', t_reduce_only_valuation)]



# ---------------------------------------------------------------- second engine (thorough tier): one obligation re-decided by Kani/CBMC on the compiled code
def kani(tier):
    if tier != 'thorough': return []
    return [dict(harness='bank_state_table', oid='C14.k', covers=2, stubs=5, desc='SECOND ENGINE (Kani/CBMC on the compiled code): validate_bank_state == the 4 x 4 reference table (killed rejects everything)', functions=['marginfi::utils::validate_bank_state'], bounds='all 16 combinations, decided symbolically')]


# ---------------------------------------------------------------- "a bank killed by bankruptcy accepts none of these, PERMANENTLY": shared with C07.e / C13.e - neither configuration
# path can move a bank out of (or into) the killed state (seed C14-6 let Bank::configure move Killed -> Paused, from where a second configure reaches Operational)
def t_killed_terminal(world):
    import specs.C07 as C07
    a = C07.t_configure_terminal(world); a[0].oid = 'C14.g.configure'
    b = C07.t_configure_frozen_terminal(world, 'C14.g.frozen')
    return a + b


_t14g = tasks
def tasks(tier):
    return _t14g(tier) + [('killed_terminal', t_killed_terminal)]
from specs.C07 import replay_configure as _rc14
REPLAYERS = dict(globals().get('REPLAYERS', {})); REPLAYERS['configure'] = _rc14
