"""C14 — Operational-state and global-pause gating of financial instructions."""
import z3
from mirsym.harness import *

WORLD = ('marginfi', 'typecrate', 'drift')
ASSUMPTIONS = ['Clock::get failure is modelled by the code itself (unwrap_or(0)); the clock value is any i64']
OPS = ENUMS['BankOperationalState']; KINDS = ENUMS['InstructionKind']


def ref_rejects(state, kind):
    """independent reference table from the property text"""
    P, O, R, K = OPS['Paused'], OPS['Operational'], OPS['ReduceOnly'], OPS['KilledByBankruptcy']
    return z3.Or(state == K,
                 z3.And(kind == KINDS['FailsInReduceState'], state == R),
                 z3.And(kind == KINDS['FailsInPausedState'], state == P),
                 z3.And(kind == KINDS['FailsIfPausedOrReduceState'], z3.Or(state == P, state == R)))


def t_bank_state(world):
    eng = world.engine()
    f = world.fn(r'(^|::)validate_bank_state$')
    bank = eng.ex.fresh(f.params[0][1], 'bank'); kind = eng.ex.fresh(f.params[1][1], 'kind')
    res = eng.run_fn(f, [bank, kind])
    ob = Ob('C14.a', 'validate_bank_state equals the reference table (4 states x 4 kinds); KilledByBankruptcy rejects every kind', [f.name], 'loop-free; all enum values')
    ob.paths = len(res)
    st = fsym('bank*', 'Bank', 'config.operational_state'); k = ev(kind)
    for r in returned(res):
        if ob.witness(eng, r, []) is False: continue
        err = disc_is(r['ret'], 1)
        ob.prove(eng, r, [], err == ref_rejects(st, k), 'Err <=> reference table')
        ob.prove(eng, r, [st == OPS['KilledByBankruptcy']], err, 'killed bank rejects every instruction kind')
    ob.need_witness()
    for r in res:
        if r['status'] != 'return':
            ob.prove(eng, r, [], z3.BoolVal(False), 'no panicking path (unreachable!() really unreachable): ' + r['status'][:40])
    return [ob]


def t_paused(world):
    eng = world.engine(merge=True)
    f = world.fn(r'marginfi_group\.rs[^>]*>::is_protocol_paused$')
    g = eng.ex.fresh(f.params[0][1], 'group')
    res = eng.run_fn(f, [g])
    ob = Ob('C14.c', 'is_protocol_paused <=> paused flag set and now within [start, start+1800) (or now < start: fail closed); independent of last_cache_update',
            [f.name], 'loop-free; all i64 clock / start values'); ob.paths = len(res)
    flags = fsym('group*', 'MarginfiGroup', 'panic_state_cache.pause_flags'); start = fsym('group*', 'MarginfiGroup', 'panic_state_cache.pause_start_timestamp')
    now = z3.Int('clock.unix_timestamp')
    for r in returned(res):
        if ob.witness(eng, r, []) is False: continue
        paused = r['ret'].e
        ref = z3.And(flags % 2 == 1, z3.Or(now < start, now - start < 1800))
        ob.prove(eng, r, [], paused == ref, 'paused <=> flag and not expired')
        ob.prove(eng, r, [flags % 2 == 1, now >= start, now - start >= 1800], z3.Not(paused), 'an expired pause stops blocking without anyone acting')
        ob.prove(eng, r, [flags % 2 == 1, now >= start, now - start == 1799], paused, 'still paused one second before expiry')
        names = free_consts(paused)
        lcu = fsym('group*', 'MarginfiGroup', 'panic_state_cache.last_cache_update').decl().name()
        if lcu in names: ob.fail('result depends on last_cache_update')
    ob.need_witness()
    return [ob]


def tasks(tier):
    from specs.flows import flow_task, FLOWS
    return [('bank_state', t_bank_state), ('paused', t_paused)] + [(f'flow:{n}', flow_task(n, ('C14',))) for n in FLOWS if FLOWS[n]['kinds']]
