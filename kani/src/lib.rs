//! Second engine (Kani 0.68 / CBMC): a few obligations re-decided on the COMPILED code of the real crates,
//! independently of the MIR encoder. Thorough tier only. Harnesses call `pub` items of /repo; no source hooks.
#![allow(unused)]
#[cfg(kani)]
mod h {
    use anchor_lang::prelude::{AccountInfo, Pubkey};
    use bytemuck::Zeroable;
    use marginfi::state::panic_state::PanicStateImpl;
    use marginfi_type_crate::types::{Bank, MarginfiAccount, PanicState};

    // ---------- stub kit (error construction / logging is irrelevant to the properties and explodes in CBMC)
    fn stub_sol_log(_m: &str) {}
    fn stub_format(_a: core::fmt::Arguments<'_>) -> String { String::new() }
    fn stub_err_from(e: marginfi::errors::MarginfiError) -> anchor_lang::error::Error {
        anchor_lang::error::Error::AnchorError(Box::new(anchor_lang::error::AnchorError {
            error_name: String::new(),
            error_code_number: e.into(),
            error_msg: String::new(),
            error_origin: None,
            compared_values: None,
        }))
    }
    fn stub_name(_e: &marginfi::errors::MarginfiError) -> String { String::new() }
    fn stub_disp(_e: &marginfi::errors::MarginfiError, _f: &mut core::fmt::Formatter<'_>) -> core::fmt::Result { Ok(()) }

    struct Buf<const N: usize>([u8; N]);
    fn any_key() -> Pubkey { Pubkey::new_from_array(kani::any()) }

    // ---------------- C15.k: PanicState one-step inductive invariant (same invariant as C15.a in the MIR engine)
    fn inv(s: &PanicState, now: i64) -> bool {
        let paused = s.pause_flags & 1 != 0;
        s.daily_pause_count <= 3 && s.consecutive_pause_count <= 2 && s.last_daily_reset_timestamp <= now
            && (!paused || (s.consecutive_pause_count >= 1
                && s.pause_start_timestamp <= now + 1800 * (s.consecutive_pause_count as i64 - 1)))
            && (paused || s.consecutive_pause_count == 0)
    }
    #[kani::proof]
    #[kani::stub(solana_msg::sol_log, stub_sol_log)]
    #[kani::stub(alloc::fmt::format, stub_format)]
    #[kani::stub(<anchor_lang::error::Error as core::convert::From<marginfi::errors::MarginfiError>>::from, stub_err_from)]
    #[kani::stub(marginfi::errors::MarginfiError::name, stub_name)]
    #[kani::stub(<marginfi::errors::MarginfiError as core::fmt::Display>::fmt, stub_disp)]
    fn panic_inductive() {
        let mut s = PanicState::zeroed();
        s.pause_flags = kani::any(); kani::assume(s.pause_flags <= 1);
        s.daily_pause_count = kani::any();
        s.consecutive_pause_count = kani::any();
        s.pause_start_timestamp = kani::any();
        s.last_daily_reset_timestamp = kani::any();
        let now: i64 = kani::any();
        kani::assume(now >= 0 && now < (1 << 40) && s.pause_start_timestamp >= 0 && s.last_daily_reset_timestamp >= 0);
        kani::assume(inv(&s, now));
        let later: i64 = kani::any();
        kani::assume(later >= now && later < (1 << 40));
        let op: u8 = kani::any();
        let old = s;
        match op % 3 {
            0 => { let r = s.pause(later);
                   if r.is_ok() {
                       kani::cover!(true, "a pause succeeds");
                       let old_exp = if old.pause_flags & 1 != 0 && !old.is_expired(later) { old.pause_start_timestamp + 1800 } else { later };
                       assert!(s.pause_start_timestamp + 1800 - old_exp <= 1800);   // pushed forward by at most 30 min
                       assert!(s.daily_pause_count <= 3);
                   } }
            1 => { s.unpause(); assert!(s.pause_flags & 1 == 0); }
            _ => { s.unpause_if_expired(later); }
        }
        assert!(inv(&s, later));
        if s.pause_flags & 1 != 0 { assert!(s.pause_start_timestamp + 1800 <= later + 3600); }
        if s.pause_flags & 1 != 0 && later - s.pause_start_timestamp >= 1800 { assert!(s.is_expired(later)); }
    }

    // ---------------- C09.k: Switchboard pull feed on a symbolic ACCOUNT BUFFER: owner / discriminator / staleness / decoded value
    //                  (the byte-level decoding that the MIR engine treats as opaque)
    #[kani::proof]
    #[kani::unwind(34)]
    #[kani::stub(solana_msg::sol_log, stub_sol_log)]
    #[kani::stub(alloc::fmt::format, stub_format)]
    #[kani::stub(<anchor_lang::error::Error as core::convert::From<marginfi::errors::MarginfiError>>::from, stub_err_from)]
    #[kani::stub(marginfi::errors::MarginfiError::name, stub_name)]
    #[kani::stub(<marginfi::errors::MarginfiError as core::fmt::Display>::fmt, stub_disp)]
    fn swb_load_checked() {
        use switchboard_on_demand::PullFeedAccountData;
        const N: usize = 8 + core::mem::size_of::<PullFeedAccountData>();
        let mut buf = Buf::<N>([0u8; N]);
        let disc: [u8; 8] = kani::any();
        buf.0[..8].copy_from_slice(&disc);
        let mut feed = PullFeedAccountData::zeroed();
        feed.last_update_timestamp = kani::any();
        feed.result.value = kani::any();
        feed.result.std_dev = kani::any();
        buf.0[8..].copy_from_slice(bytemuck::bytes_of(&feed));
        let key = any_key(); let owner = any_key(); let mut lam = 1u64;
        let ai = AccountInfo::new(&key, false, false, &mut lam, &mut buf.0[..], &owner, false, 0);
        let now: i64 = kani::any(); let max_age: u64 = kani::any();
        kani::assume(max_age <= u16::MAX as u64);
        let r = marginfi::state::price::SwitchboardPullPriceFeed::load_checked(&ai, now, max_age);
        if let Ok(f) = r {
            kani::cover!(true, "fresh feed accepted");
            assert!(owner == marginfi::constants::SWITCHBOARD_PULL_ID);
            assert!(disc == <PullFeedAccountData as switchboard_on_demand::Discriminator>::DISCRIMINATOR);
            assert!((now as i128) - (feed.last_update_timestamp as i128) <= max_age as i128);
            assert!(f.feed.result.value == feed.result.value);
            assert!(f.feed.result.std_dev == feed.result.std_dev);
        }
    }

    // ---------------- C16.k: validate_asset_tags over 16 symbolic slots == reference predicate
    #[kani::proof]
    #[kani::unwind(34)]
    #[kani::stub(solana_msg::sol_log, stub_sol_log)]
    #[kani::stub(alloc::fmt::format, stub_format)]
    #[kani::stub(<anchor_lang::error::Error as core::convert::From<marginfi::errors::MarginfiError>>::from, stub_err_from)]
    #[kani::stub(marginfi::errors::MarginfiError::name, stub_name)]
    #[kani::stub(<marginfi::errors::MarginfiError as core::fmt::Display>::fmt, stub_disp)]
    fn tags_16() {
        let mut acc = MarginfiAccount::zeroed();
        let mut has_def = false; let mut has_staked = false;
        for i in 0..16 {
            let a: bool = kani::any(); let t: u8 = kani::any(); kani::assume(t <= 5);
            acc.lending_account.balances[i].active = a as u8;
            acc.lending_account.balances[i].bank_asset_tag = t;
            if a { if t == 2 { has_staked = true; } else if t != 1 { has_def = true; } }
        }
        let mut bank = Bank::zeroed();
        let bt: u8 = kani::any(); kani::assume(bt <= 5);
        bank.config.asset_tag = bt;
        let r = marginfi::utils::validate_asset_tags(&bank, &acc);
        let bank_def = bt == 0 || bt >= 3;
        let expect_err = (bank_def && has_staked) || (bt == 2 && has_def);
        assert!(r.is_err() == expect_err);
        kani::cover!(r.is_ok(), "accept");
        kani::cover!(r.is_err(), "reject");
    }

    // ---------------- C12.k: the daily deleverage window (update_withdrawn_equity) == an independent reference of the rolling window
    #[kani::proof]
    #[kani::stub(solana_msg::sol_log, stub_sol_log)]
    #[kani::stub(alloc::fmt::format, stub_format)]
    #[kani::stub(<anchor_lang::error::Error as core::convert::From<marginfi::errors::MarginfiError>>::from, stub_err_from)]
    #[kani::stub(marginfi::errors::MarginfiError::name, stub_name)]
    #[kani::stub(<marginfi::errors::MarginfiError as core::fmt::Display>::fmt, stub_disp)]
    fn withdraw_window() {
        use marginfi::state::marginfi_group::MarginfiGroupImpl;
        use marginfi_type_crate::types::MarginfiGroup;
        let mut g = MarginfiGroup::zeroed();
        let lim: u32 = kani::any(); let wt: u32 = kani::any(); let lr: i64 = kani::any(); let now: i64 = kani::any();
        g.deleverage_withdraw_window_cache.daily_limit = lim;
        g.deleverage_withdraw_window_cache.withdrawn_today = wt;
        g.deleverage_withdraw_window_cache.last_daily_reset_timestamp = lr;
        let whole: u32 = kani::any(); let frac: u64 = kani::any(); kani::assume(frac < (1u64 << 48));
        let x = fixed::types::I80F48::from_bits(((whole as i128) << 48) | frac as i128);
        let r = g.update_withdrawn_equity(x, now);
        let reset = now.saturating_sub(lr) >= 86_400;
        let base = if reset { 0u32 } else { wt };
        let exp_wt = base.saturating_add(whole);
        let exp_ok = !(lim != 0 && exp_wt > lim);
        assert!(r.is_ok() == exp_ok);
        if r.is_ok() {
            assert!(g.deleverage_withdraw_window_cache.withdrawn_today == exp_wt);
            assert!(g.deleverage_withdraw_window_cache.last_daily_reset_timestamp == if reset { now } else { lr });
        }
        assert!(g.deleverage_withdraw_window_cache.daily_limit == lim);
        kani::cover!(r.is_ok() && reset, "accepted after a window roll-over");
        kani::cover!(r.is_err(), "rejected");
    }

    // ---------------- C14.k: validate_bank_state == the 4 x 4 reference table
    #[kani::proof]
    #[kani::stub(solana_msg::sol_log, stub_sol_log)]
    #[kani::stub(alloc::fmt::format, stub_format)]
    #[kani::stub(<anchor_lang::error::Error as core::convert::From<marginfi::errors::MarginfiError>>::from, stub_err_from)]
    #[kani::stub(marginfi::errors::MarginfiError::name, stub_name)]
    #[kani::stub(<marginfi::errors::MarginfiError as core::fmt::Display>::fmt, stub_disp)]
    fn bank_state_table() {
        use marginfi::utils::{validate_bank_state, InstructionKind};
        use marginfi_type_crate::types::BankOperationalState as S;
        let mut bank = Bank::zeroed();
        let st: u8 = kani::any(); kani::assume(st <= 3);
        bank.config.operational_state = match st { 0 => S::Paused, 1 => S::Operational, 2 => S::ReduceOnly, _ => S::KilledByBankruptcy };
        let k: u8 = kani::any(); kani::assume(k <= 3);
        let kind = match k { 0 => InstructionKind::Unrestricted, 1 => InstructionKind::FailsInReduceState, 2 => InstructionKind::FailsInPausedState, _ => InstructionKind::FailsIfPausedOrReduceState };
        let r = validate_bank_state(&bank, kind);
        let paused = st == 0; let reduce = st == 2; let killed = st == 3;
        let reject = killed || (k == 1 && reduce) || (k == 2 && paused) || (k == 3 && (paused || reduce));
        assert!(r.is_err() == reject);
        kani::cover!(r.is_ok(), "accept"); kani::cover!(r.is_err(), "reject");
    }

    // ---------------- C08.k: is_signer_authorized / account_not_frozen_for_authority == the reference truth table, for all flag words and keys
    #[kani::proof]
    #[kani::unwind(34)]
    fn signer_auth_table() {
        use marginfi::state::marginfi_account::{account_not_frozen_for_authority, is_signer_authorized};
        let mut acc = MarginfiAccount::zeroed();
        acc.account_flags = kani::any();
        let auth = any_key(); let admin = any_key(); let signer = any_key();
        acc.authority = auth;
        let allow: bool = kani::any();
        let recv = acc.account_flags & 16 != 0; let frozen = acc.account_flags & 64 != 0;
        let want = (allow && recv) || (!(allow && recv) && if frozen { admin == signer } else { auth == signer });
        assert!(is_signer_authorized(&acc, admin, signer, allow) == want);
        assert!(account_not_frozen_for_authority(&acc, signer) == !(frozen && auth == signer));
        kani::cover!(want, "authorised"); kani::cover!(!want, "refused");
    }
}
