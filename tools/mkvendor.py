#!/usr/bin/env python3
"""Build a cargo *directory source* for every registry package of /repo/Cargo.lock out of the
already-unpacked registry sources of the repo's own cargo (1.79).  Newer cargos (Kani's pinned
toolchain, nightly) hash the registry URL differently and cannot see that cache; a directory source
with `{"files":{},"package":<checksum>}` makes the same sources usable offline by any cargo."""
import os, re, sys, json, glob, shutil
REPO = os.environ.get('VERIF_REPO', '/repo')
OUT = sys.argv[1] if len(sys.argv) > 1 else '/verif/.cache/vendor'
srcs = sorted(glob.glob(os.path.expanduser('~/.cargo/registry/src/*')))
def find(name, ver):
    for s in srcs:
        p = os.path.join(s, f'{name}-{ver}')
        if os.path.isdir(p): return p
    return None
lock = open(os.path.join(REPO, 'Cargo.lock')).read()
pk = re.findall(r'\[\[package\]\]\nname = "([^"]+)"\nversion = "([^"]+)"\n(?:source = "([^"]+)"\n)?(?:checksum = "([^"]+)"\n)?', lock)
os.makedirs(OUT, exist_ok=True)
n = miss = 0
for name, ver, source, checksum in pk:
    if not source or not source.startswith('registry+'): continue
    dst = os.path.join(OUT, f'{name}-{ver}')
    if os.path.exists(os.path.join(dst, '.cargo-checksum.json')):
        n += 1; continue
    src = find(name, ver)
    if not src:
        miss += 1; print('missing', name, ver, file=sys.stderr); continue
    if os.path.exists(dst): shutil.rmtree(dst)
    try:
        shutil.copytree(src, dst, copy_function=os.link)
    except OSError:
        if os.path.exists(dst): shutil.rmtree(dst)
        shutil.copytree(src, dst)
    for junk in ('.cargo-ok',):
        p = os.path.join(dst, junk)
        if os.path.exists(p): os.remove(p)
    # .cargo-checksum.json must be a fresh file, never a hard link into the registry
    with open(os.path.join(dst, '.cargo-checksum.json'), 'w') as f:
        json.dump({'files': {}, 'package': checksum}, f)
    n += 1
print(f'vendor: {n} packages in {OUT}, {miss} missing')
sys.exit(1 if miss else 0)
