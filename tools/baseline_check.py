#!/usr/bin/env python3
"""Run the repository's pinned test suite (guard off; there are no hooks) and compare with BASELINE.json stable_pass."""
import json, re, subprocess, sys
base = json.load(open('/root/.vp/BASELINE.json'))
want = set(base['stable_pass'])
p = subprocess.run('cd /repo && cargo test --workspace --no-fail-fast --offline 2>&1', shell=True, capture_output=True, text=True)
crate = None; passed = set(); failed = set()
for line in p.stdout.splitlines():
    m = re.search(r'Running (?:unittests )?(\S+) \(target/debug/deps/([\w-]+?)-[0-9a-f]{16}\)', line)
    if m:
        crate = m.group(2).replace('_', '-')
        if crate == 'marginfi-type-crate' or crate == 'marginfi_type_crate': crate = 'marginfi-type-crate'
        continue
    m = re.match(r'^test (\S+)(?: - should panic)? \.\.\. (ok|FAILED)', line)
    if m and crate:
        name = f'{crate}::{m.group(1)}'
        (passed if m.group(2) == 'ok' else failed).add(name)
def norm(s): return s.replace('_', '-', 0)
missing = [w for w in want if w not in passed and w.replace('-', '_', 1) not in passed]
# crate names in BASELINE use the package name; try a tolerant match on the test path only
if missing:
    tails = {x.split('::', 1)[1] for x in passed}
    missing = [w for w in missing if w.split('::', 1)[1] not in tails and not any(w.endswith('::' + t) for t in tails)]
print(f'passed={len(passed)} failed={len(failed)} baseline={len(want)} baseline_missing={len(missing)}')
for m_ in missing[:20]: print('  MISSING', m_)
sys.exit(1 if missing else 0)
