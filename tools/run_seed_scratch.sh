#!/bin/bash
# usage: run_seed_scratch.sh <patch.diff> <check ids...>
# Runs the checks of /verif against a scratch worktree of /repo (/tmp/seedtree) with the seeded change applied there - /repo itself stays
# untouched so other work can go on. Own MIR dir, MIR target, replay target and evidence dir (kept under /verif/.cache/seedrun and removed by
# `run_seed_scratch.sh --clean`). Equivalent to tools/run_seed.sh (which patches /repo in place) in everything the checks see.
set -u
SLOT=${SEEDSLOT:-}; S=/verif/.cache/seedrun$SLOT; WT=/tmp/seedtree$SLOT     # SEEDSLOT=2 gives a second, independent scratch tree
if [ "${1:-}" = "--clean" ]; then git -C /repo worktree remove --force $WT 2>/dev/null; git -C /repo worktree prune; rm -rf $S; exit 0; fi
P=$(readlink -f $1); shift
mkdir -p $S/mir $S/evidence
[ -d $S/mir-target ] || cp -a /verif/.cache/mir-target $S/mir-target
[ -d $S/replay-target ] || { mkdir -p $S/replay-target; cp -a /verif/.cache/replay-target/debug $S/replay-target/debug; }
[ -d $WT ] || git -C /repo worktree add -q --detach $WT HEAD || exit 2
git -C $WT checkout -q -- . ; git -C $WT checkout -q --detach $(git -C /repo rev-parse HEAD); git -C $WT apply $P || { echo "patch does not apply"; exit 2; }
export VERIF_REPO=$WT VERIF_MIRDIR=$S/mir VERIF_MIR_TARGET=$S/mir-target VERIF_REPLAY_TARGET=$S/replay-target VERIF_EVIDENCE_DIR=$S/evidence
for c in "$@"; do
  (cd /verif && timeout 3000 ./check $c > $S/seedrun_$c.log 2>&1; echo "check $c exit=$? $(grep -c '^VIOLATION' $S/seedrun_$c.log) violation lines; $(grep -E '^VIOLATION' $S/seedrun_$c.log | head -3 | tr '\n' ' ')"; grep -E '^\s+C[0-9]+\.\S+\s+(CEX|INCONCLUSIVE|ERROR)' $S/seedrun_$c.log | cut -c1-150; grep -E 'note: SAT' $S/seedrun_$c.log | head -8 | cut -c1-220)
done
git -C $WT checkout -q -- .
