#!/bin/bash
# Pre-build the Kani harness crate's dependency graph (first build ~3.5 min; later runs ~40 s). Offline, own target dir.
cd /verif/kani || exit 1
cp /repo/Cargo.lock Cargo.lock
export CARGO_NET_OFFLINE=true CARGO_TARGET_DIR=/verif/.cache/kani-target
timeout 1800 cargo kani --only-codegen -Z stubbing > /verif/.cache/kani-build.log 2>&1
rc=$?
if [ $rc -ne 0 ]; then echo "kani build FAILED (rc=$rc)"; tail -20 /verif/.cache/kani-build.log; exit 1; fi
echo "kani: built"
