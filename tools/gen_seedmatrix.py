#!/usr/bin/env python3
"""Rewrite the seeded-change detection table in DESIGN.md from seeded/*/meta.json."""
import json, glob, re
rows = ['| seed | changed | what it breaks | caught by |', '|---|---|---|---|']
for f in sorted(glob.glob('/verif/seeded/*/meta.json')):
    m = json.load(open(f)); sid = f.split('/')[-2]
    det = m.get('detected_by', {})
    dtxt = '; '.join(f'`./check {k}`: {v}' for k, v in det.items()) or 'not yet run'
    files = ', '.join(x.split('/')[-1] for x in m.get('files', []))
    rows.append(f"| {sid} | {files} | {m.get('summary', '').replace('|', '/')} | {dtxt.replace('|', '/')} |")
tbl = '\n'.join(rows)
p = '/verif/DESIGN.md'; s = open(p).read()
if 'SEEDMATRIX' in s and '<!-- SEEDMATRIX:BEGIN -->' not in s:
    s = s.replace('SEEDMATRIX', '<!-- SEEDMATRIX:BEGIN -->\n<!-- SEEDMATRIX:END -->')
s = re.sub(r'<!-- SEEDMATRIX:BEGIN -->.*?<!-- SEEDMATRIX:END -->', lambda _: '<!-- SEEDMATRIX:BEGIN -->\n' + tbl + '\n<!-- SEEDMATRIX:END -->', s, flags=re.S)
first = []; later = []
for f in sorted(glob.glob('/verif/seeded/*/meta.json')):
    m = json.load(open(f)); sid = f.split('/')[-2]
    own = m.get('detected_by', {}).get(m.get('property', sid.split('-')[0]), ' '.join(m.get('detected_by', {}).values()))
    (later if re.search(r'MISSED|first run exit [02]|first run: exit 0|not a detection', own) else first).append(sid)
note = f"""
Of the {len(first) + len(later)} seeds, {len(first)} were caught by their property's own check as it stood when the seed arrived ({', '.join(first)});
{len(later)} were not ({', '.join(later)}) and each led to a new, corrected or shared obligation, after which it is caught - the
"caught by" column says what was missing and what was added (several of these were already caught by a *neighbouring*
property's check, e.g. the per-position valuation C04.a, and were then shared so that the property's own check sees them).
Seven of these were not silent passes but exit 2 - undecided, which is not a detection either: C08-6 (unmodelled byte-vector comparison, see 'Benign refactorings'), C19-1 (incomplete replay request), C14-2 (absent guard reported as a tool error), C12-4 (abstracted bit operation), C13-4 (unmodelled float literal), C18-3 (unmodelled iterator adaptor), C20-3 (unparsed constant spelling); each exposed a gap of the encoder that was closed.
No seed remains uncaught. The sub-agents that wrote the seeds saw only the property text and a scratch worktree, never /verif.
"""
s = re.sub(r'\nOf the \d+ seeds,.*?never /verif\.\n', lambda _: note, s, flags=re.S)
open(p, 'w').write(s)
print('seed matrix:', len(rows) - 2, 'seeds')
