#!/usr/bin/env python3
"""Rewrite the seeded-change detection table in DESIGN.md from seeded/*/meta.json."""
import json, glob, re
rows = ['| seed | changed | what it breaks | caught by |', '|---|---|---|---|']
for f in sorted(glob.glob('/verif/seeded/*/meta.json')):
    m = json.load(open(f)); sid = f.split('/')[-2]
    det = m.get('detected_by', {})
    dtxt = '; '.join(f'`./check {k}`: {v}' for k, v in det.items()) or 'not yet run'
    files = ', '.join(x.split('/')[-1] for x in m.get('files', []))
    rows.append(f"| {sid} | {files} | {m.get('summary', '').replace('|', '/')} | {dtxt.replace('|', '/')} |")
tbl = '\n'.join(rows)
p = '/verif/DESIGN.md'; s = open(p).read()
if 'SEEDMATRIX' in s and '<!-- SEEDMATRIX:BEGIN -->' not in s:
    s = s.replace('SEEDMATRIX', '<!-- SEEDMATRIX:BEGIN -->\n<!-- SEEDMATRIX:END -->')
s = re.sub(r'<!-- SEEDMATRIX:BEGIN -->.*?<!-- SEEDMATRIX:END -->', lambda _: '<!-- SEEDMATRIX:BEGIN -->\n' + tbl + '\n<!-- SEEDMATRIX:END -->', s, flags=re.S)
open(p, 'w').write(s)
print('seed matrix:', len(rows) - 2, 'seeds')
