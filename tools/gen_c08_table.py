#!/usr/bin/env python3
"""Generate specs/c08_golden.json: canonical acceptance condition of every #[derive(Accounts)] struct on the *reference* tree.
Run once on the pinned tree (after review); the check then proves  new acceptance => golden acceptance  for every struct."""
import sys, json, time
sys.path.insert(0, '/verif'); sys.setrecursionlimit(40000)
from mirsym.harness import *
from specs.accounts import *
ensure_mir()
world = World(('marginfi', 'typecrate', 'drift', 'kamino', 'solend'))
T = all_try_accounts(world)
out = {}
for sn in sorted(T):
    try:
        c = ok_condition(world, sn, T[sn])
        out[sn] = {'fields': c['fields'], 'phi': c['phi'].sexpr(), 'npaths': c['npaths'], 'dropped': c['dropped']}
        print(sn, c['npaths'], len(out[sn]['phi']))
    except Exception as e:
        out[sn] = {'error': repr(e)[:200]}
        print(sn, 'ERROR', repr(e)[:100])
json.dump(out, open('/verif/specs/c08_golden.json', 'w'), indent=1)
