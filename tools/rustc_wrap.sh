#!/bin/bash
# RUSTC_WRAPPER: run the real rustc; for drift_mocks additionally emit its MIR with the same command line
rustc="$1"; shift
if [ -n "$MIRSYM_DRIFT_OUT" ] && [[ " $* " == *" --crate-name drift_mocks "* ]] && [[ " $* " == *"--crate-type lib"* || " $* " == *"crate-type cdylib"* ]]; then
  "$rustc" "$@" -Zunpretty=mir -C debug-assertions=off -C overflow-checks=on -o "$MIRSYM_DRIFT_OUT" >/dev/null 2>"$MIRSYM_DRIFT_OUT.log" || true
fi
exec "$rustc" "$@"
