#!/bin/bash
# RUSTC_WRAPPER: run the real rustc; for the crates named in MIRSYM_EXTRA ("crate_name=out.mir ...") additionally emit
# their MIR with cargo's exact command line (crates that cannot be selected with -p on their own, and registry dependencies)
rustc="$1"; shift
for spec in $MIRSYM_EXTRA; do
  name=${spec%%=*}; out=${spec#*=}
  if [[ " $* " == *" --crate-name $name "* ]] && [[ " $* " == *"--crate-type lib"* || " $* " == *"crate-type cdylib"* ]]; then
    "$rustc" "$@" -Zunpretty=mir -C debug-assertions=off -C overflow-checks=on -o "$out" >/dev/null 2>"$out.log" || true
  fi
done
exec "$rustc" "$@"
