#!/bin/bash
# One-time (idempotent) offline build of the framework caches under /verif/.cache
cd /verif
export CARGO_NET_OFFLINE=true
python3 tools/mkvendor.py /verif/.cache/vendor || exit 1
tools/mirdump.sh || exit 1
[ -x tools/build_replay.sh ] && { tools/build_replay.sh || exit 1; }
[ -x tools/build_kani.sh ] && { tools/build_kani.sh || echo "setup: Kani pre-build failed - the thorough tier runs without its second engine (never affects a verdict)"; }
echo "setup: ok"
