#!/bin/bash
# usage: run_seed.sh <patch.diff> <check ids...> : apply the seeded change to /repo, run the checks, undo the change
P=$1; shift
git -C /repo checkout -q -- . ; git -C /repo apply $P || { echo "patch does not apply to /repo"; exit 2; }
for c in "$@"; do
  (cd /verif && timeout 2400 ./check $c > /tmp/seedrun_$c.log 2>&1; echo "check $c exit=$? $(grep -c '^VIOLATION' /tmp/seedrun_$c.log) violation lines; $(grep -E '^VIOLATION' /tmp/seedrun_$c.log | head -3 | tr '\n' ' ')")
done
git -C /repo checkout -q -- . ; git -C /repo status --short
