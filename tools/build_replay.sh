#!/bin/bash
# Build the native replay binary against /repo's current tree with the repo's own toolchain (1.79), offline.
# Scratch runs against another tree (seeded changes, robustness test): VERIF_REPO=<tree> VERIF_REPLAY_TARGET=<dir> build a copy of the
# replay crate whose path dependencies point into that tree, with its own target dir; /repo's binary is never touched by them.
REPO=${VERIF_REPO:-/repo}
TGT=${VERIF_REPLAY_TARGET:-/verif/.cache/replay-target}
SRC=/verif/replay
if [ "$REPO" != "/repo" ]; then
  SRC=$TGT/crate; mkdir -p $SRC; rm -rf $SRC/src; cp -r /verif/replay/src $SRC/src
  sed "s#\"/repo/#\"$REPO/#g" /verif/replay/Cargo.toml > $SRC/Cargo.toml
fi
cd $SRC || exit 1
cp $REPO/Cargo.lock Cargo.lock
export CARGO_TARGET_DIR=$TGT CARGO_NET_OFFLINE=true
cargo +1.79.0 build --offline > $TGT/../replay-build-$(basename $TGT).log 2>&1
rc=$?
if [ $rc -ne 0 ]; then echo "replay build FAILED"; grep -E "^error" -A12 $TGT/../replay-build-$(basename $TGT).log | head -60; exit 1; fi
echo "replay: built"
