#!/bin/bash
# Build the native replay binary against /repo's current tree with the repo's own toolchain (1.79), offline.
cd /verif/replay || exit 1
cp /repo/Cargo.lock Cargo.lock
export CARGO_TARGET_DIR=/verif/.cache/replay-target CARGO_NET_OFFLINE=true
cargo +1.79.0 build --offline > /verif/.cache/replay-build.log 2>&1
rc=$?
if [ $rc -ne 0 ]; then echo "replay build FAILED"; grep -E "^error" -A12 /verif/.cache/replay-build.log | head -60; exit 1; fi
echo "replay: built"
