#!/bin/bash
# usage: confirm_seed.sh <worktree> <demo file in seed_out> ; confirms: with patch demo FAILS + lib tests pass, without patch demo PASSES
WT=$1; DEMO=$2; NAME=$(basename $DEMO .rs)
cd $WT || exit 2
export CARGO_TARGET_DIR=$WT/target
git checkout -q -- . ; git apply seed_out/patch.diff || { echo "patch does not apply"; exit 2; }
cp seed_out/$DEMO programs/marginfi/tests/$NAME.rs
cargo test -p marginfi --test $NAME --offline > seed_out/confirm_with.log 2>&1; W=$?
cargo test -p marginfi --lib --offline > seed_out/confirm_lib.log 2>&1; L=$?
git apply -R seed_out/patch.diff
cargo test -p marginfi --test $NAME --offline > seed_out/confirm_without.log 2>&1; WO=$?
rm -f programs/marginfi/tests/$NAME.rs
git apply seed_out/patch.diff
echo "SEED $WT: demo_with_patch_exit=$W (want !=0) lib_tests_exit=$L (want 0) demo_without_patch_exit=$WO (want 0) lib: $(grep 'test result' seed_out/confirm_lib.log | head -1)"
