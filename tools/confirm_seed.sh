#!/bin/bash
# usage: confirm_seed.sh <worktree> <seed dir inside the worktree, e.g. seed_out_1>
# confirms: with the patch the demo FAILS and the existing lib tests pass; without the patch the demo PASSES
WT=$1; SD=${2:-seed_out}
cd $WT || exit 2
DEMO=$(ls $SD/*.rs | head -1); NAME=$(basename $DEMO .rs)
export CARGO_TARGET_DIR=$WT/target CARGO_NET_OFFLINE=true
git checkout -q -- . ; git apply $SD/patch.diff || { echo "SEED $WT/$SD: patch does not apply"; exit 2; }
cp $DEMO programs/marginfi/tests/$NAME.rs
cargo test -p marginfi --test $NAME --offline > $SD/confirm_with.log 2>&1; W=$?
cargo test -p marginfi --lib --offline > $SD/confirm_lib.log 2>&1; L=$?
X=0
if grep -q '^diff --git a/type-crate' $SD/patch.diff; then cargo test -p marginfi-type-crate --offline > $SD/confirm_tc.log 2>&1; X=$?; fi
for m in kamino solend drift; do if grep -q "^diff --git a/programs/$m-mocks" $SD/patch.diff; then cargo test -p $m-mocks --offline > $SD/confirm_$m.log 2>&1; X=$((X+$?)); fi; done
git apply -R $SD/patch.diff
cargo test -p marginfi --test $NAME --offline > $SD/confirm_without.log 2>&1; WO=$?
rm -f programs/marginfi/tests/$NAME.rs
git checkout -q -- .
echo "SEED $WT/$SD: demo_with_patch_exit=$W (want !=0) lib_tests_exit=$L (want 0) other_crate_tests_exit=$X (want 0) demo_without_patch_exit=$WO (want 0) lib: $(grep 'test result' $SD/confirm_lib.log | head -1) with: $(grep 'test result' $SD/confirm_with.log | head -1)"
