#!/usr/bin/env python3
"""Generate /verif/OBLIGATIONS.md (the obligations actually decided, per property) from the evidence files of the last run."""
import json, glob, os
out = ['# Obligations decided per property (generated from /verif/evidence/*.json by tools/gen_obligations.py)', '',
       'Columns: obligation id, what is decided, queries (unsat / sat / unknown / reachability witnesses), paths explored.', '']
for f in sorted(glob.glob('/verif/evidence/C??.json')):
    d = json.load(open(f)); c = d['coverage']
    out.append(f"## {d['property_id']} — tier {d['tier']}: {c['discharged']}/{c['obligations']} obligations discharged, {c['queries']} queries, solver {c['solver_s']} s, wall {d.get('wall_s')} s")
    out.append('')
    out.append('Bounds: ' + '; '.join(c.get('bounds', [])))
    out.append('')
    out.append('Assumptions: ' + '; '.join(d.get('assumptions', [])))
    out.append('')
    out.append('| obligation | decided statement | unsat | sat | unk | wit | paths |')
    out.append('|---|---|---|---|---|---|---|')
    for o in c.get('obligation_table', []):
        out.append(f"| {o['oid']} | {o['desc'].replace('|', '/')} | {o['unsat']} | {o['sat']} | {o['unknown']} | {o['witness_sat']} | {o['paths']} |")
    out.append('')
open('/verif/OBLIGATIONS.md', 'w').write('\n'.join(out))
print('OBLIGATIONS.md:', len(out), 'lines')
