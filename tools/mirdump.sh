#!/bin/bash
# Dump rustc MIR (-Zunpretty=mir) of the real crates from /repo's current working tree.
# usage: mirdump.sh <outdir>     (re-dumps only if the source hash changed)
set -u
REPO=${VERIF_REPO:-/repo}
CACHE=/verif/.cache
OUT=${1:-$CACHE/mir}
mkdir -p "$OUT" "$CACHE"
CFG=$CACHE/vendor-config.toml
cat > $CFG <<EOT
[source.crates-io]
replace-with = "vendored"
[source.vendored]
directory = "$CACHE/vendor"
[net]
offline = true
EOT
HASH=$( (cd $REPO && find programs type-crate id-crate Cargo.toml Cargo.lock -type f \( -name '*.rs' -o -name 'Cargo.toml' -o -name 'Cargo.lock' \) -print0 | sort -z | xargs -0 sha256sum) | sha256sum | cut -d' ' -f1)
if [ -f "$OUT/HASH" ] && [ "$(cat $OUT/HASH)" = "$HASH" ] && [ -s "$OUT/marginfi.mir" ] && [ -s "$OUT/typecrate.mir" ] && [ -s "$OUT/drift.mir" ] && [ -s "$OUT/pyth.mir" ]; then
  echo "mirdump: up to date ($HASH)"; exit 0
fi
rm -f "$OUT/HASH"
export CARGO_TARGET_DIR=${VERIF_MIR_TARGET:-$CACHE/mir-target} CARGO_NET_OFFLINE=true
FLAGS="-Zunpretty=mir -C debug-assertions=off -C overflow-checks=on"
t0=$(date +%s)
# force re-emission: cargo would skip rustc (and so the MIR output) for crates whose fingerprint is fresh
rm -rf $CARGO_TARGET_DIR/debug/.fingerprint/{marginfi,marginfi-type-crate,kamino-mocks,solend-mocks,drift-mocks,pyth-solana-receiver-sdk}-* 2>/dev/null
dump() { # crate-name outfile extra-cargo-args
  local pkg=$1 out=$2; shift 2
  ( cd $REPO/programs/marginfi && cargo +nightly --config $CFG rustc --offline --locked -p $pkg --lib "$@" -- $FLAGS -o "$OUT/$out.tmp" ) > "$OUT/$out.log" 2>&1
  local rc=$?
  if [ $rc -ne 0 ] || [ ! -s "$OUT/$out.tmp" ]; then echo "mirdump: FAILED for $pkg (see $OUT/$out.log)"; tail -5 "$OUT/$out.log"; return 1; fi
  mv "$OUT/$out.tmp" "$OUT/$out"
}
# the dependency crates first (so marginfi's own dump finds them built), in parallel where independent
dump marginfi-type-crate typecrate.mir || exit 2
( dump kamino-mocks kamino.mir ) & ( dump solend-mocks solend.mir ) & wait
# drift-mocks does not build when selected alone (bytemuck derive feature comes through unification), and the Pyth
# receiver SDK is a registry dependency: their MIR is emitted by a rustc wrapper during the marginfi build, with cargo's exact command line
export MIRSYM_EXTRA="drift_mocks=$OUT/drift.mir pyth_solana_receiver_sdk=$OUT/pyth.mir" RUSTC_WRAPPER=/verif/tools/rustc_wrap.sh
rm -f "$OUT/drift.mir" "$OUT/pyth.mir"
dump marginfi marginfi.mir --features no-entrypoint || exit 2
unset RUSTC_WRAPPER
[ -s "$OUT/drift.mir" ] || { echo "mirdump: FAILED for drift-mocks (wrapper produced nothing)"; exit 2; }
[ -s "$OUT/pyth.mir" ] || { echo "mirdump: FAILED for pyth-solana-receiver-sdk (wrapper produced nothing)"; exit 2; }
echo "$HASH" > "$OUT/HASH"
echo "mirdump: done in $(( $(date +%s) - t0 )) s"
ls -la "$OUT"/*.mir
