#!/usr/bin/env python3
"""usage: import_seed.py <worktree> <seed dir> : copy a CONFIRMED third-party seeded change into /verif/seeded/<Cxx>-<n>/ (next free n)"""
import sys, os, json, glob, shutil, re
wt, sd = sys.argv[1], sys.argv[2]
src = os.path.join(wt, sd)
meta = json.load(open(src + '/meta.json'))
pid = meta['property']
logline = None
for f in glob.glob('/root/confirm5_*.log'):
    for l in open(f):
        if l.startswith(f'SEED {wt}/{sd}:'): logline = l.strip()
if not logline: sys.exit(f'no confirmation line for {wt}/{sd}')
m = re.search(r'demo_with_patch_exit=(\d+) .*lib_tests_exit=(\d+) .*other_crate_tests_exit=(\d+) .*demo_without_patch_exit=(\d+)', logline)
w, l, x, wo = map(int, m.groups())
if not (w != 0 and l == 0 and x == 0 and wo == 0): sys.exit(f'NOT CONFIRMED: {logline}')
n = 1
while os.path.exists(f'/verif/seeded/{pid}-{n}'): n += 1
dst = f'/verif/seeded/{pid}-{n}'; os.makedirs(dst)
shutil.copy(src + '/patch.diff', dst)
for f in glob.glob(src + '/*.rs'): shutil.copy(f, dst)
meta['confirmed_by_me'] = 'tools/confirm_seed.sh in the scratch worktree: ' + re.sub(r'^SEED \S+ ', '', logline)
meta['detected_by'] = {}
json.dump(meta, open(dst + '/meta.json', 'w'), indent=1)
print(dst, '|', meta['summary'][:140])
