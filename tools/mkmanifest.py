#!/usr/bin/env python3
"""Regenerate MANIFEST.json from specs/manifest_data.py (single source of truth)."""
import json, sys
sys.path.insert(0, '/verif')
from specs.manifest_data import CHECKS, NOT_APPLICABLE, HOOK_COMMITS
props = [json.loads(l)['id'] for l in open('/verif/properties.jsonl')]
checks = []
for pid in props:
    if pid not in CHECKS: continue
    c = CHECKS[pid]
    checks.append({
        'property_id': pid,
        'quick_cmd': f'./check {pid} --tier quick',
        'thorough_cmd': f'./check {pid} --tier thorough',
        'evidence_file': f'/verif/evidence/{pid}.json',
        'replay_cmd_template': f'./check {pid} --tier quick',
        'engine': c.get('engine', 'mirsym'),
        'level_claimed': {'category': 'model_checking', 'text': c['text'], 'design_ref': c.get('design_ref', f'DESIGN.md §5/{pid}')},
        'level_note': c['note'],
        'technique': c['technique'],
    })
na = [{'property_id': p, 'reason': NOT_APPLICABLE.get(p, 'check not built yet in this session (work in progress); no claim is made')} for p in props if p not in CHECKS]
m = {
    'version': 1,
    'setup_cmd': './tools/setup.sh',
    'hooks': {'guard': 'mrgnlabs_marginfi_v2_verif', 'enable': 'none needed: the checks read rustc MIR of the unmodified crate and link its pub items; no source hooks are installed',
              'baseline_off_cmd': 'cd /repo && cargo test --workspace --no-fail-fast --offline', 'source_commits': HOOK_COMMITS, 'add_only': True},
    'engines': [
        {'name': 'mirsym', 'path': '/verif/mirsym', 'serves_properties': sorted(CHECKS), 'kind_free_text': 'symbolic execution of rustc MIR (regenerated from /repo on every run) into integer-arithmetic SMT with exact machine semantics; z3 decides path-condition ∧ ¬goal per path; bounded by loop unrollings stated per obligation'},
    ] + ([] if not __import__('os').path.isdir('/verif/kani') else [
        {'name': 'kani', 'path': '/verif/kani', 'serves_properties': sorted(p for p in CHECKS if 'kani' in CHECKS[p].get('engine', '')), 'kind_free_text': 'Kani 0.68 / CBMC 6.11 proof harnesses over the compiled real crates (path dependency, stub kit for error construction/logging, unwinding assertions on, cover! witnesses); thorough tier only; a failed harness makes the obligation undecided (exit 2), a tool error is recorded and ignored'},
    ]),
    'checks': checks,
    'not_applicable': na,
    'notes': 'Exit codes: 0 held, 1 VIOLATION (after replay), 2 inconclusive (solver unknown / vacuous / tool error). See DESIGN.md.',
}
json.dump(m, open('/verif/MANIFEST.json', 'w'), indent=1)
print('MANIFEST: claimed', [c['property_id'] for c in checks], 'n/a', [x['property_id'] for x in na])
