#!/bin/bash
# Robustness test of the checks against a BENIGN change: a comment line is prepended to every Rust source file of the
# program crates (all `<impl at file:line>` names in the MIR shift, behaviour identical). Every quick check must still exit 0.
# Runs through tools/run_seed_scratch.sh (scratch worktree, own MIR / replay targets and evidence dir; /repo and the committed evidence untouched).
# usage: robustness_shift.sh [Cxx ...]      (SEEDSLOT selects the scratch tree, default 2)
set -u
export SEEDSLOT=${SEEDSLOT:-2}
WT=/tmp/wt_shift_src; P=/verif/.cache/shift.diff
git -C /repo worktree remove --force $WT 2>/dev/null
git -C /repo worktree add -q --detach $WT HEAD || exit 2
for f in $(cd $WT && find programs/marginfi/src type-crate/src programs/kamino-mocks/src programs/solend-mocks/src programs/drift-mocks/src -name '*.rs'); do
  sed -i '1i // benign edit: line shift' $WT/$f
done
git -C $WT diff > $P
git -C /repo worktree remove --force $WT; git -C /repo worktree prune
out=$(/verif/tools/run_seed_scratch.sh $P ${@:-C01 C02 C03 C04 C05 C06 C07 C08 C09 C10 C11 C12 C13 C14 C15 C16 C17 C18 C19 C20})
echo "$out" | grep '^check '
if echo "$out" | grep '^check ' | grep -qv 'exit=0 '; then echo "robustness_shift: FAILED"; exit 1; fi
echo "robustness_shift: every check exit 0"
