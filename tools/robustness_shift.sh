#!/bin/bash
# Robustness test of the checks against a BENIGN change: a comment line is prepended to every Rust source file of the
# program crates (all `<impl at file:line>` names shift, behaviour identical). Every quick check must still exit 0.
# Runs on a scratch worktree, with scratch MIR and evidence dirs (the committed evidence is not touched). Removes everything afterwards.
set -u
WT=/tmp/wt_shift; OUT=/tmp/shift_out
git -C /repo worktree remove --force $WT 2>/dev/null; rm -rf $OUT; mkdir -p $OUT/evidence $OUT/mir
git -C /repo worktree add -q --detach $WT HEAD || exit 2
for f in $(cd $WT && find programs/marginfi/src type-crate/src programs/kamino-mocks/src programs/solend-mocks/src programs/drift-mocks/src -name '*.rs'); do
  sed -i '1i // benign edit: line shift' $WT/$f
done
export VERIF_REPO=$WT VERIF_MIRDIR=$OUT/mir VERIF_EVIDENCE_DIR=$OUT/evidence
rc=0
for p in ${@:-C01 C02 C03 C04 C05 C06 C07 C08 C09 C10 C11 C12 C13 C14 C15 C16 C17 C18 C19 C20}; do
  (cd /verif && ./check $p --tier quick > $OUT/$p.log 2>&1); e=$?
  echo "shift $p exit=$e $(grep -c '^VIOLATION' $OUT/$p.log) viol; $(grep -E '^\[C..\] tier' $OUT/$p.log | cut -c1-110)"
  [ $e -ne 0 ] && rc=1
done
git -C /repo worktree remove --force $WT; git -C /repo worktree prune
echo "robustness_shift: rc=$rc (logs in $OUT)"
exit $rc
