#!/usr/bin/env python3
"""usage: record_seed_runs.py <queue log>... : write what each seed run found into /verif/seeded/<id>/meta.json (detected_by, ran)"""
import sys, re, json, os
for log in sys.argv[1:]:
    cur = None; blocks = {}
    for l in open(log):
        m = re.match(r'^=== (C\d+-\d+) ', l)
        if m: cur = m.group(1); blocks.setdefault(cur, []); continue
        if cur: blocks[cur].append(l.rstrip())
    for sid, lines in blocks.items():
        d = f'/verif/seeded/{sid}'
        if not os.path.isdir(d) or not lines: continue
        meta = json.load(open(d + '/meta.json'))
        if meta.get('manual_note'): continue      # detection text written by hand (runs outside the queue)
        head = [l for l in lines if l.startswith('check ')]
        if not head: continue
        m = re.match(r'^check (C\d+) exit=(\d+) (\d+) violation', head[0])
        pid, ex, nv = m.group(1), int(m.group(2)), int(m.group(3))
        obs = [re.match(r'^\s+(C\d+\.\S+)\s+(CEX|INCONCLUSIVE|ERROR)', l) for l in lines]
        cex = [o.group(1) for o in obs if o and o.group(2) == 'CEX']; inc = [o.group(1) for o in obs if o and o.group(2) != 'CEX']
        sat = [re.sub(r'^\s+note: SAT x\d+: ', '', l)[:140] for l in lines if 'note: SAT' in l]
        verdict = {0: 'exit 0: MISSED', 1: f'exit 1, VIOLATION {", ".join(cex[:6])}' + (f' ({sat[0]})' if sat else ''), 2: f'exit 2 (INCONCLUSIVE: {", ".join((inc or cex)[:4])})'}.get(ex, f'exit {ex}')
        prev = meta.get('detected_by', {}).get(pid)
        entry = f'`./check {pid}` as it stood at the time of the run: {verdict}'
        if prev and prev != entry and 'after' not in prev: entry = prev + '; then: ' + entry
        meta.setdefault('detected_by', {})[pid] = entry if not prev or prev == entry else (prev if (entry in prev or verdict in prev) else prev.replace('(run pending)', '') + ('' if prev.endswith(': ') else '; later run: ') + verdict)
        ran = f'tools/run_seed_scratch.sh /verif/seeded/{sid}/patch.diff {pid}  (the checks of /verif against a scratch worktree of /repo with the patch applied; /repo itself untouched)'
        if ran not in meta.get('ran', []): meta.setdefault('ran', []).append(ran)
        json.dump(meta, open(d + '/meta.json', 'w'), indent=1)
        print(sid, '->', verdict[:150])
