//! Native replay of solver counterexamples (and translation validation of the encoder) against the
//! real compiled marginfi code.  stdin: JSON array of requests, stdout: JSON array of responses.
use anchor_lang::prelude::*;
use bytemuck::Zeroable;
use fixed::types::I80F48;
use marginfi::state::bank::BankImpl;
use marginfi::state::marginfi_account::BankAccountWrapper;
use marginfi_type_crate::types::{Balance, Bank, WrappedI80F48};
use serde_json::{json, Map, Value};
use std::io::Read;
use std::sync::atomic::{AtomicI64, Ordering};

static CLOCK_TS: AtomicI64 = AtomicI64::new(0);
struct Stubs;
impl solana_program::program_stubs::SyscallStubs for Stubs {
    fn sol_get_clock_sysvar(&self, var_addr: *mut u8) -> u64 {
        let c = Clock { slot: 1, epoch_start_timestamp: 0, epoch: 1, leader_schedule_epoch: 1, unix_timestamp: CLOCK_TS.load(Ordering::SeqCst) };
        unsafe { *(var_addr as *mut Clock) = c; }
        0
    }
    fn sol_log(&self, _m: &str) {}
}

fn i128v(v: &Value) -> i128 {
    match v {
        Value::String(s) => s.parse::<i128>().expect("i128 string"),
        Value::Number(n) => n.as_i64().map(|x| x as i128).or(n.as_u64().map(|x| x as i128)).expect("num"),
        Value::Bool(b) => *b as i128,
        _ => panic!("bad value {v}"),
    }
}
fn fx(v: &Value) -> I80F48 { I80F48::from_bits(i128v(v)) }
fn wi(v: &Value) -> WrappedI80F48 { fx(v).into() }
fn bits(w: WrappedI80F48) -> String { I80F48::from(w).to_bits().to_string() }
fn pk(v: &Value) -> Pubkey { let x = i128v(v); let mut b = [0u8; 32]; b[..16].copy_from_slice(&x.to_le_bytes()); Pubkey::new_from_array(b) }

fn set_bank(b: &mut Bank, k: &str, v: &Value) {
    match k {
        "asset_share_value" => b.asset_share_value = wi(v),
        "liability_share_value" => b.liability_share_value = wi(v),
        "total_asset_shares" => b.total_asset_shares = wi(v),
        "total_liability_shares" => b.total_liability_shares = wi(v),
        "collected_insurance_fees_outstanding" => b.collected_insurance_fees_outstanding = wi(v),
        "collected_group_fees_outstanding" => b.collected_group_fees_outstanding = wi(v),
        "collected_program_fees_outstanding" => b.collected_program_fees_outstanding = wi(v),
        "emissions_remaining" => b.emissions_remaining = wi(v),
        "emissions_rate" => b.emissions_rate = i128v(v) as u64,
        "flags" => b.flags = i128v(v) as u64,
        "mint_decimals" => b.mint_decimals = i128v(v) as u8,
        "last_update" => b.last_update = i128v(v) as i64,
        "lending_position_count" => b.lending_position_count = i128v(v) as i32,
        "borrowing_position_count" => b.borrowing_position_count = i128v(v) as i32,
        "config.deposit_limit" => b.config.deposit_limit = i128v(v) as u64,
        "config.borrow_limit" => b.config.borrow_limit = i128v(v) as u64,
        "config.asset_tag" => b.config.asset_tag = i128v(v) as u8,
        "config.total_asset_value_init_limit" => b.config.total_asset_value_init_limit = i128v(v) as u64,
        "config.asset_weight_init" => b.config.asset_weight_init = wi(v),
        "config.asset_weight_maint" => b.config.asset_weight_maint = wi(v),
        "config.liability_weight_init" => b.config.liability_weight_init = wi(v),
        "config.liability_weight_maint" => b.config.liability_weight_maint = wi(v),
        "config.oracle_max_age" => b.config.oracle_max_age = i128v(v) as u16,
        "config.oracle_max_confidence" => b.config.oracle_max_confidence = i128v(v) as u32,
        "config.operational_state" => b.config.operational_state = unsafe { std::mem::transmute::<u8, _>(i128v(v) as u8) },
        "config.risk_tier" => b.config.risk_tier = unsafe { std::mem::transmute::<u8, _>(i128v(v) as u8) },
        "emode.entries" => { for (i, p) in v.as_array().unwrap().iter().enumerate() { let a = p.as_array().unwrap();
            b.emode.emode_config.entries[i].collateral_bank_emode_tag = i128v(&a[0]) as u16;
            b.emode.emode_config.entries[i].asset_weight_init = wi(&a[1]); b.emode.emode_config.entries[i].asset_weight_maint = wi(&a[2]); } },
        "irc.optimal_utilization_rate" => b.config.interest_rate_config.optimal_utilization_rate = wi(v),
        "irc.plateau_interest_rate" => b.config.interest_rate_config.plateau_interest_rate = wi(v),
        "irc.max_interest_rate" => b.config.interest_rate_config.max_interest_rate = wi(v),
        "irc.insurance_fee_fixed_apr" => b.config.interest_rate_config.insurance_fee_fixed_apr = wi(v),
        "irc.insurance_ir_fee" => b.config.interest_rate_config.insurance_ir_fee = wi(v),
        "irc.protocol_fixed_fee_apr" => b.config.interest_rate_config.protocol_fixed_fee_apr = wi(v),
        "irc.protocol_ir_fee" => b.config.interest_rate_config.protocol_ir_fee = wi(v),
        "irc.zero_util_rate" => b.config.interest_rate_config.zero_util_rate = i128v(v) as u32,
        "irc.hundred_util_rate" => b.config.interest_rate_config.hundred_util_rate = i128v(v) as u32,
        "irc.curve_type" => b.config.interest_rate_config.curve_type = i128v(v) as u8,
        "irc.points" => { for (i, p) in v.as_array().unwrap().iter().enumerate() { let a = p.as_array().unwrap();
            b.config.interest_rate_config.points[i] = marginfi_type_crate::types::RatePoint::new(i128v(&a[0]) as u32, i128v(&a[1]) as u32); } },
        _ => panic!("unknown bank field {k}"),
    }
}
fn dump_bank(b: &Bank) -> Value {
    json!({
        "asset_share_value": bits(b.asset_share_value), "liability_share_value": bits(b.liability_share_value),
        "total_asset_shares": bits(b.total_asset_shares), "total_liability_shares": bits(b.total_liability_shares),
        "collected_insurance_fees_outstanding": bits(b.collected_insurance_fees_outstanding),
        "collected_group_fees_outstanding": bits(b.collected_group_fees_outstanding),
        "collected_program_fees_outstanding": bits(b.collected_program_fees_outstanding),
        "emissions_remaining": bits(b.emissions_remaining), "emissions_rate": b.emissions_rate.to_string(),
        "flags": b.flags.to_string(), "mint_decimals": b.mint_decimals.to_string(), "last_update": b.last_update.to_string(),
        "lending_position_count": b.lending_position_count.to_string(), "borrowing_position_count": b.borrowing_position_count.to_string(),
        "config.deposit_limit": b.config.deposit_limit.to_string(), "config.borrow_limit": b.config.borrow_limit.to_string(),
        "config.asset_tag": b.config.asset_tag.to_string(),
        "config.operational_state": (b.config.operational_state as u8).to_string(),
        "config.risk_tier": (b.config.risk_tier as u8).to_string(),
        "config.total_asset_value_init_limit": b.config.total_asset_value_init_limit.to_string(),
    })
}
fn set_balance(b: &mut Balance, k: &str, v: &Value) {
    match k {
        "active" => b.active = i128v(v) as u8,
        "bank_pk" => b.bank_pk = pk(v),
        "bank_asset_tag" => b.bank_asset_tag = i128v(v) as u8,
        "asset_shares" => b.asset_shares = wi(v),
        "liability_shares" => b.liability_shares = wi(v),
        "emissions_outstanding" => b.emissions_outstanding = wi(v),
        "last_update" => b.last_update = i128v(v) as u64,
        _ => panic!("unknown balance field {k}"),
    }
}
fn dump_balance(b: &Balance) -> Value {
    json!({"active": b.active.to_string(), "bank_asset_tag": b.bank_asset_tag.to_string(), "asset_shares": bits(b.asset_shares),
           "liability_shares": bits(b.liability_shares), "emissions_outstanding": bits(b.emissions_outstanding), "last_update": b.last_update.to_string()})
}
fn mk_bank(o: Option<&Value>) -> Bank {
    let mut b = Bank::zeroed();
    if let Some(Value::Object(m)) = o { for (k, v) in m { set_bank(&mut b, k, v); } }
    b
}
fn mk_balance(o: Option<&Value>) -> Balance {
    let mut b = Balance::zeroed();
    if let Some(Value::Object(m)) = o { for (k, v) in m { set_balance(&mut b, k, v); } }
    b
}
fn errcode(e: &anchor_lang::error::Error) -> Value {
    match e {
        anchor_lang::error::Error::AnchorError(a) => json!(a.error_code_number),
        anchor_lang::error::Error::ProgramError(_) => json!(-1),
    }
}

fn handle(req: &Value) -> Value {
    let f = req["fn"].as_str().unwrap_or("");
    CLOCK_TS.store(req.get("clock").map(|v| i128v(v) as i64).unwrap_or(0), Ordering::SeqCst);
    match f {
        "wrapper_op" => {
            let mut bank = mk_bank(req.get("bank"));
            let mut balance = mk_balance(req.get("balance"));
            let op = req["op"].as_str().unwrap();
            let amt = req.get("amount").map(fx).unwrap_or(I80F48::ZERO);
            let mut out = Map::new();
            {
                let mut w = BankAccountWrapper { balance: &mut balance, bank: &mut bank };
                let r: std::result::Result<Value, anchor_lang::error::Error> = match op {
                    "deposit" => w.deposit(amt).map(|_| Value::Null),
                    "deposit_no_repay" => w.deposit_no_repay(amt).map(|_| Value::Null),
                    "repay" => w.repay(amt).map(|_| Value::Null),
                    "withdraw" => w.withdraw(amt).map(|_| Value::Null),
                    "borrow" => w.borrow(amt).map(|_| Value::Null),
                    "deposit_ignore_deposit_cap" => w.deposit_ignore_deposit_cap(amt).map(|_| Value::Null),
                    "withdraw_ignore_borrow_cap" => w.withdraw_ignore_borrow_cap(amt).map(|_| Value::Null),
                    "withdraw_all" => w.withdraw_all().map(|x| json!(x.to_string())),
                    "repay_all" => w.repay_all().map(|x| json!(x.to_string())),
                    "close_balance" => w.close_balance().map(|_| Value::Null),
                    "claim_emissions" => w.claim_emissions(i128v(&req["now"]) as u64).map(|_| Value::Null),
                    "settle_emissions" => w.settle_emissions_and_get_transfer_amount().map(|x| json!(x.to_string())),
                    _ => panic!("unknown op {op}"),
                };
                match r {
                    Ok(v) => { out.insert("ok".into(), json!(true)); out.insert("ret".into(), v); }
                    Err(e) => { out.insert("ok".into(), json!(false)); out.insert("err".into(), errcode(&e)); }
                }
            }
            out.insert("bank".into(), dump_bank(&bank));
            out.insert("balance".into(), dump_balance(&balance));
            Value::Object(out)
        }
        "socialize_loss" => {
            let mut bank = mk_bank(req.get("bank"));
            let r = bank.socialize_loss(fx(&req["loss"]));
            match r {
                Ok(k) => json!({"ok": true, "ret": k, "bank": dump_bank(&bank)}),
                Err(e) => json!({"ok": false, "err": errcode(&e), "bank": dump_bank(&bank)}),
            }
        }
        "accrue" => {
            let mut bank = mk_bank(req.get("bank"));
            let group = marginfi_type_crate::types::MarginfiGroup::zeroed();
            let r = bank.accrue_interest(i128v(&req["now"]) as i64, &group, Pubkey::default());
            match r {
                Ok(_) => json!({"ok": true, "bank": dump_bank(&bank)}),
                Err(e) => json!({"ok": false, "err": errcode(&e), "bank": dump_bank(&bank)}),
            }
        }
        "deposit_up_to_limit_seq" => {
            // the deposit handler's order of operations on the bank: capacity, then accrual, then deposit(min(amount, capacity))
            // ("accrue_first": true gives the order required by the property)
            let mut bank = mk_bank(req.get("bank"));
            let mut balance = mk_balance(req.get("balance"));
            let group = marginfi_type_crate::types::MarginfiGroup::zeroed();
            let now = i128v(&req["now"]) as i64;
            let amount = i128v(&req["amount"]) as u64;
            let accrue_first = req.get("accrue_first").and_then(|v| v.as_bool()).unwrap_or(false);
            if accrue_first { if let Err(e) = bank.accrue_interest(now, &group, Pubkey::default()) { return json!({"ok": false, "stage": "accrue", "err": errcode(&e)}); } }
            let cap = match bank.get_remaining_deposit_capacity() { Ok(c) => c, Err(e) => return json!({"ok": false, "stage": "capacity", "err": errcode(&e)}) };
            let dep = amount.min(cap);
            if !accrue_first { if let Err(e) = bank.accrue_interest(now, &group, Pubkey::default()) { return json!({"ok": false, "stage": "accrue", "err": errcode(&e)}); } }
            let r = { let mut w = BankAccountWrapper { balance: &mut balance, bank: &mut bank }; w.deposit(I80F48::from_num(dep)) };
            match r {
                Ok(_) => json!({"ok": true, "capacity": cap.to_string(), "deposited": dep.to_string(), "bank": dump_bank(&bank)}),
                Err(e) => json!({"ok": false, "stage": "deposit", "err": errcode(&e), "capacity": cap.to_string(), "deposited": dep.to_string(), "bank": dump_bank(&bank)}),
            }
        }
        "configure" => {
            use marginfi_type_crate::types::{BankConfigOpt, BankOperationalState};
            let mut bank = mk_bank(req.get("bank"));
            let mut opt = BankConfigOpt::default();
            if let Some(v) = req.get("operational_state") { opt.operational_state = Some(unsafe { std::mem::transmute::<u8, BankOperationalState>(i128v(v) as u8) }); }
            if let Some(v) = req.get("deposit_limit") { opt.deposit_limit = Some(i128v(v) as u64); }
            if let Some(v) = req.get("borrow_limit") { opt.borrow_limit = Some(i128v(v) as u64); }
            if let Some(v) = req.get("freeze_settings") { opt.freeze_settings = Some(i128v(v) != 0); }
            let frozen_path = req.get("unfrozen_fields_only").and_then(|v| v.as_bool()).unwrap_or(false);
            let r = if frozen_path { bank.configure_unfrozen_fields_only(&opt) } else { bank.configure(&opt) };
            match r {
                Ok(_) => json!({"ok": true, "bank": dump_bank(&bank)}),
                Err(e) => json!({"ok": false, "err": errcode(&e), "bank": dump_bank(&bank)}),
            }
        }
        "override_emissions_flag" => {
            let mut bank = mk_bank(req.get("bank"));
            bank.override_emissions_flag(i128v(&req["flag"]) as u64);
            json!({"ok": true, "bank": dump_bank(&bank)})
        }
        "entry" => entry_call(req),
        "panic_step" => {
            use marginfi::state::panic_state::PanicStateImpl;
            use marginfi_type_crate::types::PanicState;
            let mut ps = PanicState::zeroed();
            let st = &req["state"];
            ps.pause_flags = i128v(&st["pause_flags"]) as u8; ps.daily_pause_count = i128v(&st["daily_pause_count"]) as u8;
            ps.consecutive_pause_count = i128v(&st["consecutive_pause_count"]) as u8;
            ps.pause_start_timestamp = i128v(&st["pause_start_timestamp"]) as i64; ps.last_daily_reset_timestamp = i128v(&st["last_daily_reset_timestamp"]) as i64;
            let now = i128v(&req["now"]) as i64;
            let ok = match req["op"].as_str().unwrap() { "pause" => ps.pause(now).is_ok(), "unpause" => { ps.unpause(); true }, _ => { ps.unpause_if_expired(now); true } };
            json!({"ok": ok, "state": {"pause_flags": ps.pause_flags, "daily_pause_count": ps.daily_pause_count, "consecutive_pause_count": ps.consecutive_pause_count,
                   "pause_start_timestamp": ps.pause_start_timestamp, "last_daily_reset_timestamp": ps.last_daily_reset_timestamp}})
        }
        "update_withdrawn_equity" => {
            use marginfi::state::marginfi_group::MarginfiGroupImpl;
            let mut g = marginfi_type_crate::types::MarginfiGroup::zeroed();
            g.deleverage_withdraw_window_cache.daily_limit = i128v(&req["daily_limit"]) as u32;
            g.deleverage_withdraw_window_cache.withdrawn_today = i128v(&req["withdrawn_today"]) as u32;
            g.deleverage_withdraw_window_cache.last_daily_reset_timestamp = i128v(&req["last_reset"]) as i64;
            let r = g.update_withdrawn_equity(fx(&req["value"]), i128v(&req["now"]) as i64);
            let w = &g.deleverage_withdraw_window_cache;
            json!({"ok": r.is_ok(), "daily_limit": w.daily_limit, "withdrawn_today": w.withdrawn_today, "last_reset": w.last_daily_reset_timestamp})
        }
        "pre_fee_amount" => {
            use anchor_spl::token_2022::spl_token_2022::extension::transfer_fee::TransferFee;
            let tf = TransferFee { epoch: 0u64.into(), maximum_fee: (i128v(&req["max_fee"]) as u64).into(), transfer_fee_basis_points: (i128v(&req["bps"]) as u16).into() };
            let r = marginfi::utils::calculate_pre_fee_amount(&tf, i128v(&req["post"]) as u64);
            let fee = r.and_then(|p| tf.calculate_fee(p));
            json!({"pre": r.map(|x| x.to_string()), "spl_fee_of_pre": fee.map(|x| x.to_string())})
        }
        "remaining_deposit_capacity" => {
            let bank = mk_bank(req.get("bank"));
            match bank.get_remaining_deposit_capacity() {
                Ok(k) => json!({"ok": true, "ret": k.to_string()}),
                Err(e) => json!({"ok": false, "err": errcode(&e)}),
            }
        }
        _ => json!({"error": format!("unknown fn {f}")}),
    }
}

// ---------------------------------------------------------------- real program entry (dispatch -> try_accounts -> handler -> exit)
struct Acc { key: Pubkey, owner: Pubkey, lamports: u64, data: Vec<u8>, signer: bool, writable: bool, executable: bool }

fn keyv(v: &Value, pid: &Pubkey) -> Pubkey {
    match v {
        Value::String(s) if s == "program" => *pid,
        Value::String(s) if s == "token" => anchor_spl_token_id(),
        Value::String(s) if s == "system" => solana_program::system_program::ID,
        _ => pk(v),
    }
}
fn anchor_spl_token_id() -> Pubkey { "TokenkegQfeZyiNwAJbNbGKPFXCWuBvf9Ss623VQ5DA".parse().unwrap() }

fn zc_bytes<T: bytemuck::Pod + anchor_lang::Discriminator>(t: &T) -> Vec<u8> {
    let mut d = T::DISCRIMINATOR.to_vec(); d.extend_from_slice(bytemuck::bytes_of(t)); d
}

fn entry_call(req: &Value) -> Value {
    use marginfi_type_crate::types::MarginfiGroup;
    let pid = marginfi::ID;
    let ixname = req["ix"].as_str().unwrap();
    let mut data = solana_program::hash::hash(format!("global:{}", ixname).as_bytes()).to_bytes()[..8].to_vec();
    if let Some(h) = req.get("args_hex").and_then(|v| v.as_str()) {
        for i in (0..h.len()).step_by(2) { data.push(u8::from_str_radix(&h[i..i + 2], 16).unwrap()); }
    }
    let mut accs: Vec<Acc> = Vec::new();
    let specs = req["accounts"].as_array().unwrap();
    // first pass: plain keys (PDAs are resolved in the second pass because they refer to other keys)
    for a in specs {
        let key = if a.get("pda").is_some() { Pubkey::default() } else { keyv(&a["key"], &pid) };
        accs.push(Acc { key, owner: keyv(a.get("owner").unwrap_or(&json!("system")), &pid), lamports: 1_000_000_000, data: vec![],
                        signer: a.get("signer").and_then(|v| v.as_bool()).unwrap_or(false), writable: a.get("writable").and_then(|v| v.as_bool()).unwrap_or(false),
                        executable: a.get("executable").and_then(|v| v.as_bool()).unwrap_or(false) });
    }
    for (i, a) in specs.iter().enumerate() {
        if let Some(p) = a.get("pda") {
            let mut seeds: Vec<Vec<u8>> = Vec::new();
            for sd in p.as_array().unwrap() {
                match sd { Value::String(s) => seeds.push(s.as_bytes().to_vec()), Value::Number(n) => seeds.push(accs[n.as_u64().unwrap() as usize].key.to_bytes().to_vec()), _ => panic!("seed") }
            }
            let refs: Vec<&[u8]> = seeds.iter().map(|x| &x[..]).collect();
            accs[i].key = Pubkey::find_program_address(&refs, &pid).0;
        }
    }
    let keys: Vec<Pubkey> = accs.iter().map(|a| a.key).collect();
    let kref = |v: &Value| -> Pubkey { keys[v.as_u64().unwrap() as usize] };
    for (i, a) in specs.iter().enumerate() {
        let kind = a.get("kind").and_then(|v| v.as_str()).unwrap_or("raw");
        let f = a.get("fields");
        accs[i].data = match kind {
            "bank" => { let mut b = mk_bank(f.and_then(|x| x.get("set")));
                        if let Some(x) = f.and_then(|x| x.get("group")) { b.group = kref(x); }
                        if let Some(x) = f.and_then(|x| x.get("emissions_mint")) { b.emissions_mint = kref(x); }
                        zc_bytes(&b) }
            "group" => { let mut g = MarginfiGroup::zeroed();
                         if let Some(m) = f.and_then(|x| x.as_object()) { for (k, v) in m { let kk = kref(v); match k.as_str() {
                             "admin" => g.admin = kk, "delegate_emissions_admin" => g.delegate_emissions_admin = kk, "delegate_curve_admin" => g.delegate_curve_admin = kk,
                             "delegate_limit_admin" => g.delegate_limit_admin = kk, "emode_admin" => g.emode_admin = kk, "risk_admin" => g.risk_admin = kk, _ => panic!("group field") } } }
                         g.emode_max_init_leverage = marginfi_type_crate::types::basis_to_u32(I80F48::from_num(15));
                         g.emode_max_maint_leverage = marginfi_type_crate::types::basis_to_u32(I80F48::from_num(20));
                         zc_bytes(&g) }
            "mint" => { let mut d = vec![0u8; 82]; d[44] = 6; d[45] = 1; d }
            "token_account" => { let mut d = vec![0u8; 165]; if let Some(x) = f.and_then(|x| x.get("mint")) { d[..32].copy_from_slice(&kref(x).to_bytes()); } d[108] = 1; d }
            _ => vec![],
        };
    }
    let mut lam: Vec<u64> = accs.iter().map(|a| a.lamports).collect();
    let mut datas: Vec<Vec<u8>> = accs.iter().map(|a| a.data.clone()).collect();
    let owners: Vec<Pubkey> = accs.iter().map(|a| a.owner).collect();
    let res;
    {
        let mut infos: Vec<AccountInfo> = Vec::new();
        let mut lit = lam.iter_mut(); let mut dit = datas.iter_mut();
        for (i, a) in accs.iter().enumerate() {
            infos.push(AccountInfo::new(&keys[i], a.signer, a.writable, lit.next().unwrap(), &mut dit.next().unwrap()[..], &owners[i], a.executable, 0));
        }
        res = marginfi::entry(&pid, &infos, &data);
    }
    let mut out = Map::new();
    match res { Ok(_) => { out.insert("ok".into(), json!(true)); }
                Err(e) => { out.insert("ok".into(), json!(false)); out.insert("err".into(), json!(format!("{:?}", e))); } }
    let mut dumps = Vec::new();
    for (i, a) in specs.iter().enumerate() {
        if a.get("kind").and_then(|v| v.as_str()) == Some("bank") {
            let b: &Bank = bytemuck::from_bytes(&datas[i][8..]);
            use marginfi::state::emode::EmodeSettingsImpl;
            let caps = (marginfi_type_crate::types::basis_to_u32(I80F48::from_num(15)), marginfi_type_crate::types::basis_to_u32(I80F48::from_num(20)));
            let ev = std::panic::catch_unwind(|| b.emode.validate_entries_with_liability_weights(&b.config, caps.0, caps.1).is_ok()).unwrap_or(false);
            let n_entries = b.emode.emode_config.entries.iter().filter(|e| e.collateral_bank_emode_tag != 0).count();
            dumps.push(json!({"index": i, "bank": dump_bank(b), "emode_valid_for_this_bank": ev, "emode_entries": n_entries}));
        }
    }
    out.insert("accounts".into(), Value::Array(dumps));
    Value::Object(out)
}

fn main() {
    solana_program::program_stubs::set_syscall_stubs(Box::new(Stubs));
    let mut s = String::new();
    std::io::stdin().read_to_string(&mut s).unwrap();
    let reqs: Value = serde_json::from_str(&s).expect("json");
    let arr = match reqs { Value::Array(a) => a, v => vec![v] };
    let mut out = Vec::new();
    for r in arr.iter() {
        let res = std::panic::catch_unwind(|| handle(r));
        out.push(match res { Ok(v) => v, Err(_) => json!({"panic": true}) });
    }
    println!("{}", serde_json::to_string(&Value::Array(out)).unwrap());
}
