import re, glob, os
def strip_attrs(body):
    """remove #[...] attributes with balanced brackets"""
    out = []; i = 0; n = len(body)
    while i < n:
        if body[i] == '#' and i + 1 < n and body[i + 1] == '[':
            d = 0; j = i + 1
            while j < n:
                if body[j] == '[': d += 1
                elif body[j] == ']':
                    d -= 1
                    if d == 0: break
                j += 1
            i = j + 1; continue
        out.append(body[i]); i += 1
    return ''.join(out)
TYPES = {}
VARIANTS = {}
def load_structs(roots):
    out = {}
    enums = {}
    for root in roots:
        for p in glob.glob(os.path.join(root, '**', '*.rs'), recursive=True):
            src = open(p).read()
            src = re.sub(r'//[^\n]*', '', src)
            src = re.sub(r'/\*.*?\*/', '', src, flags=re.S)
            for m in re.finditer(r'\bstruct\s+(\w+)\s*(<[^>{]*>)?\s*\{', src):
                name = m.group(1); i = m.end(); depth = 1; j = i
                while depth and j < len(src):
                    if src[j] == '{': depth += 1
                    elif src[j] == '}': depth -= 1
                    j += 1
                body = src[i:j-1]
                body = strip_attrs(body)
                fields = []
                d = 0; cur = ''
                for ch in body:
                    if ch in '<([{': d += 1
                    elif ch in '>)]}': d -= 1
                    if ch == ',' and d == 0:
                        fields.append(cur); cur = ''
                    else: cur += ch
                fields.append(cur)
                names = []; tys = []
                for f in fields:
                    fm = re.match(r'\s*(pub(\([^)]*\))?\s+)?(\w+)\s*:\s*(.*?)\s*$', f, flags=re.S)
                    if fm: names.append(fm.group(3)); tys.append(' '.join(fm.group(4).split()))
                if name not in out:
                    out[name] = names; TYPES[name] = tys
            for m in re.finditer(r'\benum\s+(\w+)\s*(<[^>{]*>)?\s*\{', src):
                name = m.group(1); i = m.end(); depth = 1; j = i
                while depth and j < len(src):
                    if src[j] == '{': depth += 1
                    elif src[j] == '}': depth -= 1
                    j += 1
                body = re.sub(r'#\[[^\]]*\]', '', src[i:j-1])
                parts = []; d = 0; cur = ''
                for ch in body:
                    if ch in '<([{': d += 1
                    elif ch in '>)]}': d -= 1
                    if ch == ',' and d == 0: parts.append(cur); cur = ''
                    else: cur += ch
                parts.append(cur)
                vs = []
                for part in parts:
                    vm = re.match(r'\s*(\w+)', part)
                    if vm: vs.append(vm.group(1))
                if vs: VARIANTS.setdefault(name, vs)
            for m in re.finditer(r'\benum\s+(\w+)\s*\{([^{}]*)\}', src):
                body = re.sub(r'#\[[^\]]*\]', '', m.group(2))
                vs = []
                ok = True
                for part in body.split(','):
                    part = part.strip()
                    if not part: continue
                    vm = re.match(r'^(\w+)(\s*=\s*(\w+))?$', part)
                    if not vm: ok = False; break
                    vs.append((vm.group(1), vm.group(3)))
                if ok and vs:
                    idx = 0; mp = {}
                    for n, v in vs:
                        if v is not None:
                            try: idx = int(v, 0)
                            except ValueError: ok = False; break
                        mp[n] = idx; idx += 1
                    if ok: enums.setdefault(m.group(1), mp)
    return out, enums
if __name__ == '__main__':
    s, e = load_structs(['/repo/programs/marginfi/src', '/repo/type-crate/src'])
    print(len(s), len(e)); print(s['Balance']); print(s['Bank'][:8]); print(e.get('BankOperationalState'), e.get('RiskTier'), list(e.get('MarginfiError',{}).items())[:3])
