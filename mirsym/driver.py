"""./check <Cxx> [--tier quick|thorough] : run every obligation of one property against /repo's current tree."""
import sys, os, time, importlib, argparse
sys.setrecursionlimit(40000)
sys.path.insert(0, '/verif')


def main():
    ap = argparse.ArgumentParser()
    ap.add_argument('pid')
    ap.add_argument('--tier', default=os.environ.get('VERIF_TIER', 'quick'))
    ap.add_argument('--only', default=None, help='regex over task names (debugging)')
    ap.add_argument('--jobs', type=int, default=None)
    a = ap.parse_args()
    tier = a.tier if a.tier in ('quick', 'thorough') else 'quick'
    seed = int(os.environ.get('VERIF_SEED', '0') or 0)
    from mirsym import harness as H
    t0 = time.time()
    ev = f'{H.EVID}/{a.pid}.json'
    if os.path.exists(ev) and not a.only:
        os.remove(ev)
    spec = importlib.import_module(f'specs.{a.pid}')
    import threading
    th = None
    if getattr(spec, 'REPLAYERS', None):
        th = threading.Thread(target=H.ensure_replay); th.start()
    msg = H.ensure_mir()
    print(f'[{a.pid}] {msg}')
    if th: th.join()
    os.environ['VERIF_TIER'] = tier
    rep = H.Report(a.pid, tier, seed)
    rep.assumptions = list(getattr(spec, 'ASSUMPTIONS', []))
    rep.trusted = list(getattr(spec, 'TRUSTED', [])) + ['rustc nightly MIR (-Zunpretty=mir) of the current /repo tree', 'mirsym library models of fixed::I80F48 / core integer ops', 'z3 4.x/5.x']
    tasks = spec.tasks(tier)
    if a.only:
        import re
        os.environ['VERIF_ONLY'] = '1'
        tasks = [t for t in tasks if re.search(a.only, t[0])]
    need = getattr(spec, 'WORLD', ('marginfi', 'typecrate'))
    for s in H.run_tasks(tasks, need, a.jobs):
        rep.add(s)
    if hasattr(spec, 'kani') and not a.only:
        from mirsym import kanirun
        for s in kanirun.run(a.pid, spec.kani(tier), tier, rep):
            rep.add(s)
    rc = rep.finish(getattr(spec, 'REPLAYERS', {}))
    sys.exit(rc)


if __name__ == '__main__':
    main()
