"""Check harness around the mirsym engine: world loading, obligations, evidence, findings, exit codes."""
import os, sys, re, json, time, subprocess, traceback, hashlib
import z3
from . import engine as E
from .engine import (Mir, Engine, IntV, BoolV, StructV, EnumV, RefV, Opaque, Cell, STRUCTS, ENUMS, I80, W,
                     I128_MIN, I128_MAX, INT_RANGES, fdiv, tdiv, abs_)

VERIF = '/verif'
CACHE = VERIF + '/.cache'
MIRDIR = os.environ.get('VERIF_MIRDIR', CACHE + '/mir')
EVID = os.environ.get('VERIF_EVIDENCE_DIR', VERIF + '/evidence')     # scratch runs against another tree must not touch the committed evidence
REPO = os.environ.get('VERIF_REPO', '/repo')

STD_OPAQUE = [r'sol_log', r'fmt::', r'^format$', r'MarginfiError', r'anchor_lang::error', r'to_string', r'Arguments',
              r'to_num::<f64>', r'String', r'emit_cpi|emit!|__emit', r'sol_memcpy', r'std::panicking']

U64_MAX = 2**64 - 1


def ensure_mir():
    r = subprocess.run([VERIF + '/tools/mirdump.sh', MIRDIR], capture_output=True, text=True)
    if r.returncode != 0:
        print(r.stdout[-3000:], r.stderr[-3000:])
        raise SystemExit(2)
    return r.stdout.strip().splitlines()[-1] if r.stdout.strip() else ''


class World:
    _inst = None

    def __init__(self, need=('marginfi', 'typecrate')):
        self.mirs = {}
        for n in need:
            self.load(n)

    def load(self, n):
        if n not in self.mirs:
            self.mirs[n] = Mir(f'{MIRDIR}/{n}.mir')
        return self.mirs[n]

    def fn(self, name_re, crate='marginfi', pred=None):
        m = self.load(crate)
        c = [f for n, f in m.fns.items() if re.search(name_re, n) and (pred is None or pred(f))]
        if len(c) != 1:
            raise LookupError(f'function pattern {name_re!r} matches {len(c)} MIR bodies in {crate}: {[f.name for f in c][:6]}')
        return c[0]

    def fns(self, name_re, crate='marginfi'):
        m = self.load(crate)
        return [f for n, f in m.fns.items() if re.search(name_re, n)]

    def engine(self, primary='marginfi', extra=('typecrate', 'drift'), opaque=(), merge=False, max_paths=20000, std_opaque=True):
        mirs = [self.load(primary)] + [self.load(x) for x in extra if x != primary]
        eng = Engine(mirs[0], mirs[1:], opaque_patterns=(STD_OPAQUE if std_opaque else []) + list(opaque), max_paths=max_paths)
        eng.merge = merge
        return eng


def flat_events(evs):
    for e in evs:
        if e[0] in ('merged-branch-events', 'pure-branch-events'):
            yield from flat_events(e[1])
        else:
            yield e


def events_with_cond(evs, cond=None):
    """(event, condition under which it happened) - events of closures executed by the iterator/Option models carry the closure path's condition"""
    for e in evs:
        if e[0] == 'merged-branch-events':
            yield from events_with_cond(e[1], cond)
        elif e[0] == 'pure-branch-events':
            c2 = e[2] if cond is None else z3.And(cond, e[2])
            yield from events_with_cond(e[1], c2)
        else:
            yield e, (cond if cond is not None else z3.BoolVal(True))


def zint(x):
    return z3.IntVal(x) if isinstance(x, int) else x


def disc_is(v, k):
    """z3 condition that enum value v has discriminant k"""
    d = v.disc
    if isinstance(d, int):
        return z3.BoolVal(d == k)
    return d == k


def returned(res):
    for r in res:
        if r['status'].startswith('loop bound exceeded'):
            raise Exception('unwinding assertion failed: ' + r['status'])     # a truncated path must never count as explored
    return [r for r in res if r['status'] == 'return']


def split_result(res):
    """yield (r, cond_ok, cond_err) for returned paths whose value is a Result/Option-like EnumV"""
    for r in returned(res):
        v = r['ret']
        if not isinstance(v, EnumV):
            continue
        yield r, z3.simplify(disc_is(v, 0)), z3.simplify(disc_is(v, 1))


def ok_paths(res, variant=0):
    """(r, cond) for paths that can return with discriminant == variant (Ok=0/Some=1...)"""
    out = []
    for r in returned(res):
        v = r['ret']
        if not isinstance(v, EnumV):
            continue
        c = z3.simplify(disc_is(v, variant))
        if z3.is_false(c):
            continue
        out.append((r, c))
    return out


def model_dict(m):
    d = {}
    for decl in m.decls():
        try:
            v = m[decl]
            if z3.is_int_value(v):
                d[decl.name()] = v.as_long()
            elif z3.is_true(v) or z3.is_false(v):
                d[decl.name()] = bool(z3.is_true(v))
            else:
                d[decl.name()] = str(v)
        except Exception:
            pass
    return d


class Ob:
    """One obligation: a universally quantified statement about one real function, decided path by path."""

    def __init__(self, oid, desc, functions=(), bounds='', role=None):
        self.oid = oid; self.desc = desc; self.functions = list(functions); self.bounds = bounds
        self.role = role or oid
        self.queries = 0; self.unsat = 0; self.sat = 0; self.unknown = 0; self.solver_s = 0.0
        self.witness_sat = 0; self.witness_fail = 0
        self.cex = []; self.notes = []; self.paths = 0; self.samples = []
        self.errors = []

    def _solver(self, eng, r, hyps, timeout):
        s = z3.Solver(); s.set('timeout', timeout)
        if eng is not None:
            for a in eng.ex.assumptions: s.add(a)
        if r is not None:
            for c in r['pc']: s.add(c)
        for h in hyps: s.add(h)
        return s

    def prove(self, eng, r, hyps, goal, label, timeout=90000, role=None, replay=None, extra_assumptions=()):
        """unsat(hyps ∧ pc ∧ ¬goal)?"""
        s = self._solver(eng, r, list(hyps) + list(extra_assumptions), timeout)
        s.add(z3.Not(goal))
        t = time.time(); res = s.check(); dt = time.time() - t
        self.queries += 1; self.solver_s += dt; self.max_query_s = max(getattr(self, 'max_query_s', 0.0), dt)
        if res == z3.unsat:
            self.unsat += 1
            self._second_opinion(s, label)
            if len(self.samples) < 2:
                self.samples.append({'obligation': self.oid, 'goal': label, 'verdict': 'unsat', 'solver_s': round(dt, 3),
                                     'smt2_head': s.to_smt2()[-600:]})
            return 'unsat'
        if res == z3.sat and any(k.startswith('bitop_') for k in model_dict(s.model())):
            res = self._refine_bitops(eng, s)
        if res == z3.unsat:
            self.unsat += 1
            return 'unsat'
        if res == z3.sat and any(k.startswith('bitop_') for k in model_dict(s.model())) and not getattr(self, '_bitops_consistent', False):
            self.unknown += 1
            self.notes.append(f'UNDECIDED {label}: the model depends on an abstracted bit operation')
            return 'unknown'
        if res == z3.sat and any(k.startswith(('ret_I80F48_', 'ret_core_num_')) for k in model_dict(s.model())):
            # an arithmetic library function without a model was treated as opaque: a gap of the encoder, never a finding
            self.unknown += 1
            gaps = sorted({re.sub(r'#.*', '', k) for k in model_dict(s.model()) if k.startswith(('ret_I80F48_', 'ret_core_num_'))})
            self.notes.append(f'UNDECIDED {label}: the model depends on unmodelled library arithmetic {gaps}')
            return 'unknown'
        up = getattr(getattr(eng, 'ex', None), 'unmodelled_preds', None) if eng is not None else None
        if res == z3.sat and up:
            # does THIS query (path condition, hypotheses, negated goal - not the global range facts) mention the arbitrary result of an unmodelled std predicate?
            try:
                rel = set(free_consts(z3.And(list(r['pc'] if r is not None else []) + list(hyps) + [z3.Not(goal)]))) & set(up)
            except Exception:
                rel = set()
            if rel:
                self.unknown += 1
                self.notes.append(f'UNDECIDED {label}: the model depends on the result of a standard-library predicate the encoder has no model for ({sorted({up[n] for n in rel})[:3]}) - a gap of the encoder, never a finding')
                return 'unknown'
        if res == z3.sat:
            self.sat += 1
            self.sat_labels = getattr(self, 'sat_labels', {}); self.sat_labels[label] = self.sat_labels.get(label, 0) + 1
            m = model_dict(s.model())
            self.cex.append({'ob': self.oid, 'label': label, 'role': role or self.role, 'model': m, 'replay': replay})
            return 'sat'
        why = s.reason_unknown()
        v2, how = self._escalate(s, label, timeout)
        self.solver_s += time.time() - t - dt
        if v2 == 'unsat':
            self.unsat += 1
            self.escalated = getattr(self, 'escalated', 0) + 1
            if self.escalated <= 5: self.notes.append(f'first attempt {why} after {dt:.0f}s; decided unsat by {how}: {label}')
            return 'unsat'
        self.unknown += 1
        self.notes.append(f'UNKNOWN {label} ({why}; escalation: {how})')
        return 'unknown'

    def _refine_bitops(self, eng, s, rounds=24):
        """counterexample-guided refinement of abstracted symbolic bit operations: a model that gives `x op y` a value different from the real
        operator on the model's own operands is excluded by the (true) ground lemma `x == vx & y == vy => r == vx op vy`, and the query is re-solved.
        Ends with unsat, with a model whose abstracted results are all exact (a genuine counterexample), or undecided."""
        self._bitops_consistent = False
        ops = getattr(getattr(eng, 'ex', None), 'bitops', []) if eng is not None else []
        if not ops: return z3.sat
        res = z3.sat
        for _ in range(rounds):
            m = s.model(); names = {d.name() for d in m.decls()}
            lem = []
            for op, ae, be, r_ in ops:
                if r_.decl().name() not in names: continue
                try:
                    va = m.eval(ae, model_completion=True).as_long(); vb = m.eval(be, model_completion=True).as_long(); vr = m.eval(r_, model_completion=True).as_long()
                except Exception:
                    return z3.sat
                if va < 0 or vb < 0: return z3.sat
                true = {'BitAnd': va & vb, 'BitOr': va | vb, 'BitXor': va ^ vb}[op]
                if vr != true: lem.append(z3.Implies(z3.And(ae == va, be == vb), r_ == true))
            if not lem:
                self._bitops_consistent = True
                return z3.sat
            for l in lem: s.add(l)
            res = s.check()
            if res != z3.sat: return res
        return z3.sat

    def _escalate(self, s, label, timeout):
        """a timeout / unknown of the first attempt is never a pass and should not be a spurious exit 2 on a loaded machine either:
        (1) retry in-process with other random seeds and 3x the time, (2) hand the SMT-LIB text to z3 4.8.12 and cvc5 1.0 side by side.
        Only an `unsat` is accepted from the ladder; a `sat` of an external solver has no model to replay and stays UNDECIDED."""
        if os.environ.get('VERIF_NO_ESCALATE'): return 'unknown', 'disabled'
        tried = []
        for seed in (7, 1234):
            s2 = z3.Solver(); s2.set('timeout', int(timeout * 3)); s2.set('random_seed', seed)
            try: s2.set('smt.random_seed', seed)
            except Exception: pass
            s2.add(s.assertions())
            t = time.time(); res = s2.check(); tried.append(f'z3 seed {seed}: {res} {time.time() - t:.0f}s')
            if res == z3.unsat: return 'unsat', tried[-1]
            if res == z3.sat: return 'unknown', '; '.join(tried) + ' (sat on retry: undecided)'
        try:
            os.makedirs(os.path.join(CACHE, 'unknown'), exist_ok=True)
            path = os.path.join(CACHE, 'unknown', re.sub(r'[^A-Za-z0-9_.-]', '_', f'{self.oid}-{self.queries}-{os.getpid()}') + '.smt2')
            with open(path, 'w') as fh: fh.write('(set-logic ALL)\n' + s.to_smt2())
            lim = max(300, int(timeout / 1000 * 4))
            procs = {'z3-4.8.12': subprocess.Popen(['/usr/bin/z3', f'-T:{lim}', path], stdout=subprocess.PIPE, stderr=subprocess.DEVNULL, text=True),
                     'cvc5-1.0': subprocess.Popen(['cvc5', '--lang', 'smt2', f'--tlimit={lim * 1000}', path], stdout=subprocess.PIPE, stderr=subprocess.DEVNULL, text=True)}
            t = time.time(); verdicts = {}
            while procs and time.time() - t < lim + 10:
                for k, p in list(procs.items()):
                    if p.poll() is not None:
                        out = p.stdout.read(); verdicts[k] = 'error' if '(error' in out else (out.strip().splitlines() or ['unknown'])[0]; del procs[k]
                        if verdicts[k] == 'unsat':
                            for q in procs.values(): q.kill()
                            os.remove(path)
                            return 'unsat', '; '.join(tried) + f'; {k}: unsat {time.time() - t:.0f}s'
                time.sleep(0.2)
            for q in procs.values(): q.kill()
            tried.append(f'external: {verdicts} (query kept at {path})')
        except Exception as ex:
            tried.append(f'external solvers failed: {ex}')
        return 'unknown', '; '.join(tried)

    def _second_opinion(self, s, label):
        """thorough tier: a sample of the z3 `unsat` verdicts per obligation is re-decided by cvc5 on the emitted SMT-LIB text;
        cvc5 `sat` = the two solvers disagree = the obligation is UNDECIDED (exit 2); cvc5 timeouts/unknowns are only counted"""
        if os.environ.get('VERIF_TIER') != 'thorough': return
        n = getattr(self, 'xcheck', {'asked': 0, 'agree': 0, 'unknown': 0, 'disagree': 0})
        self.xcheck = n
        if n['asked'] >= int(os.environ.get('VERIF_XCHECK_PER_OB', '3')): return
        n['asked'] += 1
        import tempfile
        try:
            with tempfile.NamedTemporaryFile('w', suffix='.smt2', delete=False, dir=CACHE) as fh:
                fh.write('(set-logic ALL)\n' + s.to_smt2()); path = fh.name
            out = subprocess.run(['cvc5', '--lang', 'smt2', '--tlimit=20000', path], capture_output=True, text=True, timeout=40)
            os.remove(path)
            verdict = (out.stdout.strip().splitlines() or ['unknown'])[0]
        except Exception as ex:
            verdict = 'unknown'
        if verdict == 'unsat': n['agree'] += 1
        elif verdict == 'sat':
            n['disagree'] += 1; self.unknown += 1
            self.notes.append(f'UNDECIDED {label}: z3 says unsat, cvc5 says sat on the same SMT-LIB text')
        else: n['unknown'] += 1

    def structural(self, label, role, model=None):
        """a required guard / call is ABSENT on an accepting path of the real code: counterexample at the encoding level (the trace is the artefact)"""
        self.queries += 1; self.sat += 1
        self.cex.append({'ob': self.oid, 'label': label, 'role': role, 'model': model or {}, 'replay': None})

    def shape(self, found, want, label, role, model=None):
        """a required call occurs `found` times on an accepting path where `want` are expected: FEWER is an absent guard / effect (a counterexample,
        exit 1); MORE means the code has a shape this obligation does not understand (the property may still hold): undecided (exit 2), never an alarm"""
        if found < want: self.structural(label, role, model)
        else: self.fail('unexpected shape (more calls than the obligation understands - undecided, not a violation): ' + label)

    def witness(self, eng, r, hyps, label='reach', timeout=90000):
        """vacuity guard: hyps ∧ pc must be satisfiable"""
        s = self._solver(eng, r, hyps, timeout)
        t = time.time(); res = s.check(); self.solver_s += time.time() - t
        self.queries += 1
        if res == z3.sat:
            self.witness_sat += 1
            return True
        if res == z3.unknown:
            # treated as feasible (must still be proved), but does not count as a witness
            return None
        return False

    def no_panic(self, eng, r, hyps, label='no reachable panic / silent wrap inside the stated domain', kinds=('may_panic', 'wrapping_mul', 'wrapping_div'), timeout=30000):
        """every recorded panic / wrap condition of this path is unreachable under hyps"""
        evs = [e for e in flat_events(r['events']) if e[0] in kinds and len(e) > 2]
        for e in evs:
            s = z3.Solver(); s.set('timeout', timeout)
            for a in eng.ex.assumptions: s.add(a)
            for h in hyps: s.add(h)
            s.add(e[2])
            t = time.time(); res = s.check(); self.solver_s += time.time() - t; self.queries += 1
            if res == z3.unsat: self.unsat += 1
            elif res == z3.sat:
                self.sat += 1
                self.cex.append({'ob': self.oid, 'label': f'{label}: {e[0]} {e[1]}', 'role': 'panic:' + e[1][:40], 'model': model_dict(s.model()), 'replay': None})
            else:
                self.unknown += 1; self.notes.append(f'UNKNOWN {label} {e[1]}')
        return len(evs)

    def need_witness(self, label=''):
        if self.witness_sat == 0:
            self.witness_fail += 1
            self.notes.append('VACUOUS: no satisfiable path witness ' + label)

    def fail(self, msg):
        self.errors.append(msg)

    def summary(self):
        for k, v in getattr(self, 'sat_labels', {}).items():
            self.notes.append(f'SAT x{v}: {k}')
        if getattr(self, 'xcheck', None): self.notes.append(f"second solver (cvc5 1.0) on {self.xcheck['asked']} sampled unsat queries: {self.xcheck['agree']} agree, {self.xcheck['unknown']} unknown/timeout, {self.xcheck['disagree']} disagree")
        return {k: getattr(self, k) for k in ('oid', 'desc', 'functions', 'bounds', 'queries', 'unsat', 'sat', 'unknown',
                                              'witness_sat', 'witness_fail', 'paths', 'notes', 'errors')} | {
            'solver_s': round(self.solver_s, 3), 'max_query_s': round(getattr(self, 'max_query_s', 0.0), 3), 'cex': self.cex, 'samples': self.samples}


class Report:
    """Collects obligation summaries for one property run; writes evidence; decides the exit code."""

    def __init__(self, pid, tier, seed):
        self.pid = pid; self.tier = tier; self.seed = seed; self.t0 = time.time()
        self.obs = []; self.extra = {}; self.kani = []; self.assumptions = []; self.trusted = []

    def add(self, summary):
        self.obs.append(summary)

    def finish(self, replayers=None):
        replayers = replayers or {}
        known = []
        try:
            known = json.load(open(VERIF + '/known_findings.json')).get('findings', [])
        except Exception:
            pass
        viol = []; inconclusive = []; known_hit = []
        for o in self.obs:
            if o.get('unknown') or o.get('witness_fail') or o.get('errors'):
                inconclusive.append(f"{o['oid']}: unknown={o.get('unknown')} vacuous={o.get('witness_fail')} errors={[str(e)[:300] for e in o.get('errors', [])]}")
            seen_roles = set()
            for c in o.get('cex', []):
                key = (c['ob'], c['role'])
                if key in seen_roles: continue
                seen_roles.add(key)
                k = [f for f in known if f.get('property') == self.pid and f.get('obligation') == c['ob'] and f.get('role') == c['role'] and f.get('status', 'open') == 'open']
                if k:
                    known_hit.append((c, k[0])); continue
                viol.append(c)
        os.makedirs(EVID + '/replays', exist_ok=True)
        if not os.environ.get('VERIF_ONLY'):
            # a full run of this property owns its replay artefacts: drop the ones of earlier runs (e.g. on a different tree)
            import glob
            for old_ in glob.glob(f'{EVID}/replays/{self.pid}-*.json'): os.remove(old_)
        vlines = []
        for i, c in enumerate(viol):
            path = f"{EVID}/replays/{self.pid}-{re.sub(r'[^A-Za-z0-9_.-]+', '_', c['ob'] + '-' + c['role'])[:80]}.json"
            rep = {'property': self.pid, 'obligation': c['ob'], 'role': c['role'], 'goal': c['label'], 'model': c['model']}
            rp = c.get('replay')
            fn = None; spec = None
            if isinstance(rp, dict):
                fn = replayers.get(rp.get('kind')); spec = rp
            elif rp:
                fn = replayers.get(rp)
            status = 'encoding-level'
            if fn is not None:
                try:
                    ok, detail = fn(c['model'], spec) if spec is not None else fn(c['model'])
                    rep['native_replay'] = detail
                    status = 'reproduced' if ok else 'not-reproduced'
                except Exception as e:
                    rep['native_replay'] = 'replay error: ' + repr(e); status = 'replay-error'
            rep['replay_status'] = status
            json.dump(rep, open(path, 'w'), indent=1, default=str)
            if status in ('reproduced', 'encoding-level'):
                vlines.append(f'VIOLATION property={self.pid} replay={path}')
            else:
                inconclusive.append(f"{c['ob']}: counterexample did not reproduce natively ({status}) -> {path}")
        nob = len(self.obs)
        q = sum(o['queries'] for o in self.obs)
        disch = sum(1 for o in self.obs if not o.get('cex') and not o.get('unknown') and not o.get('witness_fail') and not o.get('errors'))
        disch_known = sum(1 for o in self.obs if o.get('cex') and all(any(kc is c for kc, _ in known_hit) for c in o['cex']) and not o.get('unknown') and not o.get('errors'))
        samples = []
        for o in self.obs:
            samples.extend(o.get('samples', [])[:1])
        samples = samples[:12] or [{'note': 'no sample recorded'}]
        ev = {
            'property_id': self.pid, 'tier': self.tier, 'seed': self.seed, 'level': 'model_checking',
            'coverage': {
                'evaluations': q,
                'distinct_nontrivial': sum(o['unsat'] + o['sat'] for o in self.obs),
                'rule': 'one evaluation = one SMT query (path condition ∧ hypotheses ∧ ¬goal, or a reachability witness) over the MIR-derived encoding of a real function, or one Kani/CBMC harness; distinct_nontrivial counts the ¬goal queries decided sat/unsat (witness queries and unknowns excluded)',
                'obligations': nob, 'discharged': disch, 'discharged_with_known_findings': disch_known,
                'queries': q, 'solver_s': round(sum(o['solver_s'] for o in self.obs), 2),
                'paths_explored': sum(o.get('paths', 0) for o in self.obs),
                'functions_encoded': sorted({f for o in self.obs for f in o.get('functions', [])}),
                'bounds': sorted({o['bounds'] for o in self.obs if o.get('bounds')}),
                'obligation_table': [{k: o[k] for k in ('oid', 'desc', 'queries', 'unsat', 'sat', 'unknown', 'witness_sat', 'paths', 'solver_s', 'max_query_s', 'notes')} for o in self.obs],
                'kani': self.kani,
                'samples': samples,
                'exhaustive': False,
                'trusted_base': self.trusted,
            } | self.extra,
            'assumptions': self.assumptions,
            'wall_s': round(time.time() - self.t0, 2),
            'violations': len(vlines),
        }
        json.dump(ev, open(f'{EVID}/{self.pid}.json', 'w'), indent=1, default=str)
        for c, k in known_hit:
            print(f"KNOWN-FINDING: property={self.pid} {k.get('what', c['role'])}")
        for l in vlines:
            print(l)
        print(f"[{self.pid}] tier={self.tier} obligations={nob} discharged={disch} (+{disch_known} with known findings) queries={q} "
              f"solver={ev['coverage']['solver_s']}s wall={ev['wall_s']}s")
        for o in self.obs:
            flag = 'ok' if not (o.get('cex') or o.get('unknown') or o.get('witness_fail') or o.get('errors')) else ('CEX' if o.get('cex') else 'INCONCLUSIVE')
            print(f"   {o['oid']:10s} {flag:12s} q={o['queries']:4d} unsat={o['unsat']:4d} sat={o['sat']:3d} unk={o['unknown']:2d} wit={o['witness_sat']:3d} paths={o.get('paths', 0):5d} {o['solver_s']:7.2f}s  {o['desc'][:90]}")
            for n in o.get('notes', [])[:6]: print('        note:', n)
            for n in o.get('errors', [])[:6]: print('        ERROR:', str(n)[:1200])
        if vlines:
            return 1
        if inconclusive:
            for l in inconclusive: print('INCONCLUSIVE:', l)
            return 2
        return 0


def run_tasks(tasks, world_need=('marginfi', 'typecrate'), jobs=None):
    """tasks: list of (name, callable(world) -> [Ob summaries]). Run in forked workers sharing the parsed MIR."""
    import multiprocessing as mp
    world = World(world_need)
    jobs = jobs or min(len(tasks), int(os.environ.get('VERIF_JOBS', '12')))
    out = []
    if jobs <= 1 or len(tasks) == 1:
        for name, fn in tasks:
            out.extend(_run_one(world, name, fn))
        return out
    ctx = mp.get_context('fork')
    global _WORLD, _TASKS
    _WORLD = world; _TASKS = tasks
    # one fresh forked process per task: a task must never see module-level state (list bounds, memo tables, engine flags) left behind by whichever task happened to run
    # before it in the same worker - which task that is depends on scheduling, i.e. on machine load (this made one translation validation flaky under heavy load)
    with ctx.Pool(jobs, maxtasksperchild=1) as pool:
        for res in pool.imap_unordered(_worker, range(len(tasks))):
            out.extend(res)
    return out


_WORLD = None; _TASKS = None


def _worker(i):
    name, fn = _TASKS[i]
    return _run_one(_WORLD, name, fn)


def _run_one(world, name, fn):
    sys.setrecursionlimit(40000)
    t = time.time()
    try:
        obs = fn(world)
        res = [o.summary() if isinstance(o, Ob) else o for o in obs]
    except Exception as e:
        o = Ob(name, 'task crashed'); o.fail('exception: ' + repr(e) + ' ' + traceback.format_exc()[-1500:])
        res = [o.summary()]
    for r in res:
        r['task'] = name; r['task_wall_s'] = round(time.time() - t, 2)
    return res


# ---------------------------------------------------------------- struct field access by *name*
from .structs import TYPES as STRUCT_TYPES


def _base(ty):
    return re.sub(r'<.*', '', ty).split('::')[-1].strip()


def fpath(sname, dotted):
    """('Bank','config.deposit_limit') -> (path tuple for Engine.get_path, leaf type, leaf struct name)"""
    path = []
    ty = sname
    for part in dotted.split('.'):
        sn = _base(ty)
        m = re.match(r'^\[(\d+)\]$', part)
        if m:
            path.append(('i', int(m.group(1))))
            em = re.match(r'^\[(.*); .*\]$', ty)
            ty = em.group(1) if em else '?'
            continue
        i = STRUCTS[sn].index(part)
        ty = STRUCT_TYPES[sn][i]
        path.append(('f', i, ty))
    return tuple(path), ty


def fget(eng, v, sname, dotted):
    """current value of a (possibly nested) field of struct value v; lazily creates the initial symbol"""
    v = eng.deref_val(v)
    p, _ = fpath(sname, dotted)
    return eng.get_path(v, p)


def fsym(rootname, sname, dotted):
    """name-based *initial* symbol of a scalar field (matches the lazily created symbol names of the engine)"""
    p, ty = fpath(sname, dotted)
    n = rootname
    for st in p:
        n = f'{n}.{st[1]}' if st[0] == 'f' else f'{n}[{st[1]}]'
    b = _base(ty)
    if b in ENUMS and b not in ('Option', 'Result'):
        n += '.tag'
    return z3.Int(n)


def fopt(rootname, sname, dotted):
    """(disc symbol, some-payload symbol) of an Option<scalar> field"""
    p, ty = fpath(sname, dotted)
    n = rootname
    for st in p:
        n = f'{n}.{st[1]}' if st[0] == 'f' else f'{n}[{st[1]}]'
    return z3.Int(n + '.disc'), n + '.some'


def ev(v):
    """z3 expression of a scalar engine value (IntV/BoolV/C-like EnumV)"""
    if isinstance(v, (IntV, BoolV)):
        return v.e
    if isinstance(v, EnumV):
        return zint(v.disc)
    raise TypeError(f'not scalar: {v}')


def calls(r, pat):
    """opaque call events of a path whose callee matches pat"""
    rx = re.compile(pat)
    return [e for e in flat_events(r['events']) if e[0] == 'call' and rx.search(e[1])]


def call_index(r, pat):
    rx = re.compile(pat)
    return [i for i, e in enumerate(r['events']) if e[0] == 'call' and rx.search(e[1])]


# ---------------------------------------------------------------- concrete evaluation of encodings, native replay
def free_consts(e, acc=None):
    acc = {} if acc is None else acc
    seen = set(); stack = [e]
    while stack:
        x = stack.pop()
        if x.get_id() in seen: continue
        seen.add(x.get_id())
        if z3.is_const(x) and x.decl().kind() == z3.Z3_OP_UNINTERPRETED:
            acc[x.decl().name()] = x
        else:
            stack.extend(x.children())
    return acc


def subst_eval(e, env):
    """evaluate z3 expr under env {name: int|bool}; returns python int/bool or None when not concrete"""
    fc = free_consts(e)
    subs = []
    for n, c in fc.items():
        if n not in env: return None
        v = env[n]
        subs.append((c, z3.BoolVal(v) if z3.is_bool(c) else z3.IntVal(int(v))))
    r = z3.simplify(z3.substitute(e, *subs))
    if z3.is_int_value(r): return r.as_long()
    if z3.is_true(r): return True
    if z3.is_false(r): return False
    return None


REPLAY_BIN = os.environ.get('VERIF_REPLAY_TARGET', CACHE + '/replay-target') + '/debug/replay'


def native(reqs):
    """run the native replay binary on a list of requests"""
    p = subprocess.run([REPLAY_BIN], input=json.dumps(reqs), capture_output=True, text=True, timeout=600)
    if p.returncode != 0:
        raise RuntimeError('replay binary failed: ' + p.stderr[-800:])
    return json.loads(p.stdout.strip().splitlines()[-1])   # msg!/Error::log lines precede the JSON answer


def ensure_replay():
    r = subprocess.run([VERIF + '/tools/build_replay.sh'], capture_output=True, text=True)
    if r.returncode != 0:
        print(r.stdout[-3000:], r.stderr[-2000:]); raise SystemExit(2)


def renamed(task, frm, to):
    """the same obligations under another property's id (a property's own check must see a defect in code it relies on, even if a neighbouring property decides that code)"""
    def t(world):
        obs = task(world)
        for o in obs:
            if o.oid.startswith(frm): o.oid = to + o.oid[len(frm):]
            for c in o.cex:
                if c.get('ob', '').startswith(frm): c['ob'] = to + c['ob'][len(frm):]
        return obs
    return t
