#!/usr/bin/env python3
"""mirsym: symbolic executor for rustc MIR text (-Zunpretty=mir) -> z3 (integer encoding).
Loop-free functions + bounded iterator models, path enumeration with optional state merging, opaque unknown calls."""
import re, sys, itertools
import z3
import os
from .structs import load_structs, VARIANTS as ENUM_VARIANTS
REPO = os.environ.get('VERIF_REPO', '/repo')
STRUCTS, ENUMS = load_structs([REPO + '/programs/marginfi/src', REPO + '/type-crate/src', REPO + '/programs/kamino-mocks/src', REPO + '/programs/drift-mocks/src', REPO + '/programs/solend-mocks/src'] + sorted(__import__('glob').glob('/verif/.cache/vendor/pyth-solana-receiver-sdk-*/src')) + sorted(__import__('glob').glob('/verif/.cache/vendor/pythnet-sdk-*/src')))

I80 = 'I80F48'
TYPE_SHORT = [
    (re.compile(r'(fixed::)?FixedI128(::)?<typenum::uint::UInt<typenum::uint::UInt<typenum::uint::UInt<typenum::uint::UInt<typenum::uint::UInt<typenum::uint::UInt<typenum::uint::UTerm, typenum::bit::B1>, typenum::bit::B1>, typenum::bit::B0>, typenum::bit::B0>, typenum::bit::B0>, typenum::bit::B0>>'), I80),
    (re.compile(r'fixed::I80F48'), I80),
]
def short(s):
    for r, t in TYPE_SHORT:
        s = r.sub(t, s)
    return s

W = 1 << 48
LIST_K = 3
I128_MIN, I128_MAX = -(1 << 127), (1 << 127) - 1
INT_RANGES = {'u8': (0, 255), 'u16': (0, 65535), 'u32': (0, 2**32 - 1), 'u64': (0, 2**64 - 1), 'u128': (0, 2**128 - 1),
              'usize': (0, 2**64 - 1), 'i8': (-128, 127), 'i16': (-2**15, 2**15 - 1), 'i32': (-2**31, 2**31 - 1),
              'i64': (-2**63, 2**63 - 1), 'i128': (I128_MIN, I128_MAX), 'isize': (-2**63, 2**63 - 1)}
FIXED_TYS = {I80, 'marginfi_type_crate::types::WrappedI80F48', 'WrappedI80F48'}

# ---------------------------------------------------------------- MIR parsing
class Fn:
    def __init__(self, header):
        self.header = header
        self.locals = {}
        self.blocks = {}
        self.params = []
        self.ret = None

class Mir:
    def __init__(self, path):
        self.fns = {}      # header name -> Fn
        self.consts = {}   # const name -> Fn (body computing _0)
        self.by_last = {}
        self.closures = {}
        self.closures_multi = {}
        self.allocs = {}
        self._alloc = None
        self.load(path)

    def load(self, path):
        cur = None; blk = None
        for raw in open(path):
            line = short(raw.rstrip('\n'))
            if cur is None and getattr(self, '_alloc', None) is not None:
                am = re.match(r'^\s+0x[0-9a-f]+ │ ((?:[0-9a-f_]{2} ?)+)', line)
                if am:
                    self.allocs[self._alloc][1].extend(am.group(1).split()); continue
                if line.strip() == '}': self._alloc = None; continue
            if cur is None:
                am = re.match(r'^(alloc\d+) \(static: ([\w:]+), size: (\d+), align: \d+\) \{$', line)
                if am:
                    self._alloc = am.group(1); self.allocs[self._alloc] = (am.group(2), [], int(am.group(3))); continue
            if cur is None:
                m = re.match(r'^(fn) (.+?)(\(((?:_\d+: .*)?)\) -> (.*)) \{$', line)
                if not m:
                    m2 = re.match(r'^(const|static) (.+): (.*?) = \{$', line)
                    if m2:
                        class _M:
                            def __init__(s, a): s.a = a
                            def group(s, i): return s.a[i]
                        m = _M({1: m2.group(1), 2: m2.group(2), 6: m2.group(3)})
                if m:
                    kind = m.group(1); name = m.group(2)
                    cur = Fn(line)
                    cur.name = name
                    if kind == 'fn':
                        cur.ret = m.group(5)
                        cur.params = self.parse_params(m.group(4))
                        if name in self.fns:
                            continue      # const fn: second copy is the 'MIR FOR CTFE' body; keep the runtime one (body still parsed into cur, unused)
                        self.fns[name] = cur
                        last = name.split('::')[-1]
                        if last.startswith('{closure'):
                            last = '::'.join(name.split('::')[-2:])
                        self.by_last.setdefault(last, []).append(cur)
                        if cur.params:
                            cm = re.search(r'\{closure@[^}]*\}', cur.params[0][1])
                            if cm and '{closure#' in name:
                                self.closures[cm.group(0)] = cur
                                self.closures_multi.setdefault(cm.group(0), []).append(cur)
                    else:
                        cur.ret = m.group(6)
                        self.consts[name] = cur
                else:
                    m = re.match(r'^const ((?:<[^>]*>|::|[^<:])+?): (.*) = const (.*);$', line)
                    if m:
                        f = Fn(line); f.name = m.group(1); f.ret = m.group(2); f.simple = m.group(3)
                        self.consts[f.name] = f
                continue
            if line == '}':
                cur = None; blk = None; continue
            m = re.match(r'^\s*let (mut )?(_\d+): (.*);$', line)
            if m:
                cur.locals[m.group(2)] = m.group(3); continue
            m = re.match(r'^\s*(bb\d+)( \(cleanup\))?: \{$', line)
            if m:
                blk = []; cur.blocks[m.group(1)] = blk; continue
            if blk is not None:
                s = line.strip()
                if s == '}':
                    blk = None
                elif s:
                    blk.append(s)

    @staticmethod
    def parse_params(s):
        out = []
        for part in split_top(s, ','):
            part = part.strip()
            if not part: continue
            m = re.match(r'^(_\d+): (.*)$', part)
            out.append((m.group(1), m.group(2)))
        return out

_IMPL_CACHE = {}
def impl_info(loc):
    """'<impl at file:line:col: line:col>' -> (trait or None, self type base name), read from the source line"""
    if loc in _IMPL_CACHE: return _IMPL_CACHE[loc]
    res = (None, None)
    m = re.match(r'^(.*?):(\d+):(\d+)', loc)
    if m:
        path = m.group(1)
        for root in (REPO, REPO + '/programs/marginfi', ''):
            fp = os.path.join(root, path) if root else path
            if os.path.exists(fp):
                try:
                    lines = open(fp).read().split('\n')
                    txt = ' '.join(lines[int(m.group(2)) - 1:int(m.group(2)) + 6])
                    txt = txt[int(m.group(3)) - 1:]
                    mm = re.match(r"impl\s*(<[^{]*?>)?\s*(?:([\w:]+)(?:<[^{]*?>)?\s+for\s+)?(&?[\w:]+)", txt)
                    if mm:
                        res = (mm.group(2).split('::')[-1] if mm.group(2) else None, mm.group(3).split('::')[-1])
                except Exception:
                    pass
                break
    _IMPL_CACHE[loc] = res
    return res

def fn_impl(f):
    m = re.search(r'<impl at ([^>]*)>', f.name)
    return impl_info(m.group(1)) if m else (None, None)

def split_top(s, sep):
    out = []; depth = 0; cur = ''
    i = 0
    while i < len(s):
        c = s[i]
        if c in '([{<':
            depth += 1
        elif c in ')]}':
            depth -= 1
        elif c == '>' and i > 0 and s[i-1] != '-':
            depth -= 1
        if c == sep and depth == 0:
            out.append(cur); cur = ''
        else:
            cur += c
        i += 1
    out.append(cur)
    return out

# ---------------------------------------------------------------- values
class IntV:
    def __init__(self, e, ty): self.e = e; self.ty = ty
    def __repr__(self): return f'IntV({self.e}:{self.ty})'
class BoolV:
    def __init__(self, e): self.e = e
    def __repr__(self): return f'BoolV({self.e})'
class StructV:
    def __init__(self, ty, name, fields=None, lazy=True):
        self.ty = ty; self.name = name; self.fields = fields if fields is not None else {}; self.lazy = lazy
    def __repr__(self): return f'StructV({self.ty},{self.fields})'
class EnumV:
    """disc: z3 Int expr or python int; payload: dict variant_idx -> dict field->val"""
    def __init__(self, ty, disc, payload): self.ty = ty; self.disc = disc; self.payload = payload
    def __repr__(self): return f'EnumV({self.ty},{self.disc},{self.payload})'
class RefV:
    def __init__(self, cell, path=()): self.cell = cell; self.path = tuple(path)
    def __repr__(self): return f'RefV({id(self.cell)%1000},{self.path})'
class Opaque:
    def __init__(self, ty, name): self.ty = ty; self.name = name
    def __repr__(self): return f'Opaque({self.name})'
class Cell:
    def __init__(self, val=None, name=None): self.val = val; self.name = name

CLIKE = {'BalanceSide': ['Assets', 'Liabilities'], 'RiskTier': ['Collateral', 'Isolated'],
         'BankOperationalState': ['Paused', 'Operational', 'ReduceOnly', 'KilledByBankruptcy'],
         'BalanceIncreaseType': ['Any', 'RepayOnly', 'DepositOnly', 'BypassDepositLimit'],
         'BalanceDecreaseType': ['WithdrawOnly', 'BorrowOnly', 'BypassBorrowLimit'],
         'RequirementType': ['Initial', 'Maintenance', 'Equity']}
VARIANT_IDX = {'None': 0, 'Some': 1, 'Ok': 0, 'Err': 1, 'Continue': 0, 'Break': 1}

def variant_index(enum_ty, vname):
    if vname in VARIANT_IDX: return VARIANT_IDX[vname]
    base = re.sub(r'<.*', '', str(enum_ty)).split('::')[-1]
    if base in ENUM_VARIANTS and vname in ENUM_VARIANTS[base]: return ENUM_VARIANTS[base].index(vname)
    cands = [vs.index(vname) for en, vs in ENUM_VARIANTS.items() if vname in vs]
    if len(set(cands)) == 1: return cands[0]
    raise Exception(f'unknown variant {vname} of {enum_ty}')

class PathEnd(Exception):
    pass

class Ex:
    """One symbolic execution context (single path; forks copy state)."""
    counter = itertools.count()

    def __init__(self, mir, consts_mir=None, opaque=()):
        self.mir = mir
        self.cm = consts_mir or mir
        self.opaque = list(opaque)
        self.results = []
        self.assumptions = []   # global range facts for fresh symbols
        self.solver = z3.Solver()
        self.solver.set('timeout', 20000)
        self.depth = 0

    def fresh_name(self, base):
        return f'{base}#{next(self.counter)}'

    # ---- fresh symbolic values by type
    def fresh(self, ty, name):
        ty = ty.strip()
        if ty in INT_RANGES:
            v = z3.Int(name); lo, hi = INT_RANGES[ty]
            self.assumptions.append(z3.And(v >= lo, v <= hi))
            return IntV(v, ty)
        if ty == 'bool':
            return BoolV(z3.Bool(name))
        if ty in FIXED_TYS or ty.endswith('WrappedI80F48'):
            v = z3.Int(name)
            self.assumptions.append(z3.And(v >= I128_MIN, v <= I128_MAX))
            return IntV(v, I80)
        if (ty in ('anchor_lang::prelude::Pubkey', 'Pubkey') or ty.endswith('::Pubkey')) and not ty.startswith('&'):
            return IntV(z3.Int(name), 'Pubkey')
        if ty == '[u8]':
            return IntV(z3.Int(name + '.bytes'), 'bytes')
        m = re.match(r'^\[(.*)\]$', ty)
        if m and ';' not in ty.rsplit(']', 1)[0].split('[')[-1]:
            ln = z3.Int(name + '.len'); self.assumptions.append(z3.And(ln >= 0, ln <= LIST_K))
            return StructV(ty, name, {'__len': IntV(ln, 'usize'), '__elemty': m.group(1)}, lazy=True)
        if ty.startswith('&'):
            inner = re.sub(r"^&('\w+ )?(mut )?", '', ty)
            return RefV(Cell(self.fresh(inner, name + '*')))
        if ty == '()':
            return StructV('()', name, {}, lazy=False)
        sn = re.sub(r'<.*', '', ty).split('::')[-1]
        if sn in ENUM_VARIANTS and sn not in ENUMS and sn not in ('Option', 'Result'):
            d = z3.Int(name + '.tag'); self.assumptions.append(z3.And(d >= 0, d < len(ENUM_VARIANTS[sn])))
            return EnumV(sn, d, {})
        if sn in ENUMS and sn not in ('Option', 'Result'):
            d = z3.Int(name + '.tag'); vals = sorted(ENUMS[sn].values())
            self.assumptions.append(z3.Or([d == v for v in vals]))
            return EnumV(sn, d, {})
        m = re.match(r"^(?:std::cell::)?(?:Ref|RefMut)<'_, (.*)>$", ty)
        if m:
            return StructV(ty, name, {'__target': RefV(Cell(self.fresh(m.group(1), name + '->')))}, lazy=False)
        m = re.match(r'^(std::option::)?Option<(.*)>$', ty)
        if m:
            d = z3.Int(name + '.disc'); self.assumptions.append(z3.And(d >= 0, d <= 1))
            return EnumV(ty, d, {1: {0: self.fresh(m.group(2), name + '.some')}})
        m = re.match(r'^(std::result::)?Result<(.*)>$', ty)
        if m:
            parts = split_top(m.group(2), ',')
            d = z3.Int(name + '.disc'); self.assumptions.append(z3.And(d >= 0, d <= 1))
            return EnumV(ty, d, {0: {0: self.fresh(parts[0], name + '.ok')}, 1: {0: Opaque(parts[1].strip(), name + '.err')}})
        return StructV(ty, name)

    def zero(self, ty, name):
        """the all-zero-bytes value of a plain-data type (bytemuck::Zeroable::zeroed): scalars 0, records lazily zero"""
        ty = ty.strip()
        if ty in INT_RANGES: return IntV(z3.IntVal(0), ty)
        if ty == 'bool': return BoolV(z3.BoolVal(False))
        if ty in FIXED_TYS or ty.endswith('WrappedI80F48'): return IntV(z3.IntVal(0), I80)
        if (ty in ('anchor_lang::prelude::Pubkey', 'Pubkey') or ty.endswith('::Pubkey')) and not ty.startswith('&'): return IntV(z3.IntVal(0), 'Pubkey')
        sn = re.sub(r'<.*', '', ty).split('::')[-1]
        if sn in ENUMS and sn not in ('Option', 'Result'): return EnumV(sn, 0, {})
        return StructV(ty, name, {'__zero': True}, lazy=True)

    # ---- state
    def new_frame(self, fn):
        return {'fn': fn, 'locals': {}}

# ---------------------------------------------------------------- the executor proper (path-forking, explicit stack)
class State:
    def __init__(self):
        self.pc = []         # list of z3 bools
        self.frames = []     # list of dict(fn, locals{name:Cell}, bb, idx, ret_place, ret_bb)
        self.events = []
    def clone(self):
        import copy
        memo = {}
        s = State()
        s.pc = list(self.pc)
        s.events = list(self.events)
        s.frames = copy.deepcopy(self.frames, memo)
        s.roots = copy.deepcopy(getattr(self, 'roots', []), memo)
        s.tickets = list(getattr(self, 'tickets', []))
        return s

def z3_deepcopy_patch():
    # z3 exprs are immutable handles: share them on deepcopy
    import copy
    for cls in (z3.ExprRef, z3.ArithRef, z3.BoolRef, z3.IntNumRef):
        cls.__deepcopy__ = lambda self, memo: self
    Fn.__deepcopy__ = lambda self, memo: self
z3_deepcopy_patch()

VEC_MODEL_TYPES = {'RatePoint', 'EmodeEntry'}
_FOREIGN = {}
def foreign_const(path):
    """integer literal const of a dependency crate, read from its vendored source (e.g. switchboard_on_demand::PRECISION)"""
    if path in _FOREIGN: return _FOREIGN[path]
    val = None
    segs = path.split('::')
    if len(segs) >= 2 and re.fullmatch(r'[a-z_0-9]+', segs[0]) and re.fullmatch(r'[A-Z_0-9]+', segs[-1]):
        import glob
        hits = set()
        for d in glob.glob('/verif/.cache/vendor/%s-[0-9]*' % segs[0].replace('_', '-')):
            for fp in glob.glob(d + '/src/**/*.rs', recursive=True):
                for m in re.finditer(r'pub const %s: (u8|u16|u32|u64|usize|i8|i16|i32|i64|isize|u128|i128) = (-?[0-9_]+);' % segs[-1], open(fp, errors='replace').read()):
                    hits.add((m.group(1), int(m.group(2).replace('_', ''))))
        if len(hits) == 1:
            ty, n = hits.pop(); val = IntV(z3.IntVal(n), ty)
    _FOREIGN[path] = val
    return val



class Engine:
    def __init__(self, mir, extra_mirs=(), opaque_patterns=(), max_paths=5000):
        self.mir = mir
        self.mirs = [mir] + list(extra_mirs)
        self.opaque_patterns = [re.compile(p) for p in opaque_patterns]
        self.ex = Ex(mir)
        self.max_paths = max_paths
        self.solver = z3.Solver(); self.solver.set('timeout', int(os.environ.get('MIRSYM_FEAS_TIMEOUT_MS', '500')))
        self.results = []
        self.const_cache = {}
        self.stats = {'forks': 0, 'opaque_calls': {}, 'inlined': {}, 'merges': 0, 'merge_fail': 0}
        self.merge = False
        self.ticket_ids = itertools.count()

    # ---------- helpers
    def feasible(self, pc):
        n = getattr(self, '_n_assumed', 0)
        if n < len(self.ex.assumptions):          # range facts only ever grow: assert them once, at the base level
            for a in self.ex.assumptions[n:]: self.solver.add(a)
            self._n_assumed = len(self.ex.assumptions)
        self.solver.push()
        for c in pc: self.solver.add(c)
        r = self.solver.check()
        self.solver.pop()
        return r != z3.unsat

    def find_fn(self, callee):
        """resolve a call-site callee string to a Fn with MIR body, or None"""
        c = callee
        # strip generic args of the method itself
        m = re.match(r'^<(.+) as (.+)>::(\w+)(::<.*>)?$', c)
        cands = []
        if m:
            ty, trait, meth = m.group(1), m.group(2), m.group(3)
            for mir in self.mirs:
                for f in mir.by_last.get(meth, []):
                    cands.append(f)
            # disambiguate by self type of first param / trait module
            trait_mod = '::'.join(re.sub(r'<.*', '', trait).split('::')[:-1])
            best = [f for f in cands if trait_mod and f.name.startswith(trait_mod + '::<impl')]
            if len(best) == 1: return best[0]
            tyname = re.sub(r'<.*', '', ty).split('::')[-1]
            best2 = [f for f in (best or cands) if f.params and tyname in f.params[0][1]]
            if len(best2) == 1: return best2[0]
            trname = re.sub(r'<.*', '', trait).split('::')[-1]
            best3 = [f for f in cands if fn_impl(f) == (trname, tyname.lstrip('&'))]
            if len(best3) == 1: return best3[0]
            return None
        m = re.match(r'^(.*?)(::<.*>)?$', c)
        path = m.group(1)
        path = re.sub(r"::<[^>]*>", '', path)
        meth = path.split('::')[-1]
        for mir in self.mirs:
            for f in mir.by_last.get(meth, []):
                cands.append(f)
        segs = path.split('::')
        if len(segs) >= 2:
            owner = segs[-2]
            best = [f for f in cands if f.name.endswith(path) or (owner[:1].isupper() and ((f.params and owner in f.params[0][1]) or owner in f.ret))]
            if len(best) == 1: return best[0]
            byimpl = [f for f in cands if fn_impl(f)[1] == owner and '{closure' not in f.name.split('::')[-1]]
            if len(byimpl) == 1: return byimpl[0]
            inherent = [f for f in byimpl if fn_impl(f)[0] is None]
            if len(inherent) == 1: return inherent[0]
            return None
        if len(cands) == 1: return cands[0]
        return None

    # ---------- places
    def parse_place(self, s):
        s = s.strip()
        if s.startswith('('):
            # find matching paren
            depth = 0
            for i, c in enumerate(s):
                if c == '(': depth += 1
                elif c == ')':
                    depth -= 1
                    if depth == 0: break
            inner = s[1:i]; rest = s[i+1:]
            base = self.parse_inner(inner)
        else:
            m = re.match(r'^(_\d+)(.*)$', s)
            base = ('local', m.group(1)); rest = m.group(2)
        while rest:
            m = re.match(r'^\[(_\d+)\](.*)$', rest)
            if m: base = ('index', base, ('local', m.group(1))); rest = m.group(2); continue
            m = re.match(r'^\[(\d+) of \d+\](.*)$', rest)
            if m: base = ('cindex', base, int(m.group(1))); rest = m.group(2); continue
            raise Exception('place rest? ' + s)
        return base

    def parse_inner(self, inner):
        inner = inner.strip()
        if inner.startswith('*'):
            return ('deref', self.parse_place(inner[1:]))
        # downcast: "<place> as Variant"
        m = re.match(r'^(.*) as (\w+)$', inner)
        if m and ':' not in m.group(2):
            try:
                return ('downcast', self.parse_place(m.group(1)), m.group(2))
            except Exception:
                pass
        # field: "<place>.N: type"
        # parse base place prefix
        if inner.startswith('('):
            depth = 0
            for i, c in enumerate(inner):
                if c == '(': depth += 1
                elif c == ')':
                    depth -= 1
                    if depth == 0: break
            basestr = inner[:i+1]; rest = inner[i+1:]
        else:
            m = re.match(r'^(_\d+)(.*)$', inner)
            basestr = m.group(1); rest = m.group(2)
        base = self.parse_place(basestr)
        while True:
            mi = re.match(r'^\[(_\d+)\](.*)$', rest)
            if mi: base = ('index', base, ('local', mi.group(1))); rest = mi.group(2); continue
            mi = re.match(r'^\[(\d+) of \d+\](.*)$', rest)
            if mi: base = ('cindex', base, int(mi.group(1))); rest = mi.group(2); continue
            break
        m = re.match(r'^\.(\d+): (.*)$', rest)
        if not m:
            raise Exception('inner? ' + inner)
        return ('field', base, int(m.group(1)), m.group(2))

    def cell_of_local(self, st, name):
        fr = st.frames[-1]
        if name not in fr['locals']:
            fr['locals'][name] = Cell(None)
        return fr['locals'][name]

    def resolve(self, st, place):
        """returns (cell, path) where path is tuple of ('f',i,ty)/('v',variant)/('i',idx)"""
        k = place[0]
        if k == 'local':
            return self.cell_of_local(st, place[1]), ()
        if k == 'deref':
            v = self.read(st, place[1])
            if isinstance(v, RefV):
                return v.cell, v.path
            if isinstance(v, StructV):
                m = re.match(r'^(?:std::ptr::NonNull|std::ptr::Unique|Box|std::boxed::Box)<(.*)>$', v.ty)
                if m:
                    if '__pointee' not in v.fields:
                        v.fields['__pointee'] = Cell(self.ex.fresh(m.group(1), v.name + '.*'))
                    return v.fields['__pointee'], ()
            raise Exception(f'deref of non-ref {v} in {place}')
        if k == 'field':
            c, p = self.resolve(st, place[1]); return c, p + (('f', place[2], place[3]),)
        if k == 'downcast':
            c, p = self.resolve(st, place[1]); return c, p + (('v', place[2]),)
        if k == 'cindex':
            c, p = self.resolve(st, place[1]); return c, p + (('i', place[2]),)
        if k == 'index':
            idx = self.read(st, place[2])
            c, p = self.resolve(st, place[1])
            e = z3.simplify(idx.e)
            if z3.is_int_value(e):
                return c, p + (('i', e.as_long()),)
            return c, p + (('si', idx.e),)
        raise Exception(place)

    def get_path(self, v, path, name='?'):
        for step in path:
            if step[0] == 'f':
                if isinstance(v, IntV) and v.ty == 'Pubkey' and step[1] == 0:
                    continue
                if isinstance(v, EnumV):
                    raise Exception('field of enum without downcast')
                if isinstance(v, StructV):
                    if step[1] not in v.fields:
                        if not v.lazy: raise Exception(f'missing field {step} in {v}')
                        v.fields[step[1]] = (self.ex.zero if '__zero' in v.fields else self.ex.fresh)(step[2], f'{v.name}.{step[1]}')
                    v = v.fields[step[1]]
                elif isinstance(v, dict):
                    v = v[step[1]]
                else:
                    raise Exception(f'field {step} of {v}')
            elif step[0] == 'v' and isinstance(v, StructV) and v.lazy:
                # enum of a dependency crate whose definition is not scanned: symbolic tag, lazily created variant payloads
                k = '__v_' + str(step[1])
                if k not in v.fields: v.fields[k] = StructV(f'{v.ty}::{step[1]}', f'{v.name}.{step[1]}', {}, lazy=True)
                v = v.fields[k]
            elif step[0] == 'v':
                idx = variant_index(getattr(v, 'ty', ''), step[1])
                v = v.payload.setdefault(idx, {})
            elif step[0] == 'i':
                if isinstance(v, StructV):
                    if step[1] not in v.fields:
                        elty = re.match(r'^\[(.*); .*\]$', v.ty)
                        v.fields[step[1]] = (self.ex.zero if '__zero' in v.fields else self.ex.fresh)(elty.group(1) if elty else '?', f'{v.name}[{step[1]}]')
                    v = v.fields[step[1]]
                else:
                    raise Exception(f'index of {v}')
            elif step[0] == 'si':
                # symbolic index into concrete array value: build ite chain
                assert isinstance(v, StructV) and not v.lazy, 'symbolic index into lazy array unsupported'
                items = sorted(v.fields.items())
                e = items[-1][1].e
                for i, it in reversed(items[:-1]):
                    e = z3.If(step[1] == i, it.e, e)
                v = IntV(e, items[0][1].ty)
        return v

    def set_path(self, cell, path, val):
        if not path:
            cell.val = val; return
        parent = self.get_path(cell.val, path[:-1])
        step = path[-1]
        if step[0] == 'f':
            if isinstance(parent, StructV): parent.fields[step[1]] = val
            else: parent[step[1]] = val
        elif step[0] == 'i':
            parent.fields[step[1]] = val
        else:
            raise Exception('set variant?')

    def read(self, st, place):
        c, p = self.resolve(st, place)
        if c.val is None:
            raise Exception(f'read of uninit {place}')
        return self.get_path(c.val, p)

    # ---------- operands / rvalues
    def const_val(self, st, s, tyhint=None):
        s = s.strip()
        m = re.match(r'^(-?\d+)_(\w+)$', s)
        if m: return IntV(z3.IntVal(int(m.group(1))), m.group(2))
        if s == 'true': return BoolV(z3.BoolVal(True))
        if s == 'false': return BoolV(z3.BoolVal(False))
        m = re.match(r'^core::num::<impl (\w+)>::(MAX|MIN)$', s) or re.match(r'^([iu](?:8|16|32|64|128|size))::(MAX|MIN)$', s)
        if m and m.group(1) in INT_RANGES: return IntV(z3.IntVal(INT_RANGES[m.group(1)][1 if m.group(2) == 'MAX' else 0]), m.group(1))
        if s.startswith('ZeroSized') or s == '()': return StructV('zst', 'zst', {}, lazy=False)
        am = re.match(r'^\{(alloc\d+)(?:<imm>)?: &(.*)\}$', s)
        if am:
            key = 'alloc:' + am.group(1)
            if key not in self.const_cache:
                val = None
                for mir in self.mirs:
                    al = mir.allocs.get(am.group(1)) if st is None or True else None
                    if al and al[2] == 32 and am.group(2).endswith('Pubkey') and len(al[1]) == 32 and all(re.fullmatch(r'[0-9a-f]{2}', b) for b in al[1]):
                        bs_ = bytes(int(b, 16) for b in al[1])
                        val = IntV(z3.IntVal(0 if not any(bs_) else int.from_bytes(bs_, 'little') + (1 << 40)), 'Pubkey'); break
                self.const_cache[key] = RefV(Cell(val if val is not None else self.ex.fresh(am.group(2), am.group(1))))
            return self.const_cache[key]
        if s == 'I80F48::ZERO' or s.endswith('I80F48::ZERO'): return IntV(z3.IntVal(0), I80)
        if s == 'I80F48::ONE' or s.endswith('I80F48::ONE'): return IntV(z3.IntVal(W), I80)
        # promoted const of the current function
        pm = re.search(r'promoted\[(\d+)\]$', s)
        if pm and st is not None:
            key = st.frames[-1]['fn'].name + '::promoted[' + pm.group(1) + ']'
            for mir in self.mirs:
                if key in mir.consts:
                    return self.eval_const(mir.consts[key])
        # C-like enum variant used as a constant operand
        if '::' in s:
            en, var = s.rsplit('::', 1); en = en.split('::')[-1]
            if en in ENUMS and var in ENUMS[en]:
                return EnumV(en, ENUMS[en][var], {})
            if en in ENUM_VARIANTS and var in ENUM_VARIANTS[en] and en not in ('Option', 'Result'):
                return EnumV(en, ENUM_VARIANTS[en].index(var), {})
        # named const item
        name = s
        for mir in self.mirs:
            for cand in (name, name.split('::', 1)[-1], '::'.join(name.split('::')[-2:]), name.split('::')[-1]):
                if cand in mir.consts:
                    return self.eval_const(mir.consts[cand])
        # associated const: path::Type::NAME  defined as  module::<impl at loc>::NAME
        segs = name.split('::')
        if len(segs) >= 2:
            last, owner = segs[-1], segs[-2]
            for mir in self.mirs:
                if not hasattr(mir, 'assoc_consts'):
                    mir.assoc_consts = {}
                    for cn, cf in mir.consts.items():
                        im = re.search(r'<impl at ([^>]*)>::(\w+)$', cn)
                        if im: mir.assoc_consts.setdefault((impl_info(im.group(1))[1], im.group(2)), cf)
                cf = mir.assoc_consts.get((owner, last))
                if cf is not None: return self.eval_const(cf)
        fc = foreign_const(name)
        if fc is not None: return fc
        return Opaque(tyhint or '?', 'const ' + s)

    def eval_const(self, f):
        if f.name in self.const_cache: return self.const_cache[f.name]
        if hasattr(f, 'simple'):
            v = self.const_val(None, f.simple)
        else:
            sub = Engine(self.mir, self.mirs[1:], max_paths=4)
            sub.const_cache = self.const_cache
            res = sub.run_fn(f, [])
            assert len(res) == 1, f'const {f.name} has {len(res)} paths'
            v = res[0]['ret']
            if isinstance(v, RefV): v = v  # promoted: reference to value
        self.const_cache[f.name] = v
        return v

    def fresh_name_(self, base):
        return self.ex.fresh_name(base)

    def operand(self, st, s):
        s = s.strip()
        if s.startswith('copy '): return self.read(st, self.parse_place(s[5:]))
        if s.startswith('move '): return self.read(st, self.parse_place(s[5:]))
        if s.startswith('no_retag copy '): return self.read(st, self.parse_place(s[14:]))
        if s.startswith('const '): return self.const_val(st, s[6:])
        if re.match(r'^<?[A-Za-z_][\w:<>&\' ,\[\]\(\)]*$', s) and '::' in s:
            return Opaque('fn', 'fn item ' + s)     # a function item passed by value (e.g. .map(ToAccountInfo::to_account_info))
        raise Exception('operand? ' + s)

    def wrap_int(self, e, ty):
        return e  # overflow handled by explicit checks where MIR asks

    def binop(self, op, a, b):
        if isinstance(a, BoolV) or isinstance(b, BoolV):
            ae, be = a.e, b.e
            if op == 'Eq': return BoolV(ae == be)
            if op == 'Ne': return BoolV(ae != be)
            if op == 'BitAnd': return BoolV(z3.And(ae, be))
            if op == 'BitOr': return BoolV(z3.Or(ae, be))
            if op == 'BitXor': return BoolV(z3.Xor(ae, be))
        ae, be = a.e, b.e
        cmpm = {'Eq': lambda: ae == be, 'Ne': lambda: ae != be, 'Lt': lambda: ae < be, 'Le': lambda: ae <= be,
                'Gt': lambda: ae > be, 'Ge': lambda: ae >= be}
        if op in cmpm: return BoolV(cmpm[op]())
        ty = a.ty
        if op in ('Add', 'Sub', 'Mul'):
            e = {'Add': ae + be, 'Sub': ae - be, 'Mul': ae * be}[op]
            return IntV(e, ty)  # NOTE: wrapping not modelled in prototype (overflow-checks=on gives asserts)
        if op == 'Div':
            # rust truncating division
            return IntV(z3.If(z3.Or(z3.And(ae >= 0, be > 0), z3.And(ae <= 0, be < 0)), abs_(ae) / abs_(be), -(abs_(ae) / abs_(be))), ty)
        if op in ('AddWithOverflow', 'SubWithOverflow', 'MulWithOverflow'):
            e = {'Add': ae + be, 'Sub': ae - be, 'Mul': ae * be}[op[:3]]
            lo, hi = INT_RANGES[ty]
            return StructV('tuple', 't', {0: IntV(e, ty), 1: BoolV(z3.Or(e < lo, e > hi))}, lazy=False)
        if op in ('BitAnd', 'BitOr', 'Shl', 'Shr', 'BitXor', 'Rem'):
            ea, eb = z3.simplify(ae), z3.simplify(be)
            if z3.is_int_value(ea) and z3.is_int_value(eb):
                x, y = ea.as_long(), eb.as_long()
                r = {'BitAnd': x & y, 'BitOr': x | y, 'Shl': x << y, 'Shr': x >> y, 'BitXor': x ^ y, 'Rem': x % y if y else 0}[op]
                return IntV(z3.IntVal(r), ty)
            if op in ('BitAnd', 'BitOr', 'BitXor') and z3.is_int_value(ea) and not z3.is_int_value(eb):
                ae, be, ea, eb = be, ae, eb, ea
            if op == 'BitAnd' and z3.is_int_value(eb):
                y = eb.as_long()
                # single-bit or low-mask special cases
                if y & (y + 1) == 0: return IntV(ae % (y + 1), ty)
                if y & (y - 1) == 0: return IntV(((ae / y) % 2) * y, ty)
            if op == 'Shr' and z3.is_int_value(eb): return IntV(ae / (1 << eb.as_long()), ty)
            if op == 'Shl' and z3.is_int_value(eb) and ty in INT_RANGES:
                lo, hi = INT_RANGES[ty]; n = hi - lo + 1
                return IntV(((ae * (1 << eb.as_long())) - lo) % n + lo, ty)
            if op == 'BitOr' and z3.is_int_value(eb) and eb.as_long() & (eb.as_long() - 1) == 0 and eb.as_long() > 0:
                y = eb.as_long()     # set a single bit
                return IntV(ae + (1 - (ae / y) % 2) * y, ty)
            if op == 'BitAnd' and z3.is_int_value(eb) and ty in INT_RANGES and INT_RANGES[ty][0] == 0:
                y = eb.as_long(); full = INT_RANGES[ty][1]
                inv = full ^ y
                if inv & (inv - 1) == 0 and inv > 0:   # clear a single bit: x & !bit
                    return IntV(ae - ((ae / inv) % 2) * inv, ty)
                # general constant mask: sum over the runs of one-bits  [lo, hi):  ((x >> lo) mod 2^(hi-lo)) << lo
                runs = []; i_ = 0; nbits = full.bit_length()
                while i_ < nbits:
                    if (y >> i_) & 1:
                        j_ = i_
                        while j_ < nbits and (y >> j_) & 1: j_ += 1
                        runs.append((i_, j_)); i_ = j_
                    else: i_ += 1
                if len(runs) <= 8:
                    e = z3.IntVal(0)
                    for lo_, hi_ in runs:
                        part = (ae / (1 << lo_)) if hi_ >= nbits else ((ae / (1 << lo_)) % (1 << (hi_ - lo_)))
                        e = e + part * (1 << lo_)
                    return IntV(e, ty)
            if op == 'Rem' : return IntV(ae % be, ty)
            if op in ('BitXor', 'BitOr') and z3.is_int_value(eb) and ty in INT_RANGES and INT_RANGES[ty][0] == 0 and eb.as_long() >= 0:
                # constant mask: x ^ m = x + m - 2*(x & m);  x | m = x + m - (x & m), with x & m arithmetised by the BitAnd case above
                if True:
                    y = eb.as_long(); nbits = INT_RANGES[ty][1].bit_length(); e_ = z3.IntVal(0); i_ = 0; nr = 0
                    while i_ < nbits:
                        if (y >> i_) & 1:
                            j_ = i_
                            while j_ < nbits and (y >> j_) & 1: j_ += 1
                            part = (ae / (1 << i_)) if j_ >= nbits else ((ae / (1 << i_)) % (1 << (j_ - i_)))
                            e_ = e_ + part * (1 << i_); i_ = j_; nr += 1
                        else: i_ += 1
                    if nr <= 8:
                        return IntV(ae + y - (2 if op == 'BitXor' else 1) * e_, ty)
            if op in ('BitAnd', 'BitOr', 'BitXor') and ty in INT_RANGES and INT_RANGES[ty][0] < 0:
                # signed words: the same true lemmas, but only for non-negative operands (two's-complement patterns of negative values are not arithmetised)
                lo, hi = INT_RANGES[ty]; nb = (hi + 1).bit_length() - 1
                r_ = z3.Int(self.ex.fresh_name('bitop_' + op))
                L = []
                ks = list(range(1, 17)) + [x for x in (24, 32, 40, 48, 56, 60, 64, 80, 96, 112) if x < nb]
                if op == 'BitOr':
                    L += [r_ >= ae, r_ >= be, r_ <= ae + be]
                    for k in ks:
                        m_ = 1 << k
                        L.append(z3.Implies(z3.And(ae % m_ == 0, be < m_), r_ == ae + be)); L.append(z3.Implies(z3.And(be % m_ == 0, ae < m_), r_ == ae + be))
                elif op == 'BitAnd':
                    L += [r_ >= 0, r_ <= ae, r_ <= be]
                    for k in ks:
                        m_ = 1 << k
                        L.append(z3.Implies(z3.And(ae % m_ == 0, be < m_), r_ == 0)); L.append(z3.Implies(z3.And(be % m_ == 0, ae < m_), r_ == 0))
                else:
                    L += [r_ >= 0, r_ <= ae + be, z3.Implies(ae == be, r_ == 0)]
                self.ex.assumptions.append(z3.And(r_ >= lo, r_ <= hi, z3.Implies(z3.And(ae >= 0, be >= 0), z3.And(L))))
                if not hasattr(self.ex, 'bitops'): self.ex.bitops = []
                self.ex.bitops.append((op, ae, be, r_))
                return IntV(r_, ty)
            if op in ('BitAnd', 'BitOr', 'BitXor') and ty in INT_RANGES and INT_RANGES[ty][0] == 0:
                # symbolic (x) symbolic on unsigned words: a fresh result constrained by *true* lemmas about the operator
                # (bounds + the disjoint-bits cases).  Sound over-approximation; a model that needs more is reported UNDECIDED.
                lo, hi = INT_RANGES[ty]; nb = (hi + 1).bit_length() - 1
                r_ = z3.Int(self.ex.fresh_name('bitop_' + op))
                L = [r_ >= 0, r_ <= hi]
                if op == 'BitOr':
                    L += [r_ >= ae, r_ >= be, r_ <= ae + be]
                    for k in (list(range(1, min(nb, 17))) + [x for x in (24, 32, 40, 48, 56, 60, 64, 80, 96, 112) if x < nb]):
                        m_ = 1 << k
                        L.append(z3.Implies(z3.And(ae % m_ == 0, be < m_), r_ == ae + be))
                        L.append(z3.Implies(z3.And(be % m_ == 0, ae < m_), r_ == ae + be))
                elif op == 'BitAnd':
                    L += [r_ <= ae, r_ <= be]
                    for k in (list(range(1, min(nb, 17))) + [x for x in (24, 32, 40, 48, 56, 60, 64, 80, 96, 112) if x < nb]):
                        m_ = 1 << k
                        L.append(z3.Implies(z3.And(ae % m_ == 0, be < m_), r_ == 0))
                        L.append(z3.Implies(z3.And(be % m_ == 0, ae < m_), r_ == 0))
                        L.append(z3.Implies(be == m_ - 1, r_ == ae % m_))
                        L.append(z3.Implies(ae == m_ - 1, r_ == be % m_))
                    L.append(z3.Implies(ae == be, r_ == ae))
                else:
                    L += [r_ <= ae + be]
                    L.append(z3.Implies(ae == be, r_ == 0))
                self.ex.assumptions.append(z3.And(L))
                if not hasattr(self.ex, 'bitops'): self.ex.bitops = []
                self.ex.bitops.append((op, ae, be, r_))      # lets the harness refine a model that gives the abstracted result a wrong value
                return IntV(r_, ty)
            return IntV(z3.Int(self.ex.fresh_name('bitop_' + op)), ty)
        raise Exception('binop ' + op)

    def rvalue(self, st, rhs, dest_ty=None):
        rhs = rhs.strip()
        # reference
        m = re.match(r'^&(mut |raw const \(fake\) |raw mut \(fake\) |raw const |raw mut |fake shallow |fake )?(.*)$', rhs)
        if m and not rhs.startswith('&&'):
            c, p = self.resolve(st, self.parse_place(m.group(2)))
            if c.val is None and not p:
                pass
            return RefV(c, p)
        if rhs.startswith(('copy ', 'move ', 'const ', 'no_retag ')):
            m = re.match(r'^((?:copy|move|const) .*?) as (.*) \((\w+)(?:\(.*\))?\)$', rhs)
            if m and m.group(3) in ('IntToInt',):
                v = self.operand(st, m.group(1)); ty = m.group(2)
                lo, hi = INT_RANGES[ty]; n = hi - lo + 1
                if not isinstance(v, IntV):
                    return self.ex.fresh(ty, self.ex.fresh_name('cast_of_opaque'))      # integer cast of a value the encoder does not track: any value of the target type
                src = INT_RANGES.get(v.ty)
                if src and src[0] >= lo and src[1] <= hi:
                    return IntV(v.e, ty)
                e = (v.e - lo) % n + lo
                return IntV(e, ty)
            if m:
                v = self.operand(st, m.group(1))
                return v  # other casts: pass through (Transmute/PtrToPtr/Unsize)
            return self.operand(st, rhs)
        m = re.match(r'^discriminant\((.*)\)$', rhs)
        if m:
            v = self.read(st, self.parse_place(m.group(1)))
            if isinstance(v, EnumV):
                return IntV(v.disc if not isinstance(v.disc, int) else z3.IntVal(v.disc), 'isize')
            if isinstance(v, IntV): return IntV(v.e, 'isize')   # C-like enum as int
            if isinstance(v, StructV) and v.lazy:
                if '__tag' not in v.fields:
                    t = z3.Int(v.name + '.tag'); self.ex.assumptions.append(z3.And(t >= 0, t < 256)); v.fields['__tag'] = IntV(t, 'isize')
                return v.fields['__tag']
            raise Exception(f'discriminant of {v}')
        m = re.match(r'^(\w+)\((.*)\)$', rhs)
        if m and m.group(1) in ('Add', 'Sub', 'Mul', 'Div', 'Rem', 'Eq', 'Ne', 'Lt', 'Le', 'Gt', 'Ge', 'BitAnd', 'BitOr', 'BitXor', 'Shl', 'Shr',
                                'AddWithOverflow', 'SubWithOverflow', 'MulWithOverflow', 'Not', 'Neg', 'Len', 'PtrMetadata', 'ShlUnchecked', 'ShrUnchecked', 'AddUnchecked', 'SubUnchecked'):
            args = [self.operand(st, a) if not a.strip().startswith('_') else self.read(st, self.parse_place(a)) for a in split_top(m.group(2), ',')]
            op = m.group(1).replace('Unchecked', '')
            if op in ('PtrMetadata', 'Len'):
                lv = self.deref_val(args[0])
                if isinstance(lv, StructV):
                    am = re.match(r'^\[(.*); (\d+)\]$', lv.ty.strip())
                    if am: return IntV(z3.IntVal(int(am.group(2))), 'usize')
                    if '__len' not in lv.fields:
                        ln = z3.Int(lv.name + '.len'); self.ex.assumptions.append(z3.And(ln >= 0, ln <= 2**32))
                        lv.fields['__len'] = IntV(ln, 'usize')
                    return lv.fields['__len']
                return IntV(z3.Int(self.ex.fresh_name('len')), 'usize')
            if op == 'Not':
                a = args[0]
                if isinstance(a, BoolV): return BoolV(z3.Not(a.e))
                if a.ty in INT_RANGES:
                    lo, hi = INT_RANGES[a.ty]
                    return IntV((hi - a.e) if lo == 0 else (-a.e - 1), a.ty)      # bitwise complement: unsigned MAX - x, signed -x-1
                return IntV(z3.Int(self.ex.fresh_name('bitop_Not')), a.ty)
            if op == 'Neg': return IntV(-args[0].e, args[0].ty)
            return self.binop(op, args[0], args[1])
        # enum variant aggregate e.g. std::result::Result::<..>::Ok(x)  /  Option::<T>::None  / errors::MarginfiError::NoAssetFound
        m = re.match(r'^(.*)::(Ok|Err|Some|Continue|Break)\((.*)\)$', rhs)
        if m:
            vals = [self.operand(st, a) for a in split_top(m.group(3), ',')]
            idx = VARIANT_IDX[m.group(2)]
            return EnumV(m.group(1), idx, {idx: dict(enumerate(vals))})
        m = re.match(r'^(.*)::None$', rhs)
        if m: return EnumV(m.group(1), 0, {})
        # tuple / array
        if rhs.startswith('(') and rhs.endswith(')'):
            vals = [self.operand(st, a) for a in split_top(rhs[1:-1], ',') if a.strip()]
            return StructV('tuple', 't', dict(enumerate(vals)), lazy=False)
        if rhs.startswith('[') and rhs.endswith(']'):
            rm = re.match(r'^\[(.*); (\d+)\]$', rhs)
            if rm and len(split_top(rhs[1:-1], ',')) == 1:
                v0 = self.operand(st, rm.group(1)); n_ = int(rm.group(2))
                if n_ <= 256:
                    return StructV(f'[?; {n_}]', self.fresh_name_('arr'), {i: v0 for i in range(n_)}, lazy=False)
            vals = [self.operand(st, a) for a in split_top(rhs[1:-1], ',') if a.strip()]
            return StructV('array', 'a', dict(enumerate(vals)), lazy=False)
        # struct aggregate  Name { f: v, ... } -- field order unknown -> opaque struct w/ names
        m = re.match(r'^(\{closure@[^}]*\}|[\w:<>\', ]+) \{(.*)\}$', rhs)
        if m:
            sv = StructV(m.group(1).strip(), self.ex.fresh_name('agg'), {}, lazy=False)
            sname = re.sub(r'<.*', '', m.group(1).strip()).split('::')[-1]
            order = STRUCTS.get(sname)
            for i, part in enumerate(split_top(m.group(2), ',')):
                if ':' in part:
                    k, v = part.split(':', 1)
                    k = k.strip(); val = self.operand(st, v)
                    sv.fields[k] = val
                    if order and k in order: sv.fields[order.index(k)] = val
                    elif not order: sv.fields[i] = val      # closures / foreign structs: MIR prints fields in declaration (index) order
            return sv
        # unit-like enum variant path  (C-like enum constant)
        if re.match(r'^[\w:<>]+$', rhs):
            if '::' not in rhs:
                dn = re.sub(r'<.*', '', dest_ty or '').split('::')[-1]
                if dn in ENUMS and rhs in ENUMS[dn]:
                    return EnumV(dn, ENUMS[dn][rhs], {})
                return Opaque(dest_ty or '?', rhs)
            en, var = rhs.rsplit('::', 1)
            en = en.split('::')[-1]
            if en in ENUMS and var in ENUMS[en]:
                return EnumV(en, ENUMS[en][var], {})
            if en in ENUM_VARIANTS and var in ENUM_VARIANTS[en] and en not in ('Option', 'Result'):
                return EnumV(en, ENUM_VARIANTS[en].index(var), {})
            return Opaque(dest_ty or '?', rhs)
        m = re.match(r'^([\w:<>\', &]+)\((.*)\)$', rhs)
        if m:
            vals = [self.operand(st, a) for a in split_top(m.group(2), ',') if a.strip()]
            if m.group(1).split('::')[-1] == 'Pubkey' and len(vals) == 1 and isinstance(vals[0], StructV):
                items = [vals[0].fields.get(i) for i in range(32)]
                if all(isinstance(x, IntV) and z3.is_int_value(z3.simplify(x.e)) for x in items):
                    bs = bytes(z3.simplify(x.e).as_long() for x in items)
                    return IntV(z3.IntVal(0 if not any(bs) else int.from_bytes(bs, 'little') + (1 << 40)), 'Pubkey')
            segs = re.sub(r'::<[^()]*>$', '', m.group(1)).split('::')
            if len(segs) >= 2:
                en = re.sub(r'<.*', '', segs[-2]); vn = segs[-1]
                if en in ENUM_VARIANTS and vn in ENUM_VARIANTS[en]:
                    idx = ENUM_VARIANTS[en].index(vn)
                    return EnumV(en, idx, {idx: dict(enumerate(vals))})
            return StructV(m.group(1), self.ex.fresh_name('variant'), dict(enumerate(vals)), lazy=False)
        raise Exception('rvalue? ' + rhs)

    # ---------- calls: library models
    def model_call(self, st, callee, args):
        """returns value or None if no model. May raise PathEnd for panics."""
        c = callee
        def iv(e): return IntV(e, I80)
        def opt(cond_none, val, ty='Option<I80F48>'):
            d = z3.simplify(z3.If(cond_none, 0, 1))
            return EnumV(ty, d.as_long() if z3.is_int_value(d) else d, {1: {0: val}})
        if re.search(r'as Into<.*I80F48>>::into$|as From<.*I80F48>>::from$', c) and isinstance(args[0], IntV) and args[0].ty == I80:
            return args[0]
        m = re.match(r'^<(\w+) as Into<I80F48>>::into$|^<I80F48 as From<(\w+)>>::from$', c)
        if m and (m.group(1) or m.group(2)) in INT_RANGES and isinstance(args[0], IntV):
            return IntV(args[0].e * W, I80)
        m = re.match(r'^core::num::<impl (\w+)>::(\w+)$', c)
        if m and m.group(1) in INT_RANGES and args and isinstance(args[0], IntV) and all(isinstance(x, IntV) for x in args[1:2]):
            ty = m.group(1); lo, hi = INT_RANGES[ty]; f = m.group(2)
            a = args[0].e; b = args[1].e if len(args) > 1 else None
            if f in ('checked_sub', 'checked_add', 'checked_mul'):
                r = {'checked_sub': a - b, 'checked_add': a + b, 'checked_mul': a * b}[f]
                return opt(z3.Or(r < lo, r > hi), IntV(r, ty), f'Option<{ty}>')
            if f in ('saturating_sub', 'saturating_add'):
                r = a - b if f == 'saturating_sub' else a + b
                return IntV(z3.If(r < lo, lo, z3.If(r > hi, hi, r)), ty)
            if f == 'min': return IntV(z3.If(a <= b, a, b), ty)
            if f == 'max': return IntV(z3.If(a >= b, a, b), ty)
        m = re.match(r'^I80F48::(\w+)(::<(.*)>)?$', c)
        if m:
            f = m.group(1); g = m.group(3)
            a = args[0].e if args and isinstance(args[0], (IntV,)) else None
            b = args[1].e if len(args) > 1 and isinstance(args[1], IntV) else None
            if f == 'checked_mul':
                r = fdiv(a * b, W); return opt(z3.Or(r < I128_MIN, r > I128_MAX), iv(r))
            if f == 'checked_div':
                q = tdiv(a * W, b); return opt(z3.Or(b == 0, q < I128_MIN, q > I128_MAX), iv(q))
            if f == 'checked_add':
                r = a + b; return opt(z3.Or(r < I128_MIN, r > I128_MAX), iv(r))
            if f == 'checked_sub':
                r = a - b; return opt(z3.Or(r < I128_MIN, r > I128_MAX), iv(r))
            if f == 'checked_floor':
                return opt(z3.BoolVal(False), iv(fdiv(a, W) * W))
            if f == 'checked_ceil':
                r = -fdiv(-a, W) * W; return opt(r > I128_MAX, iv(r))
            if f == 'from_bits': return iv(a)
            if f == 'to_bits': return IntV(a, 'i128')
            if f == 'from_num' and g in INT_RANGES:
                r = a * W
                if INT_RANGES[g][1] * W > I128_MAX:
                    st.events.append(('may_panic', 'from_num overflow')); st.pc.append(z3.And(r <= I128_MAX, r >= I128_MIN))
                return iv(r)
            if f == 'from_num' and g in ('f64', 'f32') and args and isinstance(args[0], Opaque):
                # a float LITERAL (`const 100f64`): exact when the literal has at most 48 fractional bits, which is all the code base uses
                fm = re.search(r'const (-?[0-9][0-9_]*(?:\.[0-9]+)?(?:[eE]-?[0-9]+)?)_?f(64|32)', str(args[0].name))
                if fm:
                    from fractions import Fraction
                    q = Fraction(float(fm.group(1).replace('_', ''))) * W
                    if q.denominator == 1 and I128_MIN <= q.numerator <= I128_MAX:
                        return iv(z3.IntVal(q.numerator))
            if f == 'checked_to_num' and g in INT_RANGES:
                r = fdiv(a, W); lo, hi = INT_RANGES[g]
                return opt(z3.Or(r < lo, r > hi), IntV(r, g), f'Option<{g}>')
            if f == 'to_num' and g in INT_RANGES and a is not None:
                # fixed 1.28 `to_num` = FromFixed::from_fixed: floor, and with debug assertions off (the on-chain profile) an out-of-range value WRAPS
                r = fdiv(a, W); lo, hi = INT_RANGES[g]; width = hi - lo + 1
                ovf = z3.Or(r < lo, r > hi)
                if self.feasible(st.pc + [ovf]): st.events.append(('wrapping_to_num', c, z3.And(st.pc + [ovf])))
                return IntV(z3.If(ovf, ((r - lo) % width) + lo, r), g)
            if f in ('is_positive',): return BoolV(a > 0)
            if f in ('is_negative',): return BoolV(a < 0)
            if f in ('is_zero',): return BoolV(a == 0)
            if f == 'abs': return iv(abs_(a))
            if f == 'int': return iv(fdiv(a, W) * W)
            if f == 'frac': return iv(a - fdiv(a, W) * W)
            if f in ('saturating_add', 'saturating_sub') and a is not None and b is not None:
                r = a + b if f == 'saturating_add' else a - b
                return iv(z3.If(r < I128_MIN, I128_MIN, z3.If(r > I128_MAX, I128_MAX, r)))
            if f == 'saturating_mul' and a is not None and b is not None:
                r = fdiv(a * b, W)
                return iv(z3.If(r < I128_MIN, I128_MIN, z3.If(r > I128_MAX, I128_MAX, r)))
        m = re.match(r'^<I80F48 as (PartialOrd|PartialEq|Ord)(?:<.*>)?>::(\w+)$', c)
        if m:
            a = self.deref_val(args[0]).e; b = self.deref_val(args[1]).e
            op = m.group(2)
            r = {'lt': a < b, 'le': a <= b, 'gt': a > b, 'ge': a >= b, 'eq': a == b, 'ne': a != b}.get(op)
            if r is not None: return BoolV(r)
            if op == 'min': return iv(z3.If(a <= b, a, b))
            if op == 'max': return iv(z3.If(a >= b, a, b))
        m = re.match(r'^<(\w+) as Ord>::(min|max)$', c)
        if m and m.group(1) in INT_RANGES:
            a, b = args[0].e, args[1].e
            return IntV(z3.If(a <= b, a, b) if m.group(2) == 'min' else z3.If(a >= b, a, b), m.group(1))
        if re.match(r'^(std::cmp::)?(min|max)::<I80F48>$', c):
            a, b = args[0].e, args[1].e
            return iv(z3.If(a <= b, a, b) if 'min' in c else z3.If(a >= b, a, b))
        m = re.match(r'^<I80F48 as (?:std::ops::|core::ops::)?(Add|Sub|Neg|Mul|Div)(?:<.*>)?>::(\w+)$', c)
        if m:
            a = args[0].e
            if m.group(1) == 'Neg':
                st.pc.append(a != I128_MIN); return iv(-a)
            b = args[1].e
            if m.group(1) in ('Add', 'Sub'):
                r = a + b if m.group(1) == 'Add' else a - b
                ok = z3.And(r >= I128_MIN, r <= I128_MAX)
                if not self.feasible(st.pc + [ok]):
                    raise PathEnd('panic: arithmetic overflow')
                if self.feasible(st.pc + [z3.Not(ok)]):
                    st.events.append(('may_panic', f'{c} overflow', z3.And(st.pc + [z3.Not(ok)])))
                st.pc.append(ok)
                return iv(r)
            if m.group(1) == 'Mul':
                r = fdiv(a * b, W)     # operator `*`: debug_assert only -> wraps on overflow in the on-chain profile
                ovf = z3.Or(r > I128_MAX, r < I128_MIN)
                if not self.feasible(st.pc + [ovf]): return iv(r)
                st.events.append(('wrapping_mul', c, z3.And(st.pc + [ovf])))
                return iv((r - I128_MIN) % (1 << 128) + I128_MIN)
            if m.group(1) == 'Div':
                if self.feasible(st.pc + [b == 0]): st.events.append(('may_panic', 'I80F48 division by zero', z3.And(st.pc + [b == 0])))
                st.pc.append(b != 0)
                q = tdiv(a * W, b)     # operator `/`: debug_assert only -> wraps on overflow in the on-chain profile
                ovf = z3.Or(q > I128_MAX, q < I128_MIN)
                if not self.feasible(st.pc + [ovf]): return iv(q)
                st.events.append(('wrapping_div', c, z3.And(st.pc + [ovf])))
                return iv((q - I128_MIN) % (1 << 128) + I128_MIN)
        if re.match(r'^<anchor_lang::prelude::Pubkey as PartialEq>::(eq|ne)$', c):
            a = self.deref_val(args[0]); b = self.deref_val(args[1])
            if isinstance(a, IntV) and isinstance(b, IntV):
                return BoolV(a.e == b.e if c.endswith('eq') else a.e != b.e)
        m = re.match(r"^<anchor_lang::prelude::(\w+)<.*> as anchor_lang::Key>::key$", c)
        if m:
            o = self.deref_val(args[0])
            if isinstance(o, StructV):
                if '__key' not in o.fields: o.fields['__key'] = IntV(z3.Int(o.name + '.key'), 'Pubkey')
                return o.fields['__key']
        if re.search(r'Clock as anchor_lang::prelude::SolanaSysvar>::get$|Clock as .*Sysvar>::get$', c) and not self.is_opaque('CLOCKMODEL'):
            def ci(n, ty):
                v = z3.Int('clock.' + n); lo, hi = INT_RANGES[ty]
                if not getattr(self, '_clock_assumed', {}).get(n):
                    self.ex.assumptions.append(z3.And(v >= lo, v <= hi)); self._clock_assumed = dict(getattr(self, '_clock_assumed', {}), **{n: True})
                return IntV(v, ty)
            clk = StructV('Clock', 'clock', {0: ci('slot', 'u64'), 1: ci('epoch_start_timestamp', 'i64'), 2: ci('epoch', 'u64'),
                                             3: ci('leader_schedule_epoch', 'u64'), 4: ci('unix_timestamp', 'i64')}, lazy=False)
            st.events.append(('call', c, []))
            return EnumV('Result', 0, {0: {0: clk}})
        if re.search(r'Pubkey as (std::default::|core::default::)?Default>::default$', c):
            return IntV(z3.IntVal(0), 'Pubkey')
        if re.match(r"^<anchor_lang::prelude::Interface<.*> as (std::ops::|core::ops::)?Deref>::deref$", c) and isinstance(args[0], RefV):
            # Interface<T> -> Program<T>: a view of the same account (same key); keep the object so that `.key()` names the instruction's account
            return args[0]
        if re.match(r'^(std::ops::)?RangeInclusive::<(\w+)>::new$', c):
            return StructV('RangeInclusive', self.ex.fresh_name('range'), {0: args[0], 1: args[1]}, lazy=False)
        if re.match(r'^(std::ops::)?RangeInclusive::<(\w+)>::contains::<', c):
            rg = self.deref_val(args[0]); x = self.deref_val(args[1])
            if isinstance(rg, StructV) and 0 in rg.fields:
                return BoolV(z3.And(rg.fields[0].e <= x.e, x.e <= rg.fields[1].e))
        m = re.match(r'^<(\w+) as TryFrom<(\w+)>>::try_from$|^<(\w+) as TryInto<(\w+)>>::try_into$', c)
        if m:
            dst, src = (m.group(1), m.group(2)) if m.group(1) else (m.group(4), m.group(3))
            if dst in INT_RANGES and src in INT_RANGES and isinstance(args[0], IntV):
                lo, hi = INT_RANGES[dst]; a = args[0].e
                d = z3.simplify(z3.If(z3.And(a >= lo, a <= hi), 0, 1))
                return EnumV('Result', d.as_long() if z3.is_int_value(d) else d, {0: {0: IntV(a, dst)}, 1: {0: Opaque('TryFromIntError', 'tryfrom_err')}})
        m = re.match(r'^core::num::<impl (u128|i128|u64|i64)>::from_le_bytes$', c)
        if m:
            arr = self.deref_val(args[0])
            if isinstance(arr, StructV):
                if '__le' not in arr.fields:
                    arr.fields['__le'] = self.ex.fresh(m.group(1), arr.name + '.le')
                v = arr.fields['__le']
                return IntV(v.e, m.group(1))
        m = re.match(r'^core::num::<impl (\w+)>::(checked_div|checked_rem|unsigned_abs|abs|pow|checked_pow|wrapping_sub|wrapping_add|abs_diff|is_positive|is_negative|checked_neg|saturating_mul)$', c)
        if m and m.group(1) in INT_RANGES and isinstance(args[0], IntV):
            ty = m.group(1); lo, hi = INT_RANGES[ty]; f = m.group(2); a = args[0].e; b = args[1].e if len(args) > 1 and isinstance(args[1], IntV) else None
            if f == 'checked_div':
                q = tdiv(a, b)
                return opt(z3.Or(b == 0, q > hi, q < lo), IntV(q, ty), f'Option<{ty}>')
            if f == 'unsigned_abs':
                return IntV(abs_(a), 'u' + ty[1:])
            if f == 'abs':
                st.pc.append(a != lo); return IntV(abs_(a), ty)
            if f == 'is_positive': return BoolV(a > 0)
            if f == 'is_negative': return BoolV(a < 0)
            if f == 'abs_diff': return IntV(abs_(a - b), 'u' + ty[1:] if ty[0] == 'i' else ty)
            if f in ('wrapping_sub', 'wrapping_add'):
                r = a - b if f == 'wrapping_sub' else a + b; n = hi - lo + 1
                return IntV((r - lo) % n + lo, ty)
            if f == 'saturating_mul':
                r = a * b
                return IntV(z3.If(r < lo, lo, z3.If(r > hi, hi, r)), ty)
            if f == 'checked_neg':
                return opt(z3.Or(-a > hi, -a < lo), IntV(-a, ty), f'Option<{ty}>')
        m = re.match(r'^(std::result::)?Result::<(.*)>::(map_err|or_else)::<', c)
        if m and isinstance(args[0], EnumV):
            r = args[0]
            return EnumV('Result', r.disc, {0: dict(r.payload.get(0, {})), 1: {0: Opaque('E', 'mapped_err')}})
        m = re.match(r'^(std::result::)?Result::<(.*)>::ok$', c)
        if m and isinstance(args[0], EnumV):
            r = args[0]; d = r.disc
            nd = (1 - d) if isinstance(d, int) else z3.simplify(1 - d)
            if not isinstance(nd, int) and z3.is_int_value(nd): nd = nd.as_long()
            return EnumV('Option', nd, {1: dict(r.payload.get(0, {}))})
        m = re.match(r'^Option::<(.*?)>::ok_or::<', c)
        if m and isinstance(args[0], EnumV):
            o = args[0]; d = o.disc
            nd = (1 - d) if isinstance(d, int) else z3.simplify(1 - d)
            if not isinstance(nd, int) and z3.is_int_value(nd): nd = nd.as_long()
            return EnumV('Result', nd, {0: dict(o.payload.get(1, {})), 1: {0: Opaque('E', 'err')}})
        m = re.match(r'^Option::<(.*?)>::(is_some|is_none)$', c)
        if m:
            o = self.deref_val(args[0])
            if isinstance(o, EnumV):
                e = disc_eq(o, 1 if m.group(2) == 'is_some' else 0)
                return BoolV(e)
        m = re.match(r'^(std::result::)?Result::<(.*)>::(is_ok|is_err)$', c)
        if m:
            o = self.deref_val(args[0])
            if isinstance(o, EnumV):
                return BoolV(disc_eq(o, 0 if m.group(3) == 'is_ok' else 1))
        if re.match(r'^(std::result::)?Result::<(.*)>::(unwrap|expect)$', c) and isinstance(args[0], EnumV):
            o = args[0]
            okc = disc_eq(o, 0)
            if not self.feasible(st.pc + [okc]): raise PathEnd('panic: unwrap on Err')
            if self.feasible(st.pc + [z3.Not(okc)]): st.events.append(('may_panic', 'unwrap on Err', z3.And(st.pc + [z3.Not(okc)])))
            st.pc.append(okc)
            return o.payload[0][0]
        mm = re.match(r'^(?:std::result::)?(Result|Option)::<(.*)>::(map|and_then)::<(.*)>$', c)
        if mm and isinstance(args[0], EnumV):
            cf = self.closure_fn(mm.group(4), st)
            src = args[0]; isres = mm.group(1) == 'Result'
            okv = 0 if isres else 1
            if cf is not None and okv in src.payload and 0 in src.payload[okv]:
                has = disc_eq(src, okv)
                if z3.is_false(z3.simplify(has)):
                    return src if isres else EnumV('Option', 0, {})
                sub = self.call_pure(st, cf, [args[1], src.payload[okv][0]])
                if len(sub) == 1 and not sub[0][0]:
                    rv = sub[0][1]
                    if mm.group(3) == 'map':
                        pay = {okv: {0: rv}}
                        if isres: pay[1] = dict(src.payload.get(1, {0: Opaque('E', 'err')}))
                        return EnumV(mm.group(1), src.disc, pay)
                    if isinstance(rv, EnumV):       # and_then: closure returns Option/Result itself
                        if isinstance(src.disc, int):
                            return rv
                        d = z3.If(has, zint_(rv.disc), z3.IntVal(1 - okv))
                        pay = dict(rv.payload)
                        if isres and 1 not in pay: pay[1] = {0: Opaque('E', 'err')}
                        return EnumV(mm.group(1), z3.simplify(d), pay)
        mm = re.match(r'^(?:std::result::)?Result::<(.*)>::unwrap_or$', c)
        if mm and isinstance(args[0], EnumV):
            o = args[0]
            if isinstance(o.disc, int):
                return o.payload[0][0] if o.disc == 0 else args[1]
            sv = o.payload[0][0]
            if isinstance(sv, BoolV): return BoolV(z3.If(o.disc == 0, sv.e, args[1].e))
            if isinstance(sv, IntV): return IntV(z3.If(o.disc == 0, sv.e, args[1].e), sv.ty)
        mm = re.match(r'^<\[(.*); (\d+)\] as IntoIterator>::into_iter$', c)
        if mm and isinstance(args[0], StructV):
            return StructV('ArrayIntoIter', self.ex.fresh_name('aiter'), {'__arr': Cell(args[0]), '__idx': 0, '__n': int(mm.group(2)), '__elemty': mm.group(1)}, lazy=False)
        if re.match(r'^<std::array::IntoIter<.*> as Iterator>::next$', c):
            it = self.deref_val(args[0])
            if isinstance(it, StructV) and '__arr' in it.fields:
                i = it.fields['__idx']; n = it.fields['__n']
                if i >= n: return EnumV('Option', 0, {})
                it.fields['__idx'] = i + 1
                arr = it.fields['__arr'].val
                if i not in arr.fields:
                    arr.fields[i] = self.ex.fresh(it.fields['__elemty'], f'{arr.name}[{i}]')
                return EnumV('Option', 1, {1: {0: arr.fields[i]}})
        # ---- BTreeMap<K, V> with scalar keys: insertion-ordered association list (keys pairwise distinct by construction);
        #      consuming iteration yields insertion order, NOT key order: obligations over it must be order-insensitive
        if re.match(r'^BTreeMap::<.*>::new$', c):
            return StructV('BTreeMap', self.ex.fresh_name('map'), {'__map': True, '__keys': [], '__cells': []}, lazy=False)
        if re.match(r'^BTreeMap::<.*>::entry$', c):
            mp = self.deref_val(args[0]); key = args[1]
            if isinstance(mp, StructV) and '__map' in mp.fields and isinstance(key, IntV):
                n = len(mp.fields['__keys'])
                def occ(i):
                    return lambda st_, a_: StructV('btree_map::Entry', self.ex.fresh_name('entry'), {'__entry': True, '__mapref': a_[0], '__idx': i, '__key': a_[1]}, lazy=False)
                alts = [(key.e == mp.fields['__keys'][i].e, occ(i)) for i in range(n)]
                alts.append((z3.And([key.e != k.e for k in mp.fields['__keys']] + [z3.BoolVal(True)]), occ(None)))
                return ForkResult(alts)
        if re.match(r'^std::collections::btree_map::Entry::<.*>::or_insert$', c):
            ent = args[0]
            if isinstance(ent, StructV) and '__entry' in ent.fields:
                mp = self.deref_val(ent.fields['__mapref'])
                if ent.fields['__idx'] is None:
                    mp.fields['__keys'].append(ent.fields['__key']); mp.fields['__cells'].append(Cell(args[1]))
                    return RefV(mp.fields['__cells'][-1])
                return RefV(mp.fields['__cells'][ent.fields['__idx']])
        if re.match(r'^<BTreeMap<.*> as IntoIterator>::into_iter$', c):
            mp = args[0]
            if isinstance(mp, StructV) and '__map' in mp.fields:
                return StructV('btree_map::IntoIter', self.ex.fresh_name('mapiter'), {'__mapiter': True, '__keys': list(mp.fields['__keys']), '__cells': list(mp.fields['__cells']), '__idx': 0}, lazy=False)
        if re.match(r'^<std::collections::btree_map::IntoIter<.*> as Iterator>::next$', c):
            it = self.deref_val(args[0])
            if isinstance(it, StructV) and '__mapiter' in it.fields:
                i = it.fields['__idx']
                if i >= len(it.fields['__keys']): return EnumV('Option', 0, {})
                it.fields['__idx'] = i + 1
                return EnumV('Option', 1, {1: {0: StructV('tuple', self.ex.fresh_name('kv'), {0: it.fields['__keys'][i], 1: it.fields['__cells'][i].val}, lazy=False)}})
        zm_ = re.match(r'^<([\w:]+) as (?:bytemuck::)?Zeroable>::zeroed$', c)
        if zm_ and zm_.group(1).split('::')[-1] in STRUCTS and not args:
            return self.ex.zero(zm_.group(1), self.ex.fresh_name('zeroed_' + zm_.group(1).split('::')[-1]))
        bm_ = re.match(r'^Box::<(.*)>::new$', c)
        if bm_ and len(args) == 1 and not bm_.group(1).startswith('dyn ') and 'anchor_lang' not in bm_.group(1):
            return StructV('Box<%s>' % bm_.group(1), self.ex.fresh_name('box'), {'__pointee': Cell(args[0])}, lazy=True)
        if re.match(r'^<Box<(.*)> as (AsRef<.*>|Deref|DerefMut|AsMut<.*>|Borrow<.*>)>::(as_ref|deref|deref_mut|as_mut|borrow)$', c):
            b = self.deref_val(args[0])
            if isinstance(b, StructV):
                bm = re.match(r'^(?:std::boxed::)?Box<(.*)>$', b.ty.strip())
                if '__pointee' not in b.fields and bm:
                    b.fields['__pointee'] = Cell(self.ex.fresh(bm.group(1), b.name + '.*'))
                if '__pointee' in b.fields: return RefV(b.fields['__pointee'])
        mm = re.match(r'^<([\w:]+) as PartialEq>::(eq|ne)$', c)
        if mm and len(args) == 2:
            a_, b_ = self.deref_val(args[0]), self.deref_val(args[1])
            base_ = mm.group(1).split('::')[-1]
            if isinstance(a_, EnumV) and isinstance(b_, EnumV) and base_ in ENUMS and not a_.payload and not b_.payload:
                e_ = zint_(a_.disc) == zint_(b_.disc)
                return BoolV(e_ if mm.group(2) == 'eq' else z3.Not(e_))
            if isinstance(a_, IntV) and isinstance(b_, IntV) and a_.ty == b_.ty and a_.ty in ('Pubkey',) + tuple(INT_RANGES):
                e_ = a_.e == b_.e
                return BoolV(e_ if mm.group(2) == 'eq' else z3.Not(e_))
        if re.match(r'^anchor_lang::prelude::Pubkey::new_from_array$|Pubkey::new_from_array$', c):
            arr = self.deref_val(args[0])
            if isinstance(arr, StructV):
                items = [arr.fields.get(i) for i in range(32)]
                if all(isinstance(x, IntV) and z3.is_int_value(z3.simplify(x.e)) for x in items):
                    bs_ = bytes(z3.simplify(x.e).as_long() for x in items)
                    return IntV(z3.IntVal(0 if not any(bs_) else int.from_bytes(bs_, 'little') + (1 << 40)), 'Pubkey')
                if '__pk' not in arr.fields: arr.fields['__pk'] = IntV(z3.Int(arr.name + '.pk'), 'Pubkey')
                return arr.fields['__pk']
        mm = re.match(r'^<\[u8; 32\] as PartialEq>::(eq|ne)$', c)
        if mm and len(args) == 2:
            a_, b_ = self.deref_val(args[0]), self.deref_val(args[1])
            if isinstance(a_, IntV) and isinstance(b_, IntV):
                e_ = a_.e == b_.e
                return BoolV(e_ if mm.group(1) == 'eq' else z3.Not(e_))
        mm = re.match(r'^<&(.+?) as PartialEq(?:<&.+>)?>::(eq|ne)$', c)
        if mm and len(args) == 2 and isinstance(args[0], RefV) and isinstance(args[1], RefV):
            a1 = self.get_path(args[0].cell.val, args[0].path); b1 = self.get_path(args[1].cell.val, args[1].path)
            inner = mm.group(1)
            r_ = self.model_call(st, f'<{inner} as PartialEq>::{mm.group(2)}', [a1, b1])
            if r_ is not None: return r_
        if re.match(r'^<Vec<u8> as Index<(std::ops::)?RangeTo<usize>>>::index$', c):
            v = self.deref_val(args[0])
            if isinstance(v, StructV):
                if '__d8' not in v.fields: v.fields['__d8'] = IntV(z3.Int(v.name + '.d8'), 'bytes')
                if '__len' not in v.fields:
                    ln = z3.Int(v.name + '.len'); self.ex.assumptions.append(z3.And(ln >= 0, ln <= 2000)); v.fields['__len'] = IntV(ln, 'usize')
                need = 8
                ok_ = v.fields['__len'].e >= need
                if self.feasible(st.pc + [z3.Not(ok_)]): st.events.append(('may_panic', 'slice index out of range (data shorter than 8 bytes)', z3.And(st.pc + [z3.Not(ok_)])))
                st.pc.append(ok_)
                return RefV(Cell(v.fields['__d8']))
        mm = re.match(r'^<&\[u8\] as PartialEq<\[u8; (\d+)\]>>::(eq|ne)$|^<\[u8\] as PartialEq<\[u8; (\d+)\]>>::(eq|ne)$', c)
        if mm and len(args) == 2:
            a_ = self.deref_val(args[0]); b_ = self.deref_val(args[1])
            op_ = mm.group(2) or mm.group(4)
            if isinstance(a_, IntV) and isinstance(b_, StructV):
                items = [b_.fields.get(i) for i in range(len([k for k in b_.fields if isinstance(k, int)]))]
                if items and all(isinstance(x, IntV) and z3.is_int_value(z3.simplify(x.e)) for x in items):
                    cid = intern_bytes('bytes:' + ','.join(str(z3.simplify(x.e).as_long()) for x in items))
                    e_ = a_.e == cid
                    return BoolV(e_ if op_ == 'eq' else z3.Not(e_))
        # ---- Vec<T> of plain records built locally by push (concrete length per path): python list of values
        vm_ = re.match(r'^Vec::<(\w+)>::(with_capacity|new)$', c)
        if vm_ and vm_.group(1) in VEC_MODEL_TYPES:
            return StructV(f'Vec<{vm_.group(1)}>', self.ex.fresh_name('vec'), {'__vec': True, '__items': []}, lazy=False)
        vm_ = re.match(r'^Vec::<(\w+)>::(push|len|is_empty)$', c)
        if vm_ and vm_.group(1) in VEC_MODEL_TYPES:
            v = self.deref_val(args[0])
            if isinstance(v, StructV) and '__vec' in v.fields:
                if vm_.group(2) == 'push':
                    v.fields['__items'].append(args[1]); return StructV('()', 'unit', {}, lazy=False)
                if vm_.group(2) == 'len': return IntV(z3.IntVal(len(v.fields['__items'])), 'usize')
                return BoolV(z3.BoolVal(len(v.fields['__items']) == 0))
        vm_ = re.match(r'^<Vec<(\w+)> as Index<usize>>::index$', c)
        if vm_ and vm_.group(1) in VEC_MODEL_TYPES:
            v = self.deref_val(args[0]); k_ = z3.simplify(args[1].e)
            if isinstance(v, StructV) and '__vec' in v.fields and z3.is_int_value(k_):
                if k_.as_long() >= len(v.fields['__items']): raise PathEnd('panic: index out of bounds')
                return RefV(Cell(v.fields['__items'][k_.as_long()]))
        if re.match(r'^<std::ops::Range<usize> as IntoIterator>::into_iter$', c) and isinstance(args[0], StructV):
            return args[0]
        if re.match(r'^<std::ops::Range<usize> as Iterator>::next$', c):
            rg = self.deref_val(args[0])
            if isinstance(rg, StructV) and 0 in rg.fields and 1 in rg.fields:
                a_, b_ = z3.simplify(rg.fields[0].e), z3.simplify(rg.fields[1].e)
                if z3.is_int_value(a_) and z3.is_int_value(b_):
                    if a_.as_long() >= b_.as_long(): return EnumV('Option', 0, {})
                    nv_ = IntV(z3.IntVal(a_.as_long() + 1), 'usize')
                    rg.fields[0] = nv_
                    if 'start' in rg.fields: rg.fields['start'] = nv_
                    return EnumV('Option', 1, {1: {0: IntV(a_, 'usize')}})
        if re.match(r'^<Vec<(.*)> as Deref>::deref$', c):
            v = self.deref_val(args[0])
            if isinstance(v, StructV) and '__vec' in v.fields:
                items = v.fields['__items']
                em = re.match(r'^Vec<(.*)>$', v.ty)
                return RefV(Cell(StructV(f'[{em.group(1)}; {len(items)}]', self.ex.fresh_name('vecslice'), dict(enumerate(items)), lazy=False)))
            if isinstance(v, StructV):
                em = re.match(r'^(?:std::vec::)?Vec<(.*)>$', v.ty.strip())
                if '__slice' not in v.fields:
                    sl = self.ex.fresh(f'[{em.group(1)}]' if em else '[?]', v.name + '.slice')
                    v.fields['__slice'] = Cell(sl)
                return RefV(v.fields['__slice'])
        mm = re.match(r'^core::slice::<impl \[(.*)\]>::(first|first_mut)$', c)
        if mm:      # std: `first()` is `get(0)`
            r_ = self.model_call(st, f"core::slice::<impl [{mm.group(1)}]>::{'get' if mm.group(2) == 'first' else 'get_mut'}::<usize>", [args[0], IntV(z3.IntVal(0), 'usize')])
            if r_ is not None: return r_
        mm = re.match(r'^<Vec<u8> as PartialEq<(&\[u8\]|\[u8\]|&\[u8; 8\]|\[u8; 8\])>>::(eq|ne)$', c)
        if mm:
            # whole instruction data against an 8-byte discriminator (the only byte strings the encoder knows are 8-byte discriminators and seed prefixes, interned
            # as scalars): equal iff the data IS 8 bytes long and those 8 bytes are the discriminator
            v = self.deref_val(args[0]); b = self.deref_val(args[1])
            if isinstance(v, StructV) and hasattr(b, 'e'):
                if '__len' not in v.fields:
                    ln = z3.Int(v.name + '.len'); self.ex.assumptions.append(z3.And(ln >= 0, ln <= 2000)); v.fields['__len'] = IntV(ln, 'usize')
                if '__d8' not in v.fields: v.fields['__d8'] = IntV(z3.Int(v.name + '.d8'), 'bytes')
                eq_ = z3.And(v.fields['__len'].e == 8, v.fields['__d8'].e == b.e)
                return BoolV(eq_ if mm.group(2) == 'eq' else z3.Not(eq_))
        mm = re.match(r'^core::slice::<impl \[(.*)\]>::(get|get_mut)::<usize>$', c)
        if mm and isinstance(args[1], IntV) and z3.is_int_value(z3.simplify(args[1].e)):
            lst = args[0]; lv = self.deref_val(lst); k_ = z3.simplify(args[1].e).as_long()
            am_ = re.match(r'^\[(.*); (\d+)\]$', lv.ty.strip()) if isinstance(lv, StructV) else None
            if am_ and isinstance(lst, RefV):        # fixed array seen through a slice reference
                if k_ >= int(am_.group(2)): return EnumV('Option', 0, {})
                return EnumV('Option', 1, {1: {0: RefV(lst.cell, lst.path + (('i', k_),))}})
            if isinstance(lv, StructV) and lv.ty == 'array' and not lv.lazy and isinstance(lst, RefV):      # an evaluated constant array (e.g. EXP_10_I80F48): its length is the number of elements
                n_ = len([k for k in lv.fields if isinstance(k, int)])
                if k_ >= n_: return EnumV('Option', 0, {})
                return EnumV('Option', 1, {1: {0: RefV(lst.cell, lst.path + (('i', k_),))}})
            if isinstance(lv, StructV) and '__len' in lv.fields and isinstance(lst, RefV):
                if k_ not in lv.fields: lv.fields[k_] = self.ex.fresh(lv.fields.get('__elemty', mm.group(1)), f'{lv.name}[{k_}]')
                d_ = z3.simplify(z3.If(lv.fields['__len'].e > k_, 1, 0))
                return EnumV('Option', d_.as_long() if z3.is_int_value(d_) else d_, {1: {0: RefV(lst.cell, lst.path + (('i', k_),))}})
        if re.match(r"^<.* as anchor_lang::ToAccountInfo<'_>>::to_account_info$", c) and not getattr(self, 'opaque_to_account_info', False):
            o = self.deref_val(args[0])
            if isinstance(o, StructV):
                if re.match(r"^anchor_lang::prelude::AccountInfo<", o.ty.strip()): return o
                if '__info' not in o.fields:
                    o.fields['__info'] = Cell(self.ex.fresh("anchor_lang::prelude::AccountInfo<'_>", o.name + '.info'), name=o.name + '.info')
                return o.fields['__info'].val
        mm = re.match(r'^<(anchor_lang::prelude::Pubkey|\w+) as Ord>::cmp$', c)
        if mm and len(args) == 2:
            a_, b_ = self.deref_val(args[0]), self.deref_val(args[1])
            if isinstance(a_, IntV) and isinstance(b_, IntV):
                # keys are abstract scalars with a total order (byte-lexicographic order on chain; only its totality/antisymmetry is used)
                return EnumV('Ordering', z3.If(a_.e < b_.e, -1, z3.If(a_.e == b_.e, 0, 1)), {})
        # ---- Anchor / Pubkey / PDA models (keys are uninterpreted scalars; sha256 derivation is an uninterpreted function)
        if re.match(r'^<anchor_lang::prelude::(AccountLoader|Account|InterfaceAccount|Signer|Program|Interface|SystemAccount|UncheckedAccount|Sysvar)<.*> as AsRef<anchor_lang::prelude::AccountInfo<.*>>>::as_ref$', c):
            o = self.deref_val(args[0])
            if isinstance(o, StructV):
                if '__info' not in o.fields:
                    o.fields['__info'] = Cell(self.ex.fresh("anchor_lang::prelude::AccountInfo<'_>", o.name + '.info'), name=o.name + '.info')
                return RefV(o.fields['__info'])
        if re.match(r'^core::str::<impl str>::as_bytes$', c):
            a0 = args[0]
            label = a0.name if isinstance(a0, Opaque) else str(a0)
            return RefV(Cell(IntV(z3.IntVal(intern_bytes(label)), 'bytes')))
        if re.match(r'^<anchor_lang::prelude::Pubkey as AsRef<\[u8\]>>::as_ref$', c):
            k = self.deref_val(args[0])
            if isinstance(k, IntV): return RefV(Cell(IntV(SEED_KEY(k.e), 'bytes')))
        if re.match(r'^<\[u8; 1\] as Index<RangeFull>>::index$', c):
            arr = self.deref_val(args[0])
            if isinstance(arr, StructV) and 0 in arr.fields and isinstance(arr.fields[0], IntV):
                return RefV(Cell(IntV(SEED_BUMP(arr.fields[0].e), 'bytes')))
        mm = re.match(r'^anchor_lang::prelude::Pubkey::(create_program_address|find_program_address)$', c)
        if mm:
            seeds = self.deref_val(args[0]); prog = self.deref_val(args[1])
            if isinstance(seeds, StructV) and isinstance(prog, IntV):
                items = [self.deref_val(seeds.fields[i]) for i in sorted(k for k in seeds.fields if isinstance(k, int))]
                if all(isinstance(x, IntV) for x in items):
                    es = [x.e for x in items]
                    if mm.group(1) == 'create_program_address':
                        while len(es) < 5: es.append(z3.IntVal(-1))
                        key = PDA_CREATE(*es[:5], prog.e)
                        d = z3.Int(self.ex.fresh_name('pda_ok')); self.ex.assumptions.append(z3.And(d >= 0, d <= 1))
                        st.events.append(('pda', 'create', es, prog.e, key))
                        return EnumV('Result', d, {0: {0: IntV(key, 'Pubkey')}, 1: {0: Opaque('PubkeyError', 'pda_err')}})
                    while len(es) < 4: es.append(z3.IntVal(-1))
                    key = PDA_FIND(*es[:4], prog.e); bump = PDA_BUMP(*es[:4], prog.e)
                    st.events.append(('pda', 'find', es, prog.e, key))
                    return StructV('tuple', 't', {0: IntV(key, 'Pubkey'), 1: IntV(bump, 'u8')}, lazy=False)
        # ---- iterator models over fixed arrays / short lists, closures executed from their own MIR
        mm = re.match(r'^core::slice::<impl \[(.*)\]>::(chunks_exact|windows)$', c)
        if mm and isinstance(args[0], RefV) and isinstance(args[1], IntV) and z3.is_int_value(z3.simplify(args[1].e)):
            # adjacent groups of a short list: a derived list of k-element lists (values copied: the groups are read-only views), then iterated like any list
            k = z3.simplify(args[1].e).as_long(); lv = self.deref_val(args[0])
            if isinstance(lv, StructV) and k >= 1:
                n = lv.fields['__len'].e if '__len' in lv.fields else None
                if n is None:
                    am = re.match(r'^\[(.*); (\d+)\]$', lv.ty.strip()); n = int(am.group(2)) if am else None
                if n is not None:
                    have = [x for x in lv.fields if isinstance(x, int)]
                    bound = n if isinstance(n, int) else max(LIST_K, (max(have) + 1) if have else 0)
                    if not isinstance(n, int) and z3.is_int_value(z3.simplify(n)): bound = z3.simplify(n).as_long()
                    elty = lv.fields.get('__elemty', mm.group(1)); step = k if mm.group(2) == 'chunks_exact' else 1
                    groups = {}; gi = 0; start = 0
                    while start + k <= bound:
                        items = {}
                        for j in range(k):
                            if start + j not in lv.fields: lv.fields[start + j] = self.ex.fresh(elty, f'{lv.name}[{start + j}]')
                            items[j] = lv.fields[start + j]
                        items['__len'] = IntV(z3.IntVal(k), 'usize'); items['__elemty'] = elty
                        groups[gi] = StructV(f'[{elty}]', self.ex.fresh_name('group'), items, lazy=False)      # the iterator yields a reference to this element = `&[T]`
                        gi += 1; start += step
                    cnt = (n // k if mm.group(2) == 'chunks_exact' else max(n - k + 1, 0)) if isinstance(n, int) else \
                          (n / k if mm.group(2) == 'chunks_exact' else z3.If(n >= k, n - k + 1, 0))
                    groups['__len'] = IntV(zint_(cnt), 'usize'); groups['__elemty'] = f'[{elty}]'
                    gl = StructV(f'[&[{elty}]]', self.ex.fresh_name('groups'), groups, lazy=False)
                    return StructV('Iter', self.ex.fresh_name('iter'), {'__list': RefV(Cell(gl)), '__idx': 0}, lazy=False)
        mm = re.match(r'^core::slice::<impl \[.*\]>::(iter|iter_mut)$', c)
        if mm:
            return StructV('Iter', self.ex.fresh_name('iter'), {'__list': args[0], '__idx': 0}, lazy=False)
        if re.match(r'^<((std|core)::slice::)?(Iter|IterMut|ChunksExact|Windows)<.*> as IntoIterator>::into_iter$', c) or re.match(r'^<(Filter|Enumerate|std::iter::Filter|std::iter::Enumerate)<.*> as IntoIterator>::into_iter$', c):
            return args[0]
        mm = re.match(r'^<(?:(?:std|core)::slice::)?(?:Iter|IterMut|ChunksExact|Windows)<.*> as Iterator>::(filter|enumerate|position|find|any|all)(?:::<(.*)>)?$', c)
        if mm:
            kind = mm.group(1); it = self.deref_val(args[0])
            if kind == 'enumerate':
                return StructV('Enumerate', self.ex.fresh_name('enum'), {'__iter': it}, lazy=False)
            cf = self.closure_fn(mm.group(2) or '', st)
            if cf is None: return None
            if kind == 'filter':
                return StructV('Filter', self.ex.fresh_name('filter'), {'__iter': it, '__pred': cf.name, '__env': Cell(args[1])}, lazy=False)
            return self.iter_search(st, kind, it, cf, args[1], by_ref=(kind == 'find'))
        mm = re.match(r'^<(?:std::iter::)?Filter<.*> as Iterator>::(next|count)$', c)
        if mm:
            flt = self.deref_val(args[0]); it = flt.fields['__iter']
            cf = self.fn_by_name(flt.fields['__pred'])
            return self.iter_search(st, 'filter_' + mm.group(1), it, cf, flt.fields['__env'].val, by_ref=True, flt_arg=True)
        if re.match(r'^<(?:std::iter::)?Enumerate<.*> as Iterator>::next$', c):
            en = self.deref_val(args[0]); it = en.fields['__iter']
            n = self.iter_len(it)
            i = it.fields['__idx']
            if n is None: return None
            if not isinstance(n, int):
                if i >= LIST_K: return EnumV('Option', 0, {})       # unwinding assumption len <= LIST_K (asserted by fresh())
                def some_(ns, a2):
                    it2 = self.deref_val(a2[0]).fields['__iter']; it2.fields['__idx'] = i + 1
                    return EnumV('Option', 1, {1: {0: StructV('tuple', 't', {0: IntV(z3.IntVal(i), 'usize'), 1: self.iter_elem_ref(it2, i)}, lazy=False)}})
                return ForkResult([(n > i, some_), (n <= i, lambda ns, a2: EnumV('Option', 0, {}))])
            if i >= n: return EnumV('Option', 0, {})
            it.fields['__idx'] = i + 1
            return EnumV('Option', 1, {1: {0: StructV('tuple', 't', {0: IntV(z3.IntVal(i), 'usize'), 1: self.iter_elem_ref(it, i)}, lazy=False)}})
        # ---- list / iterator models
        if re.match(r'^core::slice::<impl \[.*\]>::iter$', c):
            lst = args[0]
            return StructV('Iter', self.ex.fresh_name('iter'), {'__list': lst, '__idx': 0}, lazy=False)
        if re.match(r'^<std::slice::Iter<.*> as IntoIterator>::into_iter$', c):
            return args[0]
        if re.match(r'^<((std|core)::slice::)?(Iter|IterMut|ChunksExact|Windows)<.*> as Iterator>::next$', c):
            it = self.deref_val(args[0]); lst = it.fields['__list']; lv = self.deref_val(lst)
            n_ = self.iter_len(it)
            if isinstance(n_, int):       # fixed-size array: concrete trip count
                i = it.fields['__idx']
                if i >= n_: return EnumV('Option', 0, {})
                it.fields['__idx'] = i + 1
                return EnumV('Option', 1, {1: {0: self.iter_elem_ref(it, i)}})
            i = it.fields['__idx']
            ln = lv.fields['__len'].e
            if i >= LIST_K:
                return EnumV('Option', 0, {})
            if getattr(self, 'fork_iter_next', True):
                def some2_(ns, a2):
                    it2 = self.deref_val(a2[0]); it2.fields['__idx'] = i + 1
                    return EnumV('Option', 1, {1: {0: self.iter_elem_ref(it2, i)}})
                return ForkResult([(ln > i, some2_), (ln <= i, lambda ns, a2: EnumV('Option', 0, {}))])
            it.fields['__idx'] = i + 1
            if i not in lv.fields:
                lv.fields[i] = self.ex.fresh(lv.fields['__elemty'], f'{lv.name}[{i}]')
            d = z3.simplify(z3.If(i < ln, 1, 0))
            d = d.as_long() if z3.is_int_value(d) else d
            return EnumV('Option', d, {1: {0: RefV(lst.cell, lst.path + (('i', i),))}})
        if re.match(r'^core::slice::<impl \[.*\]>::last$', c):
            lst = args[0]; lv = self.deref_val(lst)
            if '__len' in lv.fields:
                ln = lv.fields['__len'].e
                alts = [(ln == 0, lambda ns, a2: EnumV('Option', 0, {}))]
                for k in range(LIST_K):
                    def mk(k):
                        def f(ns, a2):
                            l2 = a2[0]; lv2 = self.deref_val(l2)
                            if k not in lv2.fields: lv2.fields[k] = self.ex.fresh(lv2.fields['__elemty'], f'{lv2.name}[{k}]')
                            return EnumV('Option', 1, {1: {0: RefV(l2.cell, l2.path + (('i', k),))}})
                        return f
                    alts.append((ln == k + 1, mk(k)))
                return ForkResult(alts)
        mm_ = re.match(r'^core::slice::<impl \[.*\]>::(is_empty|len)$', c)
        if mm_:
            lv = self.deref_val(args[0])
            if isinstance(lv, StructV):
                am = re.match(r'^\[(.*); (\d+)\]$', lv.ty.strip())
                if am: ln = z3.IntVal(int(am.group(2)))
                else:
                    if '__len' not in lv.fields:
                        ln_ = z3.Int(lv.name + '.len'); self.ex.assumptions.append(z3.And(ln_ >= 0, ln_ <= 2**32)); lv.fields['__len'] = IntV(ln_, 'usize')
                    ln = lv.fields['__len'].e
                return BoolV(ln == 0) if mm_.group(1) == 'is_empty' else IntV(ln, 'usize')
        if re.match(r'^Vec::<u8>::len$', c):
            v = self.deref_val(args[0])
            if '__len' not in v.fields:
                ln = z3.Int(v.name + '.len'); self.ex.assumptions.append(z3.And(ln >= 0, ln <= 2000)); v.fields['__len'] = IntV(ln, 'usize')
            return v.fields['__len']
        if re.match(r'^<Vec<u8> as Index<std::ops::Range<usize>>>::index$', c):
            v = self.deref_val(args[0])
            if '__d8' not in v.fields: v.fields['__d8'] = IntV(z3.Int(v.name + '.d8'), 'bytes')
            return RefV(Cell(v.fields['__d8']))
        if re.match(r'^<&\[u8\] as PartialEq>::(eq|ne)$', c) or re.match(r'^<\[u8\] as PartialEq>::(eq|ne)$', c):
            a = self.deref_val(args[0]); b = self.deref_val(args[1])
            if not (hasattr(a, 'e') and hasattr(b, 'e')): return None
            return BoolV(a.e == b.e if c.endswith('eq') else a.e != b.e)
        if re.match(r'^core::slice::<impl \[\(anchor_lang::prelude::Pubkey, &\[u8\]\)\]>::contains$', c):
            lv = self.deref_val(args[0]); t = self.deref_val(args[1]); ln = lv.fields['__len'].e
            tp = self.deref_val(t.fields[0]); tb = self.deref_val(t.fields[1])
            alts = []
            for i in range(LIST_K):
                if i not in lv.fields:
                    lv.fields[i] = StructV('tuple', f'{lv.name}[{i}]', {0: IntV(z3.Int(f'{lv.name}[{i}].pid'), 'Pubkey'), 1: IntV(z3.Int(f'{lv.name}[{i}].bytes'), 'bytes')}, lazy=False)
                e = lv.fields[i]
                alts.append(z3.And(i < ln, self.deref_val(e.fields[0]).e == tp.e, self.deref_val(e.fields[1]).e == tb.e))
            return BoolV(z3.Or(alts))
        if re.match(r'^core::slice::<impl \[&\[u8\]\]>::contains$', c) and not os.environ.get('MIRSYM_SELFTEST_NO_CONTAINS'):
            # `hashes.contains(&discrim)` == `hashes.iter().any(|&h| h == discrim)` (std definition); byte strings are uninterpreted scalars
            lv = self.deref_val(args[0]); t = self.deref_val(args[1])
            if isinstance(lv, StructV) and hasattr(t, 'e'):
                n = lv.fields['__len'].e if '__len' in lv.fields else None
                idxs = sorted(k for k in lv.fields if isinstance(k, int))
                if n is None:
                    alts = [self.deref_val(lv.fields[i]).e == t.e for i in idxs if hasattr(self.deref_val(lv.fields[i]), 'e')]
                    if len(alts) == len(idxs): return BoolV(z3.Or(alts) if alts else z3.BoolVal(False))
                else:
                    alts = []
                    for i in range(max(LIST_K, (max(idxs) + 1) if idxs else 0)):
                        if i not in lv.fields: lv.fields[i] = self.ex.fresh(lv.fields.get('__elemty', '&[u8]'), f'{lv.name}[{i}]')
                        ev_ = self.deref_val(lv.fields[i])
                        if not hasattr(ev_, 'e'): alts = None; break
                        alts.append(z3.And(i < n, ev_.e == t.e))
                    if alts is not None: return BoolV(z3.Or(alts) if alts else z3.BoolVal(False))
        if re.match(r'^<.*WrappedI80F48 as PartialEq>::(eq|ne)$', c):
            a = self.deref_val(args[0]).e; b = self.deref_val(args[1]).e
            return BoolV(a == b if c.endswith('eq') else a != b)
        m = re.match(r'^Option::<(.*?)>::ok_or_else::<', c)
        if m:
            o = args[0]
            d = o.disc
            nd = (1 - d) if isinstance(d, int) else z3.simplify(1 - d)
            if not isinstance(nd, int) and z3.is_int_value(nd): nd = nd.as_long()
            return EnumV('Result', nd, {0: dict(o.payload.get(1, {})), 1: {0: Opaque('E', 'err')}})
        if re.match(r'^<(std::result::)?Result<.*> as Try>::branch$', c):
            r = args[0]
            return EnumV('ControlFlow', r.disc, {0: dict(r.payload.get(0, {})), 1: {0: EnumV('Result', 1, {1: dict(r.payload.get(1, {0: Opaque('E', 'err')}))})}})
        if re.match(r'^<(std::option::)?Option<.*> as Try>::branch$', c):
            o = args[0]; d = o.disc
            nd = (1 - d) if isinstance(d, int) else z3.simplify(1 - d)
            if not isinstance(nd, int) and z3.is_int_value(nd): nd = nd.as_long()
            return EnumV('ControlFlow', nd, {0: dict(o.payload.get(1, {})), 1: {0: EnumV('Option', 0, {})}})
        if re.match(r'^<(std::option::)?Option<.*> as FromResidual<', c) and c.endswith('::from_residual'):
            return EnumV('Option', 0, {})
        if 'as FromResidual<' in c and c.endswith('::from_residual'):
            return EnumV('Result', 1, {1: {0: Opaque('E', 'err')}})
        if re.match(r'^<.* as Into<anchor_lang::error::Error>>::into$', c) or re.match(r'^<anchor_lang::error::Error as From<.*>>::from$', c):
            return Opaque('anchor_lang::error::Error', 'err')
        if re.match(r'^<(Ref|RefMut)<.*> as Deref(Mut)?>::deref(_mut)?$', c):
            v = self.deref_val(args[0])
            if isinstance(v, StructV) and '__target' in v.fields: return v.fields['__target']
            return None
        m = re.match(r"^anchor_lang::prelude::AccountLoader::<'_, (.*)>::(load|load_mut|load_init)$", c)
        if m:
            ld = self.deref_val(args[0])
            if isinstance(ld, StructV):
                if '__acct' not in ld.fields:
                    ld.fields['__acct'] = Cell(self.ex.fresh(m.group(1), ld.name + '.acct'))
                    ld.fields['__acct'].name = ld.name + '.acct'
                d = z3.Int(self.ex.fresh_name('load_ok')); self.ex.assumptions.append(z3.And(d >= 0, d <= 1))
                st.events.append(('call', c, [ld.name]))
                return EnumV('Result', d, {0: {0: StructV('RefX', 'refx', {'__target': RefV(ld.fields['__acct'])}, lazy=False)}, 1: {0: Opaque('E', 'err')}})
        if re.match(r'^Option::<(.*)>::(unwrap|expect)$', c):
            o = args[0]
            some = (o.disc == 1) if not isinstance(o.disc, int) else z3.BoolVal(o.disc == 1)
            if not self.feasible(st.pc + [some]): raise PathEnd('panic: unwrap on None')
            if self.feasible(st.pc + [z3.Not(some)]): st.events.append(('may_panic', 'unwrap on None', z3.And(st.pc + [z3.Not(some)])))
            st.pc.append(some)
            return o.payload[1][0]
        if re.match(r'^<(\w+) as (Into|From)<(\w+)>>::(into|from)$', c):
            mm = re.match(r'^<(\w+) as (Into|From)<(\w+)>>::(into|from)$', c)
            if mm.group(1) == mm.group(3): return args[0]
            src_, dst_ = (mm.group(1), mm.group(3)) if mm.group(2) == 'Into' else (mm.group(3), mm.group(1))
            if src_ in INT_RANGES and dst_ in INT_RANGES and isinstance(args[0], IntV) and INT_RANGES[src_][0] >= INT_RANGES[dst_][0] and INT_RANGES[src_][1] <= INT_RANGES[dst_][1]:
                return IntV(args[0].e, dst_)
        if re.match(r'^Option::<std::result::Result<.*>>::transpose$', c) and isinstance(args[0], EnumV):
            o = args[0]
            inner = o.payload.get(1, {}).get(0)
            if isinstance(o.disc, int) and o.disc == 0:
                return EnumV('Result', 0, {0: {0: EnumV('Option', 0, {})}})
            if isinstance(inner, EnumV):
                od = zint_(o.disc); rd = zint_(inner.disc)
                d = z3.simplify(z3.If(od == 1, rd, 0))
                okv = inner.payload.get(0, {}).get(0)
                errv = inner.payload.get(1, {}).get(0, Opaque('E', 'err'))
                optd = z3.simplify(od)
                return EnumV('Result', d.as_long() if z3.is_int_value(d) else d,
                             {0: {0: EnumV('Option', optd.as_long() if z3.is_int_value(optd) else optd, {1: {0: okv}} if okv is not None else {})}, 1: {0: errv}})
        if re.match(r'^Option::<(.*)>::as_ref$', c) and isinstance(args[0], RefV):
            # Option<T> behind a reference -> Option<&T>: same discriminant, the payload is a reference into the original Some payload
            o = self.deref_val(args[0])
            if isinstance(o, EnumV) and (isinstance(o.disc, int) or z3.is_expr(o.disc)) and 0 in o.payload.get(1, {0: None}):
                if 1 in o.payload and 0 in o.payload[1]:
                    return EnumV('Option', o.disc, {1: {0: RefV(args[0].cell, args[0].path + (('v', 'Some'), ('f', 0, '?')))}})
                if isinstance(o.disc, int) and o.disc == 0:
                    return EnumV('Option', 0, {})
        if re.match(r'^Option::<(.*)>::unwrap_or$', c):
            o = args[0]
            if isinstance(o.disc, int):
                return o.payload[1][0] if o.disc == 1 else args[1]
            sv = o.payload[1][0]
            if isinstance(sv, BoolV): return BoolV(z3.If(o.disc == 1, sv.e, args[1].e))
            if isinstance(sv, IntV) and isinstance(args[1], IntV): return IntV(z3.If(o.disc == 1, sv.e, args[1].e), sv.ty)
            return ForkResult([(zint_(o.disc) == 1, lambda st_, a_: a_[0].payload[1][0]), (zint_(o.disc) == 0, lambda st_, a_: a_[1])])
        return None

    def closure_fn(self, generic, st=None, ret_ty=None):
        cm = re.search(r'\{closure@[^}]*\}', generic or '')
        if not cm: return None
        cands = []
        for mir in self.mirs:
            cands += mir.closures_multi.get(cm.group(0), [])
        if len(cands) <= 1: return cands[0] if cands else None
        # macro-generated closures share one span: narrow by enclosing function, then by return type
        if st is not None:
            cur = st.frames[-1]['fn'].name
            base = re.sub(r'::\{closure#\d+\}$', '', cur)
            c2 = [f for f in cands if f.name.startswith(cur + '::{closure#')] or [f for f in cands if f.name.startswith(base + '::{closure#')]
            if c2: cands = c2
        if len(cands) > 1 and ret_ty is not None:
            c3 = [f for f in cands if short(f.ret) == short(ret_ty)]
            if c3: cands = c3
        return cands[0] if len(cands) == 1 else None

    def fn_by_name(self, name):
        for mir in self.mirs:
            if name in mir.fns: return mir.fns[name]
        return None

    def iter_len(self, it):
        lv = self.deref_val(it.fields['__list'])
        if '__len' in lv.fields:
            le_ = z3.simplify(lv.fields['__len'].e)
            return le_.as_long() if z3.is_int_value(le_) else lv.fields['__len'].e      # a concrete length is a concrete trip count (not capped by LIST_K)
        m = re.match(r'^\[(.*); (.*)\]$', lv.ty.strip())
        if m:
            n = m.group(2).strip()
            if n.isdigit(): return int(n)
            cv = self.const_val(None, n)
            if isinstance(cv, IntV) and z3.is_int_value(z3.simplify(cv.e)): return z3.simplify(cv.e).as_long()
        return None

    def iter_elem_ref(self, it, i):
        lst = it.fields['__list']
        lv = self.deref_val(lst)
        if i not in lv.fields:
            em = re.match(r'^\[(.*); .*\]$', lv.ty.strip())
            elty = em.group(1) if em else lv.fields.get('__elemty', '?')
            lv.fields[i] = self.ex.fresh(elty, f'{lv.name}[{i}]')
        return RefV(lst.cell, lst.path + (('i', i),))

    def iter_search(self, st, kind, it, cf, env, by_ref, flt_arg=False):
        """position / find / any / all / filter-next / filter-count over a fixed-length array iterator"""
        n = self.iter_len(it)
        if n is None: return None
        i0 = it.fields['__idx']
        preds = []
        bound = n if isinstance(n, int) else LIST_K          # symbolic length: unrolled to LIST_K (fresh() assumes len <= LIST_K)
        for k in range(i0, bound):
            ref = self.iter_elem_ref(it, k)
            arg = RefV(Cell(ref)) if by_ref else ref
            pk = self.closure_bool(st, cf, [RefV(Cell(env)), arg])
            if not isinstance(n, int): pk = z3.And(k < n, pk)
            preds.append((k, pk))
        if not isinstance(n, int): n = bound
        if kind == 'any':
            it.fields['__idx'] = n; return BoolV(z3.Or([p for _, p in preds]) if preds else z3.BoolVal(False))
        if kind == 'all':
            it.fields['__idx'] = n; return BoolV(z3.And([p for _, p in preds]) if preds else z3.BoolVal(True))
        if kind == 'filter_count':
            it.fields['__idx'] = n
            return IntV(z3.Sum([z3.If(p, 1, 0) for _, p in preds]) if preds else z3.IntVal(0), 'usize')
        # first match: fork on its (concrete) index
        alts = []
        none_before = []
        for k, p in preds:
            cond = z3.And(none_before + [p]) if none_before else p
            def mk(k):
                def f(ns, a2):
                    it2 = self.deref_val(a2[0])
                    if flt_arg: it2 = it2.fields['__iter']
                    it2.fields['__idx'] = k + 1
                    if kind == 'position': return EnumV('Option', 1, {1: {0: IntV(z3.IntVal(k), 'usize')}})
                    return EnumV('Option', 1, {1: {0: self.iter_elem_ref(it2, k)}})
                return f
            alts.append((cond, mk(k)))
            none_before = none_before + [z3.Not(p)]
        def fnone(ns, a2):
            it2 = self.deref_val(a2[0])
            if flt_arg: it2 = it2.fields['__iter']
            it2.fields['__idx'] = n
            return EnumV('Option', 0, {})
        alts.append((z3.And(none_before) if none_before else z3.BoolVal(True), fnone))
        return ForkResult(alts)

    def deref_val(self, v):
        while isinstance(v, RefV):
            v = self.get_path(v.cell.val, v.path)
        return v

    def is_opaque(self, callee):
        return any(p.search(callee) for p in self.opaque_patterns)

    # ---------- running
    def run_fn(self, fn, args, pc=None):
        st = State(); st.pc = list(pc or [])
        st.roots = list(args); st.tickets = []
        self.push_frame(st, fn, args, None, None)
        return self.explore(st)

    def call_pure(self, st, fn, args):
        """run a (side-effect free) callee such as an iterator closure to completion from the current path;
        returns [(extra_pc_conds, ret_value)] over its returned paths"""
        sub = State(); sub.pc = list(st.pc); sub.roots = []; sub.tickets = []; sub.events = []
        self.push_frame(sub, fn, args, None, None)
        saved = self.merge; self.merge = False
        try:
            res = self.explore(sub)
        finally:
            self.merge = saved
        out = []
        L = len(st.pc)
        for r in res:
            if r['status'] != 'return':
                st.events.append(('may_panic', 'in closure ' + fn.name[-40:] + ': ' + r['status'][:40])); continue
            out.append((r['pc'][L:], r['ret']))
            if r['events']:
                # opaque calls made inside the closure are part of the trace of the enclosing path, under the closure path's own condition
                st.events.append(('pure-branch-events', list(r['events']), z3.And(r['pc'][L:]) if len(r['pc']) > L else z3.BoolVal(True)))
        return out

    def closure_bool(self, st, fn, args):
        """z3 Bool: value of a bool-returning pure closure on args"""
        alts = []
        for extra, ret in self.call_pure(st, fn, args):
            c = z3.And(extra) if extra else z3.BoolVal(True)
            alts.append(z3.And(c, ret.e))
        return z3.simplify(z3.Or(alts)) if alts else z3.BoolVal(False)

    def explore(self, st):
        work = [st]
        out = []
        def end_state(st):
            for T in getattr(st, 'tickets', []): T['live'] -= 1
        def try_resolve(T):
            if T['live'] > 0 and len(T['parked']) == T['live']:
                parked = T['parked']; T['parked'] = []
                merged = None
                if len(parked) >= 2:
                    try:
                        merged = self.merge_states([x.clone() for x in parked], T['L']); self.stats['merges'] += 1
                    except Unmergeable as e:
                        self.stats['merge_fail'] += 1
                        rs = self.stats.setdefault('merge_fail_reasons', {}); rs[str(e)[:60]] = rs.get(str(e)[:60], 0) + 1
                newstates = [merged] if merged is not None else parked
                for ns in newstates: ns.tickets = [x for x in ns.tickets if x is not T]
                delta = len(newstates) - len(parked)
                for X in newstates[0].tickets: X['live'] += delta
                T['live'] = 0
                work.extend(newstates)
        while work:
            if len(out) + len(work) > self.max_paths:
                from collections import Counter
                where = Counter(f"{x.frames[-1]['fn'].name[-60:]}:bb{x.frames[-1]['bb']}" for x in work if x.frames)
                raise Exception('too many paths; pending states at ' + str(where.most_common(6)) + ' finished: ' + str(Counter(o['status'][:40] for o in out).most_common(4)))
            st = work.pop()
            try:
                forks = self.step_until_fork(st)
            except PathEnd as e:
                out.append({'pc': st.pc, 'ret': None, 'status': str(e), 'events': st.events, 'state': st})
                tks = list(getattr(st, 'tickets', [])); end_state(st)
                for T in reversed(tks): try_resolve(T)
                continue
            if forks is None:
                out.append({'pc': st.pc, 'ret': st.retval, 'status': 'return', 'events': st.events, 'state': st, 'roots': st.roots})
                tks = list(getattr(st, 'tickets', [])); end_state(st)
                for T in reversed(tks): try_resolve(T)
            elif forks == 'parked':
                T = st.tickets[-1]; T['parked'].append(st); try_resolve(T)
            else:
                # st is replaced by len(forks) children
                for T in getattr(st, 'tickets', []): T['live'] += len(forks) - 1
                newT = forks[0].tickets[-1] if forks[0].tickets and (not st.tickets or forks[0].tickets[-1] is not st.tickets[-1]) else None
                if newT is not None: newT['live'] = len(forks)
                work.extend(forks)
        return out

    # ---- state merging
    def merge_states(self, states, L):
        cur = states[0]; ccond = z3.And(cur.pc[L:]) if len(cur.pc) > L else z3.BoolVal(True)
        for nxt in states[1:]:
            ncond = z3.And(nxt.pc[L:]) if len(nxt.pc) > L else z3.BoolVal(True)
            if len(cur.frames) != len(nxt.frames): raise Unmergeable('frames')
            for fa, fb in zip(cur.frames, nxt.frames):
                if fa['fn'] is not fb['fn'] or fa['bb'] != fb['bb'] or fa['idx'] != fb['idx']: raise Unmergeable('pc')
            # pass 1: pair up corresponding objects of the two states (b-object id -> a-object), no mutation
            self._pair = {}; seen = set()
            for fa, fb in zip(cur.frames, nxt.frames):
                for k in set(fa['locals']) & set(fb['locals']):
                    self.pair_walk(fa['locals'][k], fb['locals'][k], seen)
            for ra, rb in zip(cur.roots, nxt.roots):
                self.pair_walk(ra, rb, seen)
            # pass 2: merge; anything adopted from nxt is translated into cur's object graph
            memo = {}; self._tr_seen = {}
            for fa, fb in zip(cur.frames, nxt.frames):
                for k in set(fa['locals']) | set(fb['locals']):
                    ca = fa['locals'].get(k); cb = fb['locals'].get(k)
                    if ca is None: fa['locals'][k] = self.translate(cb); continue
                    if cb is None: continue
                    self.merge_cell(ca, cb, ncond, memo)
            for ra, rb in zip(cur.roots, nxt.roots):
                self.merge_val(ra, rb, ncond, memo)
            if [e[:2] for e in cur.events] != [e[:2] for e in nxt.events]:
                cur.events = cur.events + [('merged-branch-events', [e for e in nxt.events[len(cur.events):]])]
            ccond = z3.Or(ccond, ncond)
            cur.pc = cur.pc[:L] + [ccond]
        return cur

    def pair_walk(self, a, b, seen):
        stack = [(a, b)]
        while stack:
            a, b = stack.pop()
            if a is None or b is None: continue
            key = (id(a), id(b))
            if key in seen: continue
            seen.add(key)
            if isinstance(a, Cell) and isinstance(b, Cell):
                self._pair[id(b)] = a; stack.append((a.val, b.val))
            elif isinstance(a, RefV) and isinstance(b, RefV):
                stack.append((a.cell, b.cell))
            elif isinstance(a, StructV) and isinstance(b, StructV):
                self._pair[id(b)] = a
                for k in set(a.fields) & set(b.fields):
                    stack.append((a.fields[k], b.fields[k]))
            elif isinstance(a, EnumV) and isinstance(b, EnumV):
                for v in set(a.payload) & set(b.payload):
                    pa, pb = a.payload[v], b.payload[v]
                    for k in set(pa) & set(pb): stack.append((pa[k], pb[k]))

    def translate(self, x):
        """value taken over from the other state: redirect references to objects that have a counterpart in cur"""
        if x is None or isinstance(x, (IntV, BoolV, Opaque, int, str, tuple, Poison)): return x
        if id(x) in self._pair: return self._pair[id(x)]
        if id(x) in self._tr_seen: return self._tr_seen[id(x)]
        self._tr_seen[id(x)] = x
        if isinstance(x, Cell):
            x.val = self.translate(x.val); return x
        if isinstance(x, RefV):
            r = RefV(self.translate(x.cell), x.path); self._tr_seen[id(x)] = r; return r
        if isinstance(x, StructV):
            for k in list(x.fields): x.fields[k] = self.translate(x.fields[k])
            return x
        if isinstance(x, EnumV):
            for v in x.payload:
                if isinstance(x.payload[v], dict):
                    for k in list(x.payload[v]): x.payload[v][k] = self.translate(x.payload[v][k])
            return x
        return x

    def init_like(self, parent, k, other):
        """the untouched *initial* value of field/element k of the lazily created struct `parent`, shaped like `other`"""
        name = f'{parent.name}[{k}]' if parent.ty.strip().startswith('[') else f'{parent.name}.{k}'
        if isinstance(other, IntV):
            if other.ty == 'Pubkey' or other.ty == 'bytes': return IntV(z3.Int(name), other.ty)
            return self.ex.fresh(other.ty if other.ty != I80 else I80, name)
        if isinstance(other, BoolV):
            return BoolV(z3.Bool(name))
        if isinstance(other, StructV):
            if other.ty in ('tuple', 'array', '?', 'zst') or not other.ty: raise Unmergeable('init of anonymous aggregate')
            return StructV(other.ty, name, {}, lazy=True)
        if isinstance(other, EnumV):
            ty = re.sub(r'::<', '<', str(other.ty)); ty = re.sub(r'^(std|core)::(option|result)::', '', ty)
            if ty in ENUMS and ty not in ('Option', 'Result'):
                return self.ex.fresh(ty, name)
            if re.match(r'^Option<.+>$', ty):
                return self.ex.fresh(ty, name)
            raise Unmergeable('init of enum ' + ty)
        raise Unmergeable('init of ' + type(other).__name__)

    def merge_cell(self, ca, cb, cond, memo):
        key = (id(ca), id(cb))
        if key in memo: return
        memo[key] = True
        if ca is cb: return
        ca.val = self.merge_val(ca.val, cb.val, cond, memo)

    def merge_val(self, a, b, cond, memo):
        if a is None: return self.translate(b)
        if b is None: return a
        if isinstance(a, IntV) and isinstance(b, IntV):
            if a.e.eq(b.e): return a
            return IntV(z3.If(cond, b.e, a.e), a.ty)
        if isinstance(a, BoolV) and isinstance(b, BoolV):
            if a.e.eq(b.e): return a
            return BoolV(z3.If(cond, b.e, a.e))
        if isinstance(a, Opaque) and isinstance(b, Opaque):
            return a
        if isinstance(a, RefV) and isinstance(b, RefV):
            if a.path != b.path: raise Unmergeable('ref path')
            if a.cell is not b.cell and self._pair.get(id(b.cell)) is not a.cell: raise Unmergeable('refs to different objects')
            self.merge_cell(a.cell, b.cell, cond, memo)
            return a
        if isinstance(a, EnumV) and isinstance(b, EnumV):
            da = z3.IntVal(a.disc) if isinstance(a.disc, int) else a.disc
            db = z3.IntVal(b.disc) if isinstance(b.disc, int) else b.disc
            d = a.disc if da.eq(db) else z3.If(cond, db, da)
            pay = {}
            for v in set(a.payload) | set(b.payload):
                pa = a.payload.get(v); pb = b.payload.get(v)
                if pa is None or pb is None:
                    pay[v] = pa if pb is None else {k: self.translate(x) for k, x in pb.items()}; continue
                pay[v] = {}
                for k in set(pa) | set(pb):
                    xa, xb = pa.get(k), pb.get(k)
                    if xa is None: pay[v][k] = self.translate(xb)
                    elif xb is None: pay[v][k] = xa
                    else: pay[v][k] = self.merge_val(xa, xb, cond, memo)
            return EnumV(a.ty, d, pay)
        if isinstance(a, StructV) and isinstance(b, StructV):
            mk = (id(a), id(b))
            if mk in memo: return a
            memo[mk] = True
            if a is b: return a
            if a.lazy and b.lazy and a.name != b.name:
                # two lazily materialised symbolic structs with different identities: their untouched fields differ
                raise Unmergeable('lazy structs of different identity')
            for k in set(a.fields) | set(b.fields):
                va = a.fields.get(k); vb = b.fields.get(k)
                if isinstance(va, (int, str)) or isinstance(vb, (int, str)):
                    if va != vb:
                        if k == '__idx': a.fields[k] = Poison('iterator position differs between merged paths'); continue
                        raise Unmergeable('meta field ' + str(k))
                    continue
                if isinstance(va, Poison) or isinstance(vb, Poison):
                    a.fields[k] = va if isinstance(va, Poison) else vb; continue
                if va is None or vb is None:
                    other = vb if va is None else va
                    if isinstance(other, Cell) or not isinstance(k, int):
                        # engine-internal cells (__acct, __pointee ...) and named aggregate fields: exist on one side only
                        if va is None: a.fields[k] = self.translate(other)
                        continue
                    if not a.lazy:
                        if va is None: a.fields[k] = self.translate(other)
                        continue
                    init = self.init_like(a, k, other)
                    va, vb = (init, vb) if va is None else (va, init)
                if isinstance(va, Cell) and isinstance(vb, Cell):
                    self.merge_cell(va, vb, cond, memo); continue
                a.fields[k] = self.merge_val(va, vb, cond, memo)
            return a
        if isinstance(a, Opaque) or isinstance(b, Opaque):
            raise Unmergeable('opaque vs value')
        if type(a) != type(b): raise Unmergeable(f'{type(a).__name__} vs {type(b).__name__}')
        return a

    def push_frame(self, st, fn, args, ret_place, ret_bb):
        fr = {'fn': fn, 'locals': {}, 'bb': 'bb0', 'idx': 0, 'ret_place': ret_place, 'ret_bb': ret_bb}
        for (pname, pty), a in zip(fn.params, args):
            fr['locals'][pname] = Cell(a)
        st.frames.append(fr)

    def step_until_fork(self, st):
        while True:
            fr = st.frames[-1]; fn = fr['fn']
            tk = getattr(st, 'tickets', None)
            if tk and fr['idx'] == 0:
                T = tk[-1]
                if len(st.frames) == T['depth'] and fn is T['fn'] and fr['bb'] == T['J']:
                    return 'parked'
            stmts = fn.blocks[fr['bb']]
            s = stmts[fr['idx']]
            fr['bb_cur'] = fr['bb']
            fr['idx'] += 1
            try:
                r = self.exec_stmt(st, s)
            except PathEnd:
                raise
            except Exception:
                print("FAILED STMT:", fn.name[-60:], fr["bb"], s[:300]); raise
            if r == 'done': return None
            if isinstance(r, list): return r

    def goto(self, st, bb):
        fr = st.frames[-1]; fr['bb'] = bb; fr['idx'] = 0
        vc = fr.setdefault('visits', {}); vc[bb] = vc.get(bb, 0) + 1
        if vc[bb] > getattr(self, 'loop_bound', 80):
            raise PathEnd('loop bound exceeded in ' + fr['fn'].name[-60:] + ' ' + bb)

    def assign(self, st, place_s, val):
        c, p = self.resolve(st, self.parse_place(place_s))
        if p and c.val is None:
            c.val = StructV('?', self.ex.fresh_name('tmp'), {}, lazy=True)
        self.set_path(c, p, val)

    def exec_stmt(self, st, s):
        fr = st.frames[-1]; fn = fr['fn']
        s = s.rstrip(';')
        if s.startswith(('StorageLive', 'StorageDead', 'ConstEvalCounter', 'nop', 'FakeRead', 'PlaceMention', 'Retag', 'Coverage', 'AscribeUserType')):
            return
        if s == 'return':
            v = fr['locals'].get('_0', Cell(StructV('()', 'unit', {}, lazy=False))).val
            st.frames.pop()
            if not st.frames:
                st.retval = v; return 'done'
            if fr['ret_place'] is not None:
                self.assign(st, fr['ret_place'], v)
            self.goto(st, fr['ret_bb']); return
        if s == 'unreachable': raise PathEnd('unreachable')
        if s.startswith('resume'): raise PathEnd('unwind')
        m = re.match(r'^goto -> (bb\d+)$', s)
        if m: self.goto(st, m.group(1)); return
        m = re.match(r'^drop\((.*)\) -> \[return: (bb\d+).*\]$', s)
        if m: self.goto(st, m.group(2)); return
        m = re.match(r'^assert\((!?)(.*), "(.*)"(, .*)?\) -> \[success: (bb\d+).*\]$', s)
        if m:
            v = self.operand(st, m.group(2))
            cond = z3.Not(v.e) if m.group(1) else v.e
            if self.feasible(st.pc + [z3.Not(cond)]):
                st.events.append(('may_panic', 'assert ' + m.group(3)[:40], z3.And(st.pc + [z3.Not(cond)])))
            if not self.feasible(st.pc + [cond]): raise PathEnd('panic: ' + m.group(3)[:40])
            st.pc.append(cond); self.goto(st, m.group(5)); return
        m = re.match(r'^switchInt\((.*)\) -> \[(.*)\]$', s)
        if m:
            v = self.operand(st, m.group(1))
            targets = []
            for part in split_top(m.group(2), ','):
                k, bb = part.strip().split(': ')
                targets.append((k, bb))
            forks = []
            others = []
            for k, bb in targets:
                if k == 'otherwise':
                    cond = z3.And(others) if others else z3.BoolVal(True)
                else:
                    kv = int(k)
                    if isinstance(v, BoolV):
                        cond = v.e if kv != 0 else z3.Not(v.e)
                        others.append(z3.Not(cond))
                    else:
                        cond = v.e == kv; others.append(v.e != kv)
                cond = z3.simplify(cond)
                if z3.is_false(cond): continue
                if z3.is_true(cond) or self.feasible(st.pc + [cond]):
                    forks.append((cond, bb))
            if not forks: raise PathEnd('infeasible')
            if len(forks) == 1:
                st.pc.append(forks[0][0]); self.goto(st, forks[0][1]); return
            self.stats['forks'] += 1
            res = []
            ticket = None
            if self.merge:
                J = compute_ipdom(fn).get(fr['bb_cur'])
                if J and J != 'EXIT':
                    ticket = {'id': next(self.ticket_ids), 'depth': len(st.frames), 'fn': fn, 'J': J, 'L': len(st.pc), 'parked': [], 'live': 0}
            for cond, bb in forks:
                ns = st.clone(); ns.pc.append(cond); self.goto(ns, bb)
                if ticket is not None: ns.tickets = list(getattr(st, 'tickets', [])) + [ticket]
                res.append(ns)
            return res
        # call
        m = re.match(r'^(.*?) = (.*)\) -> \[return: (bb\d+), unwind.*\]$', s)
        if m:
            body = m.group(2)
            # find the '(' that opens the argument list: the one matching the final ')'
            depth = 0; k = None
            for i in range(len(body) - 1, -1, -1):
                ch = body[i]
                if ch == ')': depth += 1
                elif ch == '(':
                    if depth == 0: k = i; break
                    depth -= 1
            if k is not None:
                callee = body[:k]; argstr = body[k + 1:]
                if not re.match(r'^(Add|Sub|Mul|Div|Rem|Eq|Ne|Lt|Le|Gt|Ge|BitAnd|BitOr|BitXor|Shl|Shr|Not|Neg|discriminant|\w+WithOverflow)$', callee):
                    return self.do_call(st, m.group(1), callee, argstr, m.group(3))
        m = re.match(r'^(.*?) = (.*)\((.*)\) -> (unwind.*|bb\d+|\[unwind.*\])$', s)
        if m and ' -> ' in s and 'return:' not in s:
            raise PathEnd('diverging call ' + m.group(2)[:60] + ' in ' + fn.name[-70:])
        m = re.match(r'^(\S.*?) = (.*)$', s)
        if m:
            dest_ty = None
            dm = re.match(r'^(_\d+)$', m.group(1))
            if dm: dest_ty = fn.locals.get(dm.group(1))
            im = re.search(r'\[(_\d+)\]', m.group(1))
            if im and im.group(1) in fr['locals'] and isinstance(fr['locals'][im.group(1)].val, IntV) and not z3.is_int_value(z3.simplify(fr['locals'][im.group(1)].val.e)):
                # store through a SYMBOLIC index (e.g. `balances[idx] = new`): fork on the feasible concrete indices (the bounds assertion before the store keeps them few)
                iv_ = fr['locals'][im.group(1)].val; forks = []
                for k_ in range(64):
                    if not self.feasible(st.pc + [iv_.e == k_]): continue
                    ns = st.clone(); ns.pc.append(iv_.e == k_)
                    ns.frames[-1]['locals'][im.group(1)].val = IntV(z3.IntVal(k_), iv_.ty)
                    self.assign(ns, m.group(1), self.rvalue(ns, m.group(2), dest_ty)); forks.append(ns)
                if not forks: raise PathEnd('infeasible')
                self.stats['forks'] += 1
                return forks
            val = self.rvalue(st, m.group(2), dest_ty)
            self.assign(st, m.group(1), val); return
        raise Exception('stmt? ' + s)

    def do_call(self, st, dest, callee, argstr, retbb):
        fr = st.frames[-1]; fn = fr['fn']
        args = [self.operand(st, a) for a in split_top(argstr, ',') if a.strip()]
        v = None
        _dm = re.match(r'^(_\d+)$', dest)
        self.cur_ret_ty = fn.ret if dest == '_0' else (fn.locals.get(_dm.group(1)) if _dm else None)     # for summaries that build a typed result
        for rx, sf in getattr(self, 'summaries', []):
            if rx.search(callee):
                v = sf(self, st, callee, args); break
        if v is None:
            v = self.model_call(st, callee, args)
        if isinstance(v, ForkResult):
            feas = [(c, f) for c, f in v.alts if (z3.is_true(z3.simplify(c)) or (not z3.is_false(z3.simplify(c)) and self.feasible(st.pc + [c])))]
            if not feas: raise PathEnd('infeasible')
            argstrs = [a for a in split_top(argstr, ',') if a.strip()]
            if len(feas) == 1:
                st.pc.append(feas[0][0]); val = feas[0][1](st, args)
                self.assign(st, dest, val); self.goto(st, retbb); return
            self.stats['forks'] += 1
            forks = []
            for c, f in feas:
                ns = st.clone(); ns.pc.append(c)
                a2 = [self.operand(ns, a) for a in argstrs]
                val = f(ns, a2)
                self.assign(ns, dest, val); self.goto(ns, retbb)
                forks.append(ns)
            return forks
        am_ = re.match(r'^std::collections::btree_map::Entry::<.*>::and_modify::<(\{closure@[^}]*\})>$', callee)
        if v is None and am_ and isinstance(args[0], StructV) and '__entry' in args[0].fields:
            ent = args[0]
            self.assign(st, dest, ent)
            if ent.fields['__idx'] is None:
                self.goto(st, retbb); return
            cf = self.closure_fn(am_.group(1), st, None)
            if cf is None or not cf.blocks: raise Exception('and_modify: closure body not found ' + callee)
            mp = self.deref_val(ent.fields['__mapref'])
            fr['bb'] = None
            self.push_frame(st, cf, [args[1], RefV(mp.fields['__cells'][ent.fields['__idx']])], None, retbb)
            return
        um = re.match(r'^Option::<.*>::unwrap_or_else::<(\{closure@[^}]*\})>$', callee)
        if v is None and um and isinstance(args[0], EnumV):
            # Some(x) => x, None => the closure's value (its MIR body is executed); a symbolic discriminant forks the path
            o = args[0]; dm_ = re.match(r'^(_\d+)$', dest)
            cf = self.closure_fn(um.group(1), st, fn.locals.get(dm_.group(1)) if dm_ else None)
            if cf is not None and cf.blocks and 1 in o.payload and 0 in o.payload[1]:
                d = zint_(o.disc)
                some_ok = self.feasible(st.pc + [d == 1]); none_ok = self.feasible(st.pc + [d == 0])
                argstrs = [a for a in split_top(argstr, ',') if a.strip()]
                outs = []
                if some_ok and none_ok: self.stats['forks'] += 1
                if some_ok:
                    ns = st.clone() if none_ok else st
                    ns.pc.append(d == 1); a2 = [self.operand(ns, a) for a in argstrs]
                    self.assign(ns, dest, a2[0].payload[1][0]); self.goto(ns, retbb); outs.append(ns)
                if none_ok:
                    ns = st
                    ns.pc.append(d == 0); a2 = [self.operand(ns, a) for a in argstrs]
                    env = a2[1] if len(a2) > 1 else StructV('closure', 'env', {}, lazy=False)
                    ns.frames[-1]['bb'] = None
                    self.push_frame(ns, cf, [env], dest, retbb); outs.append(ns)
                if not outs: raise PathEnd('infeasible')
                return outs if len(outs) > 1 else None
        um = re.match(r'^Option::<.*>::map_or::<.*?(\{closure@[^}]*\})>$', callee)
        if v is None and um and isinstance(args[0], EnumV):
            # None => the default, Some(x) => closure(x) (its MIR body is executed); a symbolic discriminant forks the path
            o = args[0]; dm_ = re.match(r'^(_\d+)$', dest)
            cf = self.closure_fn(um.group(1), st, fn.locals.get(dm_.group(1)) if dm_ else (fn.ret if dest == '_0' else None))
            if cf is not None and cf.blocks and (not isinstance(o.disc, int) or o.disc == 0 or (1 in o.payload and 0 in o.payload[1])):
                d = zint_(o.disc)
                some_ok = self.feasible(st.pc + [d == 1]) and 1 in o.payload and 0 in o.payload[1]; none_ok = self.feasible(st.pc + [d == 0])
                argstrs = [a for a in split_top(argstr, ',') if a.strip()]
                outs = []
                if some_ok and none_ok: self.stats['forks'] += 1
                if none_ok:
                    ns = st.clone() if some_ok else st
                    ns.pc.append(d == 0); a2 = [self.operand(ns, a) for a in argstrs]
                    self.assign(ns, dest, a2[1]); self.goto(ns, retbb); outs.append(ns)
                if some_ok:
                    ns = st
                    ns.pc.append(d == 1); a2 = [self.operand(ns, a) for a in argstrs]
                    env = a2[2] if len(a2) > 2 else StructV('closure', 'env', {}, lazy=False)
                    ns.frames[-1]['bb'] = None
                    self.push_frame(ns, cf, [env, a2[0].payload[1][0]], dest, retbb); outs.append(ns)
                if not outs: raise PathEnd('infeasible')
                return outs if len(outs) > 1 else None
        cm = re.match(r'^<(\{closure@[^}]*\}) as (Fn|FnMut|FnOnce)<\(.*\)>>::(call|call_mut|call_once)$', callee)
        if v is None and cm:
            dm_ = re.match(r'^(_\d+)$', dest)
            cf = self.closure_fn(cm.group(1), st, fn.locals.get(dm_.group(1)) if dm_ else (fn.ret if dest == '_0' else None))
            if cf is not None and cf.blocks:
                env = args[0]
                a0 = env if isinstance(env, RefV) or cf.params[0][1].startswith('{closure') else RefV(Cell(env))
                extra = []
                if len(args) > 1 and isinstance(args[1], StructV) and args[1].ty == 'tuple':
                    extra = [args[1].fields[i] for i in sorted(k for k in args[1].fields if isinstance(k, int))]
                fr['bb'] = None
                self.push_frame(st, cf, [a0] + extra, dest, retbb)
                return
        if v is None and not self.is_opaque(callee):
            target = self.find_fn(callee)
            if target is not None and target.blocks:
                self.stats['inlined'][callee] = self.stats['inlined'].get(callee, 0) + 1
                fr['bb'] = None
                self.push_frame(st, target, args, dest, retbb)
                return
        if v is None:
            self.stats['opaque_calls'][callee[:90]] = self.stats['opaque_calls'].get(callee[:90], 0) + 1
            dm = re.match(r'^(_\d+)$', dest)
            ty = fn.locals.get(dm.group(1)) if dm else None
            if dest == '_0': ty = fn.ret
            v = self.ex.fresh(ty, self.ex.fresh_name('ret_' + re.sub(r'\W+', '_', callee)[-30:])) if ty else Opaque('?', callee)
            if isinstance(v, BoolV) and not self.is_opaque(callee) and not any(re.search(c_, callee) and re.search(f_, fn.name) for c_, f_ in FREE_STD_PREDICATES) and re.search(r'^(core|std|alloc)::|^<.* as (core::|std::)?(iter::)?(Iterator|PartialEq|PartialOrd|Ord)[<>]|slice::<impl|^(Option|Result|Vec)::<|str>::', callee):
                # a PREDICATE of the standard library that the encoder has no model for: its truth value is arbitrary here. A counterexample that hinges on it is
                # a gap of the encoder, not a finding (see Ob.prove): remember the symbol
                if not hasattr(self.ex, 'unmodelled_preds'): self.ex.unmodelled_preds = {}
                for n_ in free_names(v.e): self.ex.unmodelled_preds[n_] = callee
            if os.environ.get('MIRSYM_DEBUG_UNMODELLED') and not self.is_opaque(callee) and re.search(r'^(core|std|alloc)::|^<.* as (core::|std::)?(iter::)?(Iterator|PartialEq|PartialOrd|Ord)[<>]|slice::<impl|^(Option|Result|Vec)::<|str>::', callee):
                with open(os.environ['MIRSYM_DEBUG_UNMODELLED'], 'a') as fh_: fh_.write(f'{type(v).__name__}\t{ty}\t{callee}\t{fn.name[-60:]}\n')
            # an opaque callee may write through every `&mut` argument: havoc the pointees (over-approximation)
            hav = []
            for astr, aval in zip([a for a in split_top(argstr, ',') if a.strip()], args):
                am = re.match(r'^\s*(?:copy|move)\s+(_\d+)\s*$', astr)
                aty = fn.locals.get(am.group(1)) if am else None
                if aty is None and am:
                    aty = dict(fn.params).get(am.group(1))
                if aty and re.match(r"^&('\w+ )?mut ", aty) and isinstance(aval, RefV) and getattr(self, 'havoc', True):
                    inner = re.sub(r"^&('\w+ )?mut ", '', aty)
                    try:
                        nv = self.ex.fresh(inner, self.ex.fresh_name('havoc_' + re.sub(r'\W+', '_', inner)[-20:]))
                        self.set_path(aval.cell, aval.path, nv); hav.append(am.group(1))
                    except Exception:
                        pass
            st.events.append(('call', callee, args, v, hav))
        self.assign(st, dest, v)
        self.goto(st, retbb)


def free_names(e):
    out = set(); seen = set(); stack = [e]
    while stack:
        x = stack.pop()
        if x.get_id() in seen: continue
        seen.add(x.get_id())
        if z3.is_const(x) and x.decl().kind() == z3.Z3_OP_UNINTERPRETED: out.add(x.decl().name())
        else: stack.extend(x.children())
    return out


# Unmodelled std predicates whose arguments are raw account bytes that nothing else in the encoding describes: an arbitrary Boolean IS their exact abstraction, so a
# counterexample may mention them (every other unmodelled std predicate makes a counterexample undecided, see Ob.prove). (callee regex, enclosing function regex)
FREE_STD_PREDICATES = [
    (r'^<&\[u8\] as PartialEq>::ne$', r'load_price_update_v2_checked$'),                   # Pyth account discriminator test on the raw data
    (r'^<\[u8\] as PartialEq<\[u8; 8\]>>::ne$', r'parse_swb_ignore_alignment$'),          # Switchboard account discriminator test on the raw data
    (r'^<\[u8; 32\] as PartialEq>::eq$', r'price_update\.rs[^>]*>::get_price_unchecked$'),  # Pyth feed-id comparison inside the SDK (the feed id is not modelled)
    (r'^<Skip<std::slice::Iter<\'_, MinimalObligationCollateral>> as Iterator>::all::<', r'kamino/(deposit|withdraw)\.rs[^>]*>::try_accounts$'),   # "the obligation's other collateral slots are unused"
]


class Unmergeable(Exception):
    pass

class Poison:
    """placeholder for engine-internal state that became ambiguous in a merge; any use raises (never silently wrong)"""
    def __init__(self, why): self.why = why
    def _boom(self, *a, **k): raise Exception('use of poisoned engine state: ' + self.why)
    __ge__ = __gt__ = __le__ = __lt__ = __add__ = __radd__ = __index__ = __int__ = __hash__ = _boom

class ForkResult:
    """returned by a library model that needs to split the path: alts = [(cond, fn(state, args) -> value)]"""
    def __init__(self, alts): self.alts = alts

def block_succs(stmts):
    t = stmts[-1].rstrip(';') if stmts else ''
    m = re.match(r'^goto -> (bb\d+)$', t)
    if m: return [m.group(1)]
    m = re.match(r'^switchInt\(.*\) -> \[(.*)\]$', t)
    if m: return [p.strip().split(': ')[1] for p in split_top(m.group(1), ',')]
    m = re.search(r'-> \[(return|success): (bb\d+)', t)
    if m: return [m.group(2)]
    return []   # return / unreachable / resume / diverging call

def compute_ipdom(fn):
    if hasattr(fn, '_ipdom'): return fn._ipdom
    nodes = list(fn.blocks.keys()); EXIT = 'EXIT'
    succ = {}
    for b in nodes:
        ss = block_succs(fn.blocks[b])
        last = fn.blocks[b][-1].rstrip(';') if fn.blocks[b] else ''
        if not ss and last == 'return': ss = [EXIT]
        succ[b] = ss      # dead ends (unreachable / resume / diverging call) have no successors and stay at top
    succ[EXIT] = []
    allb = nodes + [EXIT]
    pdom = {b: set(allb) for b in allb}; pdom[EXIT] = {EXIT}
    changed = True
    while changed:
        changed = False
        for b in nodes:
            ss = [x for x in succ[b] if x in pdom]
            if not ss: continue
            new = set.intersection(*[pdom[x] for x in ss]) | {b}
            if new != pdom[b]: pdom[b] = new; changed = True
    ip = {}
    for b in nodes:
        cands = pdom[b] - {b}
        best = None
        for c in cands:
            if all((d == c) or (d in pdom[c]) for d in cands):   # c is the closest: every other pdom of b also pdoms c
                best = c; break
        ip[b] = best
    fn._ipdom = ip
    return ip

_BYTES = {}
def intern_bytes(label):
    """constant byte strings (seed prefixes, discriminators) are only ever compared: intern them as distinct integers"""
    if label not in _BYTES:
        import hashlib
        _BYTES[label] = 1000 + int(hashlib.sha1(label.encode()).hexdigest()[:10], 16)     # stable across runs
    return _BYTES[label]
_I = z3.IntSort()
SEED_KEY = z3.Function('seed_of_key', _I, _I)
SEED_BUMP = z3.Function('seed_of_bump', _I, _I)
PDA_CREATE = z3.Function('pda_create', _I, _I, _I, _I, _I, _I, _I)
PDA_FIND = z3.Function('pda_find', _I, _I, _I, _I, _I, _I)
PDA_BUMP = z3.Function('pda_find_bump', _I, _I, _I, _I, _I, _I)
def zint_(x):
    return z3.IntVal(x) if isinstance(x, int) else x
def disc_eq(v, k):
    d = v.disc
    return z3.BoolVal(d == k) if isinstance(d, int) else (d == k)
def fdiv(a, b):  # floor division by positive constant/int (z3 int div is floor for positive divisor)
    return a / b
def abs_(a): return z3.If(a >= 0, a, -a)
def tdiv(a, b):  # truncating division
    q = abs_(a) / abs_(b)
    return z3.If((a >= 0) == (b > 0), q, -q)
