"""Second engine: run Kani proof harnesses of /verif/kani (thorough tier) and fold their verdicts into the report.

A harness that verifies adds one discharged obligation (with its cover! results as vacuity witnesses).
A harness whose verification FAILS is a disagreement between the two engines: the obligation is UNDECIDED (exit 2) -
violations are only ever reported by the MIR engine after native replay.  A harness that cannot be built or run
(tool error, timeout, out of memory) is recorded as a note and does not change the exit code: the second engine is
an extra, the claim rests on the first."""
import os, re, subprocess, time, shutil

KANI_DIR = '/verif/kani'
TARGET = '/verif/.cache/kani-target'


def _summary(h, **kw):
    base = {'oid': h['oid'], 'desc': h['desc'], 'functions': h.get('functions', []), 'bounds': h.get('bounds', ''), 'queries': 0, 'unsat': 0, 'sat': 0, 'unknown': 0,
            'witness_sat': 0, 'witness_fail': 0, 'paths': 0, 'notes': [], 'errors': [], 'solver_s': 0.0, 'max_query_s': 0.0, 'cex': [], 'samples': []}
    base.update(kw)
    return base


def run(pid, harnesses, tier, rep):
    out = []
    if not harnesses: return out
    if not shutil.which('cargo-kani') and not shutil.which('kani'):
        rep.kani.append({'status': 'kani not installed: second engine skipped'}); return out
    shutil.copy('/repo/Cargo.lock', KANI_DIR + '/Cargo.lock')
    env = dict(os.environ, CARGO_NET_OFFLINE='true', CARGO_TARGET_DIR=TARGET)
    env.pop('RUSTUP_TOOLCHAIN', None)
    for h in harnesses:
        t0 = time.time()
        cmd = ['cargo', 'kani', '-Z', 'stubbing', '--harness', h['harness']]
        try:
            p = subprocess.run(['bash', '-c', f"ulimit -v {h.get('mem_kb', 16000000)}; exec timeout {h.get('timeout', 1500)} " + ' '.join(cmd)], cwd=KANI_DIR, env=env, capture_output=True, text=True)
            log = p.stdout + '\n' + p.stderr; rc = p.returncode
        except Exception as ex:
            log = repr(ex); rc = -1
        dt = round(time.time() - t0, 1)
        os.makedirs('/verif/.cache/kani-logs', exist_ok=True)
        open(f"/verif/.cache/kani-logs/{h['harness']}.log", 'w').write(log)
        ok = 'VERIFICATION:- SUCCESSFUL' in log
        failed = 'VERIFICATION:- FAILED' in log
        stubs = len(re.findall(r'^\s*- Stub:', log, flags=re.M))
        cm = re.search(r'\*\* (\d+) of (\d+) cover properties satisfied', log)
        covers_sat = int(cm.group(1)) if cm else 0; covers_bad = (int(cm.group(2)) - int(cm.group(1))) if cm else 0
        checks = re.search(r'\*\* (\d+) of (\d+) failed', log)
        info = {'harness': h['harness'], 'wall_s': dt, 'rc': rc, 'stubs_resolved': stubs, 'covers_satisfied': covers_sat, 'covers_unsat': covers_bad,
                'summary': (checks.group(0) if checks else ''), 'verdict': 'successful' if ok else 'failed' if failed else 'tool-error'}
        rep.kani.append(info)
        note = f"Kani 0.68/CBMC harness {h['harness']}: {info['verdict']} in {dt} s ({stubs} stubs resolved, {covers_sat} cover! satisfied, {covers_bad} unsatisfiable) {info['summary']}"
        if ok and covers_bad == 0 and (covers_sat >= h.get('covers', 0)) and stubs >= h.get('stubs', 0):
            out.append(_summary(h, queries=1 + covers_sat, unsat=1, witness_sat=max(covers_sat, 1), solver_s=dt, max_query_s=dt, notes=[note]))
        elif ok:
            out.append(_summary(h, queries=1, unknown=1, solver_s=dt, notes=[note, 'VACUOUS or unresolved stubs: the harness verified but a cover! was not satisfied / a stub was not applied']))
        elif failed and 'unwinding assertion' not in log.split('Failed Checks')[-1][:400] and rc not in (124, 137):
            fc = re.findall(r'Failed Checks: (.*)', log)[:4]
            out.append(_summary(h, queries=1, unknown=1, solver_s=dt, notes=[note, f'SECOND ENGINE DISAGREES (undecided, not a violation): failed checks {fc}']))
        else:
            # build problem, timeout, out of memory, unwinding bound: the second engine has no verdict; the first engine's verdict stands
            rep.kani[-1]['note'] = 'no verdict from the second engine (tool error / timeout / memory)'
    return out
